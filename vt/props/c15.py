"""C15 — WebSocket peers that violate the protocol are cut off without bad data.

Decided statically (DESIGN.md §4 C15):

* *violation table -> abort*: ``_receive_frame`` is explored for every concrete
  header byte / length code of each violation class (reserved bits, oversized or
  fragmented control frames, continuation without start, data frame inside a
  fragmented message, message above the limit) and ``_handle_message`` for every
  unknown opcode; every normal-return path must have called ``_abort()`` without
  dispatching, buffering or (for the size limit) reading the payload;
* *abort stops everything*: ``_abort`` sets both terminated flags and closes the
  stream, the dispatcher does nothing once ``client_terminated`` is set, the
  receive loop tests that flag, nothing follows an ``_abort()`` in the parser;
* *exception discipline*: every operation of the receive call tree that peer
  bytes can make raise (inflate, UTF-8 decoding, struct.unpack of a short slice)
  is caught by a handler that aborts, inside ``_handle_message`` /
  ``_receive_frame`` / ``_receive_frame_loop`` (frozen raise model, lexical
  handler lookup with the exception hierarchy).

Not decided: that every message completed before the violation was delivered
intact (C14 covers the data path), zlib's own behaviour, timing of the TCP close.
"""
from __future__ import annotations

import ast
import struct

from .. import q
from .. import x_ws as X
from ..cfg import must_facts, canon_fact
from ..model import AnalysisError
from .. import x_wsnorm as NORM
from ..mutate import mutate, remove_stmts, replace_expr, replace_stmt, parse_stmt, parse_expr

TECHNIQUE = "exhaustive header-byte/opcode enumeration with constant propagation over the CFG + exception-escape lint against a frozen raise model"
EXPLANATION = (
    "Each RFC 6455 / permessage-deflate violation class is turned into the set of concrete header bytes, length codes and state assumptions "
    "that constitute it; WebSocketProtocol13._receive_frame/_handle_message are explored for each of them and every normal-return state must be "
    "'aborted, nothing dispatched, nothing buffered'. _abort, the terminated guard and the loop condition are checked by dominance. Fallible "
    "operations on peer bytes are enumerated from a raise model and must sit under a handler that aborts."
)
NOT_DECIDED = "that messages completed before the violating frame are delivered intact (see C14); zlib internals; the moment the TCP connection is torn down"

W = "tornado/websocket.py"
P13 = "WebSocketProtocol13"
BUF_NONE = X.BUF + " is None"
NO_DECOMP = "self._decompressor is None"
LIMIT_ATTR = "max_message_size"


def _clean_abort(u) -> bool:
    return u.aborted and u.handled == 0 and u.buf == "untouched" and u.sop is None


def _scenario(ck, rule, fi, consts, label, headers, assume=None, need_no_payload_read=False, extra_consts=None, tag=None, stipulate=None):
    """Every normal-return state of every listed (h, m) is a clean abort."""
    cs = dict(consts)
    if extra_consts:
        cs.update(extra_consts)
    bad = []
    n = 0
    for h, m in headers:
        seen = X.run_frame(fi, cs, h=h, m=m, assume=assume, stipulate=stipulate)
        exits = [u for _e, u in X.frame_states(seen, fi.cfg.exit)]
        n += 1
        if not exits:
            bad.append((h, m, "no normal return"))
            continue
        for u in exits:
            if not _clean_abort(u):
                bad.append((h, m, "aborted=%s dispatched=%d buffer=%s" % (u.aborted, u.handled, u.buf)))
                break
            if need_no_payload_read and X.payload_read(u, m):
                bad.append((h, m, "payload read before the abort"))
                break
    msg = "%s: all %d header combinations abort without dispatching or buffering%s" % (label, n, " or reading the payload" if need_no_payload_read else "")
    if bad:
        h, m, why = bad[0]
        msg += " - fails for first byte %s second byte %s: %s (%d combinations)" % ("0x%02X" % h if h is not None else "*", "0x%02X" % m if m is not None else "*", why, len(bad))
    ck.ob(rule, fi, fi.node, not bad, msg, construct=tag or label)
    return n


def _limit_tests(fi):
    """Test nodes of fi comparing something with ...max_message_size; returns (node, too_big_polarity)."""
    out = []
    for n in fi.cfg.stmt_nodes(lambda n: n.kind == "test" and isinstance(n.ast, ast.Compare)):
        paths = [q.dotted(x) for x in ast.walk(n.ast) if isinstance(x, ast.Attribute)]
        lim = [p for p in paths if p and p.endswith("." + LIMIT_ATTR)]
        if not lim:
            continue
        env = {p: 10 for p in lim}
        env[X.BUF] = b""
        for nm in q.names_in(n.ast):
            if nm != "self":
                env[nm] = 10 ** 9
        try:
            pol = bool(X.xfold(n.ast, env))
        except q.NotFoldable:
            raise AnalysisError("%s: size-limit test %s is not a plain comparison" % (fi.qualname, q.unparse(n.ast)))
        out.append((n, pol, lim[0]))
    return out


def rule_table(ck, rf, hm, consts):
    R = "C15.abort-table"
    n = 0
    any_m = None
    # reserved bits without an extension
    hs = [(h, any_m) for h in range(256) if h & 0x70]
    n += _scenario(ck, R, rf, consts, "reserved bits set, no extension negotiated", hs, assume={NO_DECOMP: True}, need_no_payload_read=True)
    hs = [(h, any_m) for h in range(256) if h & 0x30]
    n += _scenario(ck, R, rf, consts, "RSV2/RSV3 set, permessage-deflate negotiated", hs, assume={NO_DECOMP: False}, need_no_payload_read=True)
    hs = [(h, any_m) for h in range(256) if (h & 0x40) and (h & 0x08)]
    n += _scenario(ck, R, rf, consts, "RSV1 set on a control frame, permessage-deflate negotiated (RFC 7692 6.1)", hs, assume={NO_DECOMP: False}, tag="rsv1-on-control")
    hs = [(h, any_m) for h in range(256) if (h & 0x40) and (h & 0x0F) == 0]
    n += _scenario(ck, R, rf, consts, "RSV1 set on a continuation frame, permessage-deflate negotiated (RFC 7692 6.1)", hs, assume={NO_DECOMP: False, BUF_NONE: False}, need_no_payload_read=True, tag="rsv1-on-continuation")
    # control frames: length >= 126, fragmented
    hs = [(0x80 | op, mb | code) for op in range(8, 16) for code in (126, 127) for mb in (0, 0x80)]
    n += _scenario(ck, R, rf, consts, "control frame with payload length code 126/127", hs, need_no_payload_read=True)
    hs = [(op, mb | code) for op in range(8, 16) for code in (0, 5, 125) for mb in (0, 0x80)]
    n += _scenario(ck, R, rf, consts, "fragmented control frame (FIN clear)", hs)
    # continuation without start / new data frame inside a fragmented message
    hs = [(fin | 0, mb | 5) for fin in (0, 0x80) for mb in (0, 0x80)]
    n += _scenario(ck, R, rf, consts, "continuation frame with no message in progress", hs, assume={BUF_NONE: True})
    hs = [(fin | op, mb | 5) for op in range(1, 8) for fin in (0, 0x80) for mb in (0, 0x80)]
    n += _scenario(ck, R, rf, consts, "new data frame while a fragmented message is in progress", hs, assume={BUF_NONE: False})
    # unknown opcodes in the dispatcher
    bad = []
    for v in list(range(3, 8)) + list(range(0xB, 0x10)):
        for comp in (True, False):
            seen = X.run_message(hm, consts, v, assume={X.FC: comp, "self.client_terminated": False})
            exits = [u for _e, u in X.states_at(seen, hm.cfg.exit)]
            if not exits or any((not u.aborted) or u.delivered or u.wrote for u in exits):
                bad.append(v)
    ck.ob(R, hm, hm.node, not bad, "unknown opcodes 3-7 and 0xB-0xF: _handle_message aborts on every path, delivers nothing, writes nothing%s" % ((" - fails for " + ",".join("0x%X" % v for v in sorted(set(bad)))) if bad else ""), construct="unknown opcodes")
    return n


def rule_size(ck, rf, hm, consts):
    R = "C15.size-limit"
    lts = _limit_tests(rf)
    ck.floor(R, len(lts), 1, "comparisons with max_message_size in _receive_frame")
    for node, pol, lim in lts:
        text = canon_fact(node.ast, True)[0]
        big = {q.unparse(node.ast): pol}
        # extended lengths: the test does not fold, stipulate its outcome
        hs = [(0x80 | op, code) for op in (1, 2) for code in (126, 127)] + [(op, code) for op in (1, 2) for code in (126, 127)]
        _scenario(ck, R, rf, consts, "data frame whose (extended) length exceeds max_message_size", hs, assume={BUF_NONE: True}, stipulate=big, need_no_payload_read=True, tag="too big, extended length")
        hs = [(fin, code) for fin in (0, 0x80) for code in (126, 127)]
        _scenario(ck, R, rf, consts, "continuation frame that takes the message over max_message_size", hs, assume={BUF_NONE: False}, stipulate=big, need_no_payload_read=True, tag="too big, continuation")
        # the limit is applied to the *decoded* extended length, not to the 7-bit length code
        for code in (126, 127):
            seen = X.run_frame(rf, dict(consts, **{X.BUF: None}), h=0x82, m=code)
            views = set()
            for env, u in X.frame_states(seen, node):
                callees = {id(x.func) for x in ast.walk(node.ast) if isinstance(x, ast.Call)}
                for y in ast.walk(node.ast):
                    if not isinstance(y, ast.Name) or y.id == "self" or id(y) in callees:
                        continue
                    nm = y.id
                    views.add(env[nm] if nm in env else (X._tag_get(u.tags, nm) or "?"))
            is_ext = lambda v: isinstance(v, tuple) and v and v[0] == "extlen"
            if any(v == "?" for v in views):
                raise AnalysisError("_receive_frame: an operand of the max_message_size comparison has an origin the analysis does not model")
            ok = any(is_ext(v) for v in views) and all(is_ext(v) or (isinstance(v, int) and not isinstance(v, bool)) for v in views)
            ck.ob(R, rf, node.ast, ok, "length code %d: the quantity compared with max_message_size is the decoded extended length (got %s)" % (code, sorted(map(repr, views))), construct="limit operand for code %d: %s" % (code, sorted(map(repr, views))))
        # units: what does len(<reassembly buffer>) count?  Resolved through every assignment / mutation of the field.
        kind, ev = X.field_kind(ck.repo, W, P13, X.BUF)
        if kind in ("unknown", "mixed"):
            raise AnalysisError("_fragmented_message_buffer: representation cannot be resolved (%s; %s)" % (kind, "; ".join(ev[:4])))
        # every len(...) that feeds the compared quantity must be a byte count
        cmp_names = {n_ for n_ in q.names_in(node.ast)}
        feeders = []
        for x in q.walk_body(rf.node):
            if isinstance(x, (ast.Assign, ast.AugAssign)):
                tg = x.targets if isinstance(x, ast.Assign) else [x.target]
                if any(isinstance(t, ast.Name) and t.id in cmp_names for t in tg):
                    feeders.extend(c for c in ast.walk(x.value) if q.is_call(c, "len") and c.args)
        feeders.extend(c for c in ast.walk(node.ast) if q.is_call(c, "len") and c.args)
        for c in feeders:
            arg = q.dotted(c.args[0])
            if arg == X.BUF:
                ck.ob(R, rf, c, kind == "bytes", "len(%s) is added to the message size: the field must hold bytes (len = byte count), it is represented as %s (%s)" % (X.BUF, kind, "; ".join(ev[:3])),
                      construct="units: len(%s) with representation %s" % (X.BUF, kind))
            elif isinstance(c.args[0], (ast.List, ast.Tuple, ast.Set, ast.ListComp, ast.Dict)):
                ck.ob(R, rf, c, False, "len(%s) is added to the message size but counts elements, not bytes" % q.unparse(c.args[0])[:60], construct="units: len of a container literal")
            # other operands are decided by the concrete boundary evaluation below
        # boundary, concrete: 1000 bytes buffered (in the field's own representation) + 100 in this frame
        for nchunks in ((2, 7) if kind == "chunks" else (1,)):
            buffered = {X.BUF: X.buffer_model(kind, 1000, nchunks)}
            for limit, want_abort in ((1099, True), (1100, False)):
                cs = dict(consts)
                cs.update(buffered)
                cs[lim] = limit
                for h in (0x00, 0x80):
                    seen = X.run_frame(rf, cs, h=h, m=100)
                    exits = [u for _e, u in X.frame_states(seen, rf.cfg.exit)]
                    if exits and len({u.aborted for u in exits}) > 1:
                        raise AnalysisError("_receive_frame: the accumulated message size does not evaluate for a concrete buffer (size expression not modelled)")
                    if want_abort:
                        ok = bool(exits) and all(_clean_abort(u) and not X.payload_read(u, 100) for u in exits)
                    else:
                        ok = bool(exits) and all((not u.aborted) and len(u.reads) == X.hdr_count(100) + 1 for u in exits)
                    ck.ob(R, rf, node.ast, ok, "1000 bytes buffered (%s, %d piece(s)) + 100-byte continuation (0x%02X) against max_message_size=%d: %s" % (kind, nchunks, h, limit, "aborted before the payload is read" if want_abort else "accepted (the limit itself is allowed)"),
                          construct="accumulated boundary h=0x%02X limit=%d pieces=%d ok=%s" % (h, limit, nchunks, ok))
        for limit, want_abort in ((99, True), (100, False)):
            cs = dict(consts)
            cs[lim] = limit
            cs[X.BUF] = None
            seen = X.run_frame(rf, cs, h=0x82, m=100)
            exits = [u for _e, u in X.frame_states(seen, rf.cfg.exit)]
            ok = bool(exits) and (all(_clean_abort(u) and not X.payload_read(u, 100) for u in exits) if want_abort else all((not u.aborted) and len(u.reads) == X.hdr_count(100) + 1 for u in exits))
            ck.ob(R, rf, node.ast, ok, "100-byte unfragmented frame against max_message_size=%d: %s" % (limit, "aborted before the payload is read" if want_abort else "accepted"), construct="single boundary limit=%d ok=%s" % (limit, ok))
    # after decompression
    dec = ck.func(W, "_PerMessageDeflateDecompressor.decompress")
    init = ck.func(W, "_PerMessageDeflateDecompressor.__init__")
    zc = [c for c in q.calls(dec.node) if isinstance(c.func, ast.Attribute) and c.func.attr == "decompress"]
    ck.floor(R, len(zc), 1, "zlib decompress calls")
    lim_attr = None
    for c in zc:
        a = q.arg(c, 1, "max_length")
        lim_attr = q.dotted(a) if a is not None else None
        ck.ob(R, dec, c, bool(lim_attr) and lim_attr.startswith("self."), "zlib decompress is given a max_length taken from the decompressor's configured limit")
    if lim_attr:
        stores = q.stores_to(init.node, lim_attr)
        ps = init.params()
        ok = any(isinstance(getattr(st, "value", None), ast.Name) and st.value.id in ps and LIMIT_ATTR in st.value.id for st in stores)
        ck.ob(R, init, init.node, ok, "%s is the max_message_size constructor argument" % lim_attr, construct="%s from ctor arg: %s" % (lim_attr, ok))
    # unconsumed tail -> _DecompressTooLargeError on every path that has leftover input
    tails = [n for n in dec.cfg.stmt_nodes(lambda n: n.kind == "test") if any(isinstance(x, ast.Attribute) and x.attr == "unconsumed_tail" for x in ast.walk(n.ast))]
    ck.ob(R, dec, dec.node, len(tails) >= 1, "decompress looks at unconsumed_tail after the bounded inflate", construct="unconsumed_tail tested: %s" % bool(tails))
    for t in tails:
        succ_true = [s for s, k in dec.cfg.successors(t) if k == "true"]
        ok = bool(succ_true) and all(s.kind == "stmt" and isinstance(s.ast, ast.Raise) and "_DecompressTooLargeError" in q.unparse(s.ast) for s in succ_true)
        ck.ob(R, dec, t.ast, ok, "leftover compressed input after max_length bytes raises _DecompressTooLargeError (the result is never returned truncated)")
    # the leftover test guards every return of an inflated result
    rets = dec.cfg.stmt_nodes(lambda n: n.kind == "stmt" and isinstance(n.ast, ast.Return) and n.ast.value is not None)
    for rn in rets:
        cut = {(t.id, "false") for t in tails}
        seen_ids = {dec.cfg.entry.id}
        stack = [dec.cfg.entry.id]
        while stack:
            x = stack.pop()
            for y, k in dec.cfg.succ[x]:
                if (x, k) in cut or y in seen_ids:
                    continue
                seen_ids.add(y)
                stack.append(y)
        ck.ob(R, dec, rn.ast, bool(tails) and rn.id not in seen_ids, "the inflated result is returned only after unconsumed_tail was found empty (on every path, whatever the context-takeover mode)")
    crt = ck.func(W, P13 + "._create_compressors")
    dcs = q.find_calls(crt.node, "_PerMessageDeflateDecompressor")
    ck.floor(R, len(dcs), 1, "_PerMessageDeflateDecompressor constructions")
    for c in dcs:
        a = q.kwarg(c, LIMIT_ATTR)
        ck.ob(R, crt, c, a is not None and (q.dotted(a) or "").endswith("." + LIMIT_ATTR), "the decompressor is built with the connection's max_message_size")
    # the dispatcher turns the error into an abort
    _handled_by_abort(ck, R, hm, [c for c in q.calls(hm.node) if isinstance(c.func, ast.Attribute) and c.func.attr == "decompress"], "_DecompressTooLargeError", [], "decompressed size above the limit")


# ---------------------------------------------------------------------------
# handlers


def _handler_aborts(fi, h: ast.ExceptHandler) -> bool:
    """Every path that enters handler ``h`` and reaches the normal exit of fi has called self._abort() after entering it
    and no callback / dispatch follows - decided path-sensitively (constant propagation), so that a handler that
    records "failed" in a local which is tested afterwards (a helper inlined with its `return None`) is read correctly."""
    cfg = fi.cfg
    starts = {n.id for n in cfg.nodes if n.kind == "handler" and n.ast is h and n.id in cfg.reachable()}
    if not starts:
        return False

    def ut(n, u, env):
        entered, ab, bad = u
        if n.id in starts:
            return (True, False, False)
        if entered and n.kind in ("stmt", "test"):
            if X.calls_in_node(n, "self._abort"):
                ab = True
            if X.calls_in_node(n, "self._run_callback", "self._handle_message", "self.handler.on_message"):
                bad = True
        return (entered, ab, bad)

    try:
        consts = X.class_consts(fi_repo(fi), fi.file, fi.qualname.split(".")[0]) if fi.cls is not None else {}
    except Exception:
        consts = {}
    seen = X.explore_consts(cfg, consts, uinit=(False, False, False), utransfer=ut)
    finals = [u for _e, u in X.states_at(seen, cfg.exit) if u[0]]
    if not finals:
        # the handler never reaches a normal return (it re-raises): nothing is delivered through it
        return all(u[1] for _e, u in X.states_at(seen, cfg.rexit) if u[0]) if any(u[0] for _e, u in X.states_at(seen, cfg.rexit)) else False
    return all(ab and not bad for _ent, ab, bad in finals)


_REPO = [None]


def fi_repo(fi):
    return _REPO[0]


def _handled_by_abort(ck, rule, fi, sites, exc, chain, what, report_fi=None, report_node=None):
    """``exc`` raised at each of ``sites`` in ``fi`` is caught by a handler that
    aborts, in fi or (recursively) around every call site up ``chain`` =
    [(caller fi, callee call predicate), ...]."""
    for site in sites:
        ok, where = _protected(fi, site, exc, chain)
        ck.ob(rule, report_fi or fi, report_node if report_node is not None else site, ok, "%s: %s is caught by a handler that aborts the connection%s" % (what, exc, (" (" + where + ")") if where else " - it escapes " + " -> ".join([fi.qualname] + [c[0].qualname for c in chain])))


def _protected(fi, site, exc, chain):
    pm = q.parent_map(fi.node)
    for _try, handlers in q.enclosing_try_handlers(pm, site):
        for h in handlers:
            if q.exc_is_caught(exc, q.handler_names(h)):
                if _handler_aborts(fi, h):
                    return True, "handler in %s" % fi.qualname
                return False, ""
    if not chain:
        return False, ""
    caller, pred = chain[0]
    sites = [c for c in q.calls(caller.node) if pred(c)]
    if not sites:
        raise AnalysisError("%s: no call site of the next receive stage found" % caller.qualname)
    wh = ""
    for s in sites:
        ok, wh = _protected(caller, s, exc, chain[1:])
        if not ok:
            return False, ""
    return True, wh


def rule_exc(ck, hm, rf, loop):
    R = "C15.exc-abort"
    dec = ck.func(W, "_PerMessageDeflateDecompressor.decompress")
    up_from_hm = [(rf, lambda c: q.is_call(c, "self._handle_message")), (loop, lambda c: q.is_call(c, "self._receive_frame"))]
    up_from_dec = [(hm, lambda c: isinstance(c.func, ast.Attribute) and c.func.attr == "decompress" and (q.dotted(c.func.value) or "").startswith("self._decompressor"))] + up_from_hm
    n = 0
    # inflate of peer bytes
    zc = [c for c in q.calls(dec.node) if isinstance(c.func, ast.Attribute) and c.func.attr == "decompress"]
    _handled_by_abort(ck, R, dec, zc, "zlib.error", up_from_dec, "corrupt deflate stream")
    n += len(zc)
    # text decoding of peer bytes in the dispatcher
    dparam = [p for p in hm.params() if p != "self"][1]
    tainted = {dparam}
    for x in q.walk_body(hm.node):
        if isinstance(x, ast.Assign) and any(isinstance(y, ast.Name) and y.id in tainted for y in ast.walk(x.value)):
            for t in x.targets:
                if isinstance(t, ast.Name):
                    tainted.add(t.id)
    for c in q.calls(hm.node):
        fall = None
        if isinstance(c.func, ast.Attribute) and c.func.attr == "decode" and any(isinstance(y, ast.Name) and y.id in tainted for y in ast.walk(c.func.value)):
            errors = c.args[1] if len(c.args) > 1 else q.kwarg(c, "errors")
            codec = c.args[0].value if c.args and isinstance(c.args[0], ast.Constant) else "utf-8"
            if (errors is None or (isinstance(errors, ast.Constant) and errors.value == "strict")) and str(codec).lower() not in ("latin1", "latin-1", "iso-8859-1"):
                fall = "decode"
        elif q.call_attr(c) in ("to_unicode", "native_str", "_unicode") and c.args and any(isinstance(y, ast.Name) and y.id in tainted for y in ast.walk(c.args[0])):
            fall = q.call_attr(c)
        if fall:
            n += 1
            _handled_by_abort(ck, R, hm, [c], "UnicodeDecodeError", up_from_hm, "invalid UTF-8 in peer data (%s)" % fall)
    # struct.unpack of peer bytes: safe only when the operand has exactly calcsize bytes
    facts = must_facts(hm.cfg)
    for node, c in hm.cfg.find(lambda x: q.is_call(x, "struct.unpack")):
        n += 1
        fmt = c.args[0].value if c.args and isinstance(c.args[0], ast.Constant) else None
        a = c.args[1] if len(c.args) > 1 else None
        size = struct.calcsize(fmt) if isinstance(fmt, str) else None
        exact = False
        if size is not None and isinstance(a, ast.Subscript) and isinstance(a.slice, ast.Slice) and a.slice.lower is None and a.slice.step is None and isinstance(a.slice.upper, ast.Constant) and a.slice.upper.value == size and isinstance(a.value, ast.Name):
            nm = a.value.id
            for (t, pol) in facts[node.id]:
                try:
                    e = ast.parse(t, mode="eval").body
                except SyntaxError:
                    continue
                if isinstance(e, ast.Compare) and q.is_call(e.left, "len") and q.dotted(e.left.args[0]) == nm:
                    try:
                        if all(bool(q.fold(e, {nm: "x" * k})) != pol for k in range(0, size)) and bool(q.fold(e, {nm: "x" * size})) == pol:
                            exact = True
                    except q.NotFoldable:
                        pass
        if exact:
            ck.ob(R, hm, c, True, "struct.unpack(%r) of a %d-byte slice guarded by a length test cannot raise" % (fmt, size))
        else:
            _handled_by_abort(ck, R, hm, [c], "struct.error", up_from_hm, "short operand for struct.unpack")
    # header unpacks in the parser operate on reads of exactly calcsize bytes
    consts = X.class_consts(ck.repo, W, P13)
    for m in (5, 126, 127):
        seen = X.run_frame(rf, consts, h=0x82, m=m, assume={BUF_NONE: True})
        for node, c in rf.cfg.find(lambda x: q.is_call(x, "struct.unpack")):
            for env, u in X.frame_states(seen, node):
                fmt = X.fold_in(c.args[0], dict(consts, **env), None) if c.args else None
                n += 1
                t = X.arg_view(c.args[1], env, u) if len(c.args) > 1 else "?"
                ok = isinstance(fmt, str) and t == ("read", struct.calcsize(fmt))
                ck.ob(R, rf, c, ok, "struct.unpack(%r) operates on a read of exactly %s bytes (operand: %r)" % (fmt, struct.calcsize(fmt) if isinstance(fmt, str) else "?", t))
    return n


# ---------------------------------------------------------------------------


def rule_abort_stops(ck, rf, hm, loop, consts):
    R = "C15.abort-stops"
    ab = ck.func(W, "WebSocketProtocol._abort")
    ex = ab.cfg.exit

    def assigns_true(path):
        return lambda n: n.kind == "stmt" and isinstance(n.ast, ast.Assign) and path in q.assigned_paths(n.ast) and isinstance(n.ast.value, ast.Constant) and n.ast.value.value is True

    from ..rules import event_facts, node_calls

    ef = event_facts(ab, {"ct": assigns_true("self.client_terminated"), "st": assigns_true("self.server_terminated"), "close": node_calls("self.stream.close")}, cond_facts=True)
    at_exit = ef.get(ex.id, frozenset())
    ck.ob(R, ab, ab.node, ("@ct", True) in at_exit, "_abort sets client_terminated = True on every path", construct="client_terminated set")
    ck.ob(R, ab, ab.node, ("@st", True) in at_exit, "_abort sets server_terminated = True on every path (no close frame is attempted afterwards)", construct="server_terminated set")
    # stream closed unless there is none
    def ut(n, u, env):
        return (True, u[1]) if X.calls_in_node(n, "self.stream.close") else u

    def ue(n, kind, u, env):
        if n.kind == "test" and kind in ("true", "false") and canon_fact(n.ast, kind == "true") in (("self.stream is None", True), ("self.stream", False)):
            return (u[0], True)
        return u

    seen = X.explore_consts(ab.cfg, {}, uinit=(False, False), utransfer=ut, uedge=ue, follow_exc=False)
    sts = [u for _e, u in X.states_at(seen, ex)]
    ck.ob(R, ab, ab.node, bool(sts) and all(closed or none for closed, none in sts), "_abort closes the stream on every path where there is one", construct="stream closed")
    # flags are set before the stream is closed (close callbacks see a terminated protocol)
    for n in ab.cfg.stmt_nodes(lambda n: bool(X.calls_in_node(n, "self.stream.close", "self.close"))):
        ck.ob(R, ab, n.ast, ("@ct", True) in ef[n.id] and ("@st", True) in ef[n.id], "both terminated flags are set before _abort calls into stream.close()/close()")
    # dispatcher does nothing once terminated
    bad = []
    for v in range(16):
        for comp in (True, False):
            seen = X.run_message(hm, consts, v, assume={"self.client_terminated": True, X.FC: comp})
            exits = [u for _e, u in X.states_at(seen, hm.cfg.exit)] + [u for _e, u in X.states_at(seen, hm.cfg.rexit)]
            if not exits or any(u.delivered or u.wrote or u.inflated or u.closed for u in exits):
                bad.append(v)
    ck.ob(R, hm, hm.node, not bad, "_handle_message with client_terminated set: no delivery, no inflation, no frame written, for all 16 opcodes%s" % ((" - fails for " + ",".join(map(str, sorted(set(bad))))) if bad else ""), construct="terminated guard")
    # loop condition: with client_terminated set no further frame is read (decided on the CFG, whatever the loop form)
    reads = loop.cfg.find(lambda x: q.is_call(x, "self._receive_frame"))
    ck.floor(R, len(reads), 1, "frame reads in the receive loop")
    seen_t = X.explore_consts(loop.cfg, {"self.client_terminated": True})
    seen_f = X.explore_consts(loop.cfg, {"self.client_terminated": False})
    for node, c in reads:
        ck.ob(R, loop, c, not X.reached(seen_t, node), "the receive loop stops reading frames once client_terminated is set")
        if not X.reached(seen_f, node):
            raise AnalysisError("_receive_frame_loop: the frame read is not reachable even with client_terminated unset")
    # nothing after an abort in the parser (path-sensitive: decided on the explored states, not on graph reachability)
    cfg = rf.cfg
    n_ab = len(cfg.find(lambda x: q.is_call(x, "self._abort")))
    seen = X.run_frame(rf, consts)
    sinks = []
    for m in cfg.stmt_nodes(lambda m: m.kind in ("stmt", "test")):
        if X.calls_in_node(m, "self._handle_message", "self._read_bytes") or (m.kind == "stmt" and isinstance(m.ast, ast.stmt) and any((p_[:-2] if p_.endswith("[]") else p_) in X.MSG_STATE for p_ in q.assigned_paths(m.ast))) \
                or any(isinstance(c_.func, ast.Attribute) and q.dotted(c_.func.value) in X.MSG_STATE for c_ in X.node_calls_all(m)):
            sinks.append(m)
    ck.floor(R, len(sinks), 4, "reads / dispatches / state writes in _receive_frame")
    for m in sinks:
        after_abort = [u for _e, u in X.frame_states(seen, m) if u.aborted]
        ck.ob(R, rf, m.ast, not after_abort, "no path on which self._abort() was called reaches this read / dispatch / state write (after an abort the parser just returns)")
    ck.floor(R, n_ab, 5, "_abort() sites in _receive_frame")
    # application callback errors abort
    rc = ck.func(W, "WebSocketProtocol._run_callback")
    cb = [p for p in rc.params() if p != "self"][0]
    cbs = [c for c in q.calls(rc.node) if isinstance(c.func, ast.Name) and c.func.id == cb]
    ck.floor(R, len(cbs), 1, "callback invocations in _run_callback")
    _handled_by_abort(ck, R, rc, cbs, "Exception", [], "exception raised by an application callback")


def run(ck):
    ck.repo = NORM.normalize(ck.repo, W, NORM.KEEP_WS)  # aliases, temporaries, 1-tuple unpacks, single-use private helpers (vt/x_wsnorm.py)
    ck.rule("C15.abort-table", "every RFC 6455 / permessage-deflate header violation (reserved bits, RSV1 on control/continuation frames, control frames >125 bytes or fragmented, continuation without start, data frame inside a fragmented message, unknown opcode) ends in _abort() with nothing dispatched or buffered, for every concrete header byte of the class")
    ck.rule("C15.size-limit", "messages above max_message_size are aborted before their payload is read: the compared quantity is the decoded frame length plus the buffered *bytes* (units resolved through every assignment/mutation of the buffer field and evaluated on concrete buffer models), limit itself accepted; the inflater is bounded by the same limit on every path and overflow becomes an abort")
    ck.rule("C15.utf8", "a text message is delivered only as the strict UTF-8 decoding of its payload; a decoding error aborts without delivery")
    ck.rule("C15.abort-stops", "_abort sets both terminated flags and closes the stream; once terminated the dispatcher does nothing and the loop stops; nothing follows _abort() in the parser; callback errors abort")
    ck.rule("C15.exc-abort", "every operation of the receive call tree that peer bytes can make raise (inflate, UTF-8 decoding, struct.unpack) is under a handler that aborts the connection, within _handle_message/_receive_frame/_receive_frame_loop")

    _REPO[0] = ck.repo
    consts = X.class_consts(ck.repo, W, P13)
    rf = ck.func(W, P13 + "._receive_frame")
    hm = ck.func(W, P13 + "._handle_message")
    loop = ck.func(W, P13 + "._receive_frame_loop")

    n = rule_table(ck, rf, hm, consts)
    ck.floor("C15.abort-table", n, 300, "header combinations")
    rule_size(ck, rf, hm, consts)
    # UTF-8
    n_txt = 0
    for comp in (True, False):
        seen = X.run_message(hm, consts, 1, assume={X.FC: comp, "self.client_terminated": False})
        for _e, u in X.states_at(seen, hm.cfg.exit):
            for cbn, args in u.delivered:
                n_txt += 1
                ck.ob("C15.utf8", hm, hm.node, cbn == "self.handler.on_message" and args == ("text",), "opcode 1 delivers only the strict UTF-8 decoding of the payload (delivered %r via %s)" % (args, cbn), construct="text delivery %r" % (args,))
    ck.floor("C15.utf8", n_txt, 2, "text deliveries")
    decs = [c for c in q.calls(hm.node) if isinstance(c.func, ast.Attribute) and c.func.attr == "decode"]
    ck.floor("C15.utf8", len(decs), 1, "decode calls in _handle_message")
    _handled_by_abort(ck, "C15.utf8", hm, decs, "UnicodeDecodeError", [], "invalid UTF-8 in a text message")
    rule_abort_stops(ck, rf, hm, loop, consts)
    n = rule_exc(ck, hm, rf, loop)
    ck.floor("C15.exc-abort", n, 5, "fallible operations on peer bytes")


def _in(qn, edit, rel=W):
    return lambda repo: mutate(repo, rel, qn, edit)


def _src(st):
    return ast.unparse(st)


def _if_with_test(pred):
    return lambda st: isinstance(st, ast.If) and pred(_src(st.test))


def _drop_abort_block(test_pred):
    """Replace the body of the `if <test>: self._abort(); return` block by `pass`."""
    return replace_stmt(lambda st: isinstance(st, ast.If) and test_pred(_src(st.test)) and any("self._abort()" in _src(x) for x in st.body),
                        lambda st: [ast.If(test=st.test, body=[ast.Pass()], orelse=st.orelse)])


def _drop_return_after_abort(test_pred):
    def edit(root):
        for n in ast.walk(root):
            if isinstance(n, ast.If) and test_pred(_src(n.test)) and len(n.body) >= 2 and isinstance(n.body[-1], ast.Return) and "self._abort()" in _src(n.body[-2]):
                del n.body[-1]
                return True
        return False

    return edit


def _move_limit_after_read(root):
    body = root.body
    idx = [i for i, st in enumerate(body) if isinstance(st, ast.If) and "max_message_size" in _src(st.test)]
    rd = [i for i, st in enumerate(body) if isinstance(st, ast.Assign) and "_read_bytes(payloadlen)" in _src(st)]
    if not idx or not rd or idx[0] > rd[0]:
        return False
    st = body.pop(idx[0])
    body.insert(rd[0], st)
    return True


def _drop_handler(name):
    def edit(root):
        for n in ast.walk(root):
            if isinstance(n, ast.Try):
                hs = [h for h in n.handlers if h.type is not None and name in _src(h.type)]
                if hs and len(n.handlers) > 1:
                    n.handlers.remove(hs[0])
                    return True
        return False

    return edit


def _limit_before_decode(root):
    body = root.body
    idx = [i for i, st in enumerate(body) if (isinstance(st, ast.Assign) and _src(st) == "new_len = payloadlen") or (isinstance(st, ast.If) and ("new_len +=" in _src(st) or "max_message_size" in _src(st.test)))]
    dec = [i for i, st in enumerate(body) if isinstance(st, ast.If) and _src(st.test) == "payloadlen < 126"]
    if len(idx) != 3 or not dec or dec[0] > idx[0]:
        return False
    moved = [body[i] for i in idx]
    for i in reversed(idx):
        del body[i]
    body[dec[0]:dec[0]] = moved
    return True


def _buffer_as_chunk_list(root):
    """the seeded C15-adv1 change: reassembly buffer becomes a list of chunks, the size check keeps len(buffer)"""
    k = 0
    for n in ast.walk(root):
        if isinstance(n, ast.Call) and isinstance(n.func, ast.Attribute) and n.func.attr == "extend" and "_fragmented_message_buffer" in _src(n.func.value):
            n.func.attr = "append"
            k += 1
    for n in ast.walk(root):
        for fld in ("body", "orelse"):
            body = getattr(n, fld, None)
            if isinstance(body, list):
                for i, st in enumerate(body):
                    if isinstance(st, ast.Assign) and _src(st) == "data = bytes(self._fragmented_message_buffer)":
                        body[i] = parse_stmt("data = b''.join(self._fragmented_message_buffer)")
                        k += 1
                    elif isinstance(st, ast.Assign) and _src(st) == "self._fragmented_message_buffer = bytearray(data)":
                        body[i] = parse_stmt("self._fragmented_message_buffer = [data]")
                        k += 1
    return k == 3


MUTANTS = [
    ("seeded C15-adv1: buffer becomes a list of chunks, limit still adds len(buffer) (fragments, not bytes)", _in(P13 + "._receive_frame", _buffer_as_chunk_list), "C15.size-limit"),
    ("limit applied to the 7-bit length code (check moved before the extended length is decoded)", _in(P13 + "._receive_frame", _limit_before_decode), "C15.size-limit"),
    ("inflate overflow only detected with context takeover", _in("_PerMessageDeflateDecompressor.decompress", replace_expr(lambda n: isinstance(n, ast.Attribute) and n.attr == "unconsumed_tail", lambda n: parse_expr("(self._decompressor is not None and decompressor.unconsumed_tail)"))), "C15.size-limit"),
    ("seeded C15-adv4: control-frame length check moved below the extended-length decode and tests > 126", _in(P13 + "._receive_frame", lambda root: _ctl_check_after_decode(root)), "C15.abort-table"),
    ("size check adds the number of frames seen instead of the buffered bytes", _in(P13 + "._receive_frame", replace_expr(lambda n: q.is_call(n, "len") and "_fragmented_message_buffer" in _src(n), lambda n: parse_expr("len([self._fragmented_message_buffer])"))), "C15.size-limit"),
    ("size check assigns instead of accumulating (new_len = len(buffer))", _in(P13 + "._receive_frame", replace_stmt(lambda st: isinstance(st, ast.AugAssign) and "new_len" in _src(st.target), lambda st: [ast.Assign(targets=[ast.Name(id="new_len", ctx=ast.Store())], value=st.value)])), "C15.size-limit"),
    ("undo the G5-1/G5-2 repair: the broad handler of the receive loop removed", _in(P13 + "._receive_frame_loop", _drop_handler("Exception")), "C15.exc-abort"),
    ("broad handler of the receive loop only logs (no abort)", _in(P13 + "._receive_frame_loop", lambda root: bool([h.body.pop() for n in ast.walk(root) if isinstance(n, ast.Try) for h in n.handlers if h.type is not None and _src(h.type) == "Exception" and _src(h.body[-1]) == "self._abort()"])), "C15.exc-abort"),
    ("undo the F12 and loop repairs: neither zlib.error nor Exception handled", lambda repo: mutate(mutate(repo, W, P13 + "._handle_message", _drop_handler("zlib.error")), W, P13 + "._receive_frame_loop", _drop_handler("Exception")), "C15.exc-abort"),
    ("zlib.error handler only logs (no abort)", _in(P13 + "._handle_message", lambda root: bool([setattr(h, "body", [parse_stmt("return None")]) for n in ast.walk(root) if isinstance(n, ast.Try) for h in n.handlers if h.type is not None and "zlib.error" in _src(h.type)])), "C15.exc-abort"),
    ("undo the F11 repair: RSV1 on control frames accepted when deflate is negotiated", _in(P13 + "._receive_frame", replace_expr(lambda n: isinstance(n, ast.BoolOp) and "opcode != 0" in _src(n) and "_decompressor" in _src(n), lambda n: parse_expr("self._decompressor is not None and opcode != 0"))), "C15.abort-table"),
    ("reserved-bits abort removed", _in(P13 + "._receive_frame", _drop_abort_block(lambda t: t == "reserved_bits")), "C15.abort-table"),
    ("RSV1 not part of the reserved mask", lambda repo: mutate(repo, W, P13, replace_stmt(lambda st: isinstance(st, ast.Assign) and _src(st).startswith("RSV_MASK ="), lambda st: [parse_stmt("RSV_MASK = RSV2 | RSV3")])), "C15.abort-table"),
    ("control frame with length code 126 accepted (>= 126 -> > 126)", _in(P13 + "._receive_frame", replace_expr(lambda n: isinstance(n, ast.Compare) and _src(n) == "payloadlen >= 126", lambda n: parse_expr("payloadlen > 126"))), "C15.abort-table"),
    # (the former mutant "fragmented control frame: return after abort dropped" is behaviour-preserving: the only statement that follows
    #  is `if is_final_frame:` which is false on that path - the path-sensitive abort-stops rule rightly stays silent)
    ("continuation without start not aborted", _in(P13 + "._receive_frame", _drop_abort_block(lambda t: t == "self._fragmented_message_buffer is None")), "C15.abort-table"),
    ("new data frame inside a fragmented message not aborted", _in(P13 + "._receive_frame", _drop_abort_block(lambda t: t == "self._fragmented_message_buffer is not None" )), "C15.abort-table"),
    ("unknown opcode ignored instead of aborting", _in(P13 + "._handle_message", replace_stmt(lambda st: isinstance(st, ast.Expr) and _src(st) == "self._abort()" , lambda st: [ast.Pass()], limit=99)), None),
    ("size limit compares only this frame (fragments not accumulated)", _in(P13 + "._receive_frame", remove_stmts(lambda st: isinstance(st, ast.If) and "new_len +=" in _src(st))), "C15.size-limit"),
    ("size limit uses >= (limit-sized message rejected)", _in(P13 + "._receive_frame", replace_expr(lambda n: isinstance(n, ast.Compare) and "max_message_size" in _src(n), lambda n: ast.Compare(left=n.left, ops=[ast.GtE()], comparators=n.comparators))), "C15.size-limit"),
    ("size check moved after the payload read", _in(P13 + "._receive_frame", _move_limit_after_read), "C15.size-limit"),
    ("too-big abort keeps reading (return dropped)", _in(P13 + "._receive_frame", _drop_return_after_abort(lambda t: "max_message_size" in t)), ("C15.size-limit", "C15.abort-stops")),
    ("inflater not bounded by max_message_size", _in("_PerMessageDeflateDecompressor.decompress", replace_expr(lambda n: isinstance(n, ast.Call) and isinstance(n.func, ast.Attribute) and n.func.attr == "decompress", lambda n: ast.Call(func=n.func, args=n.args[:1], keywords=[]))), "C15.size-limit"),
    ("truncated inflate result returned (unconsumed_tail ignored)", _in("_PerMessageDeflateDecompressor.decompress", remove_stmts(lambda st: isinstance(st, ast.If) and "unconsumed_tail" in _src(st.test))), "C15.size-limit"),
    ("decompress-too-large handler does not abort", _in(P13 + "._handle_message", replace_stmt(lambda st: isinstance(st, ast.Try) and "_DecompressTooLargeError" in _src(st), lambda st: [ast.Try(body=st.body, handlers=[ast.ExceptHandler(type=st.handlers[0].type, name=None, body=[parse_stmt("return None")])], orelse=[], finalbody=[])])), "C15.size-limit"),
    ("invalid UTF-8 replaced instead of rejected", _in(P13 + "._handle_message", replace_expr(lambda n: isinstance(n, ast.Call) and isinstance(n.func, ast.Attribute) and n.func.attr == "decode", lambda n: ast.Call(func=n.func, args=n.args + [ast.Constant(value="ignore")], keywords=[]))), "C15.utf8"),
    ("UTF-8 handler narrowed to the wrong class", _in(P13 + "._handle_message", replace_expr(lambda n: isinstance(n, ast.Name) and n.id == "UnicodeDecodeError", lambda n: ast.Name(id="UnicodeEncodeError", ctx=ast.Load()))), "C15.utf8"),
    ("_abort forgets client_terminated", _in("WebSocketProtocol._abort", remove_stmts(lambda st: _src(st) == "self.client_terminated = True")), "C15.abort-stops"),
    ("_abort does not close the stream", _in("WebSocketProtocol._abort", remove_stmts(lambda st: isinstance(st, ast.If) and "self.stream" in _src(st.test))), "C15.abort-stops"),
    ("dispatcher ignores client_terminated", _in(P13 + "._handle_message", remove_stmts(lambda st: isinstance(st, ast.If) and _src(st.test) == "self.client_terminated")), "C15.abort-stops"),
    ("receive loop ignores client_terminated", _in(P13 + "._receive_frame_loop", replace_expr(lambda n: isinstance(n, ast.UnaryOp) and "client_terminated" in _src(n), lambda n: ast.Constant(value=True))), "C15.abort-stops"),
    ("callback errors only logged", _in("WebSocketProtocol._run_callback", remove_stmts(lambda st: _src(st) == "self._abort()")), "C15.abort-stops"),
]


def _ctl_check_after_decode(root):
    body = root.body
    a = [i for i, st in enumerate(body) if isinstance(st, ast.If) and _src(st.test) == "opcode_is_control and payloadlen >= 126"]
    d = [i for i, st in enumerate(body) if isinstance(st, ast.If) and _src(st.test) == "payloadlen < 126"]
    if not a or not d or a[0] > d[0]:
        return False
    st = body.pop(a[0])
    st.test = parse_expr("opcode_is_control and payloadlen > 126")
    body.insert(d[0], st)
    return True
