"""C46 — locale helpers: relative dates and grouped numbers.

Decided statically (DESIGN.md §4 C46; the timedelta typing is resolved syntactically — ``.seconds`` is an attribute
only ``datetime.timedelta`` has among the values handled here — no type checker is run):

* ``.seconds`` of a timedelta (the within-day remainder) is used as a duration only where the ``.days`` of the *same*
  timedelta is known to be 0 (guard dominance), or inside an expression that also combines ``.days``;
* a date in the future is either clamped to now under such a guard or forces the full format, and every relative
  phrase is returned only under ``not full_format``;
* the number in each relative phrase is, for every second count admitted by the dominating guards (exhaustive folding
  over 0..86399, locals expanded through their unique definitions), within 0.5 of elapsed/unit for the phrase's own
  unit (second/minute/hour) - i.e. a nearest integer; double rounding and truncation are reported;
* ``friendly_number`` chunks a sign-free digit string in threes from the right, joins with "," in the right order and
  keeps a literal minus sign for negatives.

Not decided: sub-second parts of the elapsed time (timedelta.seconds already truncates microseconds); absolute date
formats; translations.
"""
from __future__ import annotations

import ast
import copy

from .. import q
from ..cfg import explore, must_facts, canon_fact, holds
from ..mutate import mutate, remove_stmts, replace_stmt, replace_expr, parse_stmt, parse_expr
from ..model import AnalysisError
from ..x_scope import own_nodes, strip_annotations
from ..x_flow import expanded_facts, resolve_local, unique_def, concrete_paths, expand_locals

TECHNIQUE = "syntactic timedelta lint with guard dominance on the CFG + exhaustive constant folding of the phrase arithmetic + idiom check of the digit-grouping loop"
EXPLANATION = (
    "Every `.seconds` attribute in Locale.format_date is located; aliases (`seconds = difference.seconds`, `days = difference.days`) are resolved per "
    "timedelta expression; each use must be dominated by `<days> == 0` of the same timedelta (must-facts) or combine `.days`. The future branch is explored "
    "path-sensitively (clamp or full format). Each `N unit ago` return is matched to its unit by its message text and its number expression is folded for "
    "all second counts consistent with the dominating comparisons. friendly_number's chunk loop is recognised structurally and the reaching definitions of "
    "the chunked string must be sign-free (abs(), strip of '-', or a dominating non-negativity guard)."
)
NOT_DECIDED = "the microsecond part of the elapsed time (the fold is over whole seconds); absolute formats, month/weekday tables, translations, gmt_offset arithmetic"

F = "tornado/locale.py"


# ---------------------------------------------------------------------------
# format_date


def _assign_of(fi, name):
    """The unique simple assignment `name = <expr>` in fi (None if absent, error if ambiguous)."""
    found = [n for n in own_nodes(fi.node) if isinstance(n, ast.Assign) and len(n.targets) == 1 and isinstance(n.targets[0], ast.Name) and n.targets[0].id == name]
    if len(found) > 1:
        raise AnalysisError("local %s of %s is assigned %d times: ambiguous for the timedelta lint" % (name, fi.qualname, len(found)))
    return found[0] if found else None


def rule_seconds(ck, fi):
    cfg = fi.cfg
    facts = must_facts(cfg)
    pm = q.parent_map(fi.node)
    secs = [n for n in own_nodes(fi.node) if isinstance(n, ast.Attribute) and n.attr == "seconds" and isinstance(n.ctx, ast.Load)]
    ck.floor("C46.seconds-with-days", len(secs), 1, "`.seconds` reads in format_date")
    # days aliases per base text
    days_alias = {}
    for n in own_nodes(fi.node):
        if isinstance(n, ast.Assign) and len(n.targets) == 1 and isinstance(n.targets[0], ast.Name) and isinstance(n.value, ast.Attribute) and n.value.attr == "days":
            days_alias.setdefault(q.unparse(n.value.value), set()).add(n.targets[0].id)

    def guard_ok(node_id, base_txt, expr):
        f = facts[node_id]
        cands = ["%s.days" % base_txt if " " not in base_txt else "(%s).days" % base_txt] + sorted(days_alias.get(base_txt, ()))
        for d in cands:
            if holds(f, "%s == 0" % d, True) or holds(f, d, False) or holds(f, "0 == %s" % d, True):
                return True
        # the enclosing expression combines the days of the same timedelta
        for x in ast.walk(expr):
            if isinstance(x, ast.Attribute) and x.attr == "days" and q.unparse(x.value) == base_txt:
                return True
            if isinstance(x, ast.Name) and x.id in days_alias.get(base_txt, ()):
                return True
        return False

    nuse = 0
    for a in secs:
        base_txt = q.unparse(a.value)
        par = pm.get(a)
        if isinstance(par, ast.Assign) and par.value is a and len(par.targets) == 1 and isinstance(par.targets[0], ast.Name):
            alias = par.targets[0].id
            if _assign_of(fi, alias) is not par:
                raise AnalysisError("seconds alias %s is re-assigned" % alias)
            # every use of the alias is governed
            for node, x in cfg.find(lambda x: isinstance(x, ast.Name) and x.id == alias and isinstance(x.ctx, ast.Load)):
                nuse += 1
                top = node.ast if node.kind in ("stmt", "test") else x
                ck.ob("C46.seconds-with-days", fi, top, guard_ok(node.id, base_txt, top),
                      "`%s` holds only the within-day remainder of (%s); it is used as a duration only where that timedelta's days are known to be 0" % (alias, base_txt))
        else:
            nodes = cfg.nodes_for(a)
            if not nodes:
                continue
            for node in nodes:
                nuse += 1
                top = node.ast if node.kind in ("stmt", "test") else a
                ck.ob("C46.seconds-with-days", fi, top, guard_ok(node.id, base_txt, top),
                      "(%s).seconds is only the within-day remainder; it is used as a duration only where the same timedelta's days are known to be 0 (or via total_seconds())" % base_txt)
    ck.floor("C46.seconds-with-days", nuse, 1, "uses of timedelta seconds")


def _phrase_returns(fi):
    """(cfg node, unit, number-expr) for `return _("1 unit ago", "...", N) % {...}`."""
    out = []
    pm = q.parent_map(fi.node)

    def prev_binding(ret, name):
        """value bound to ``name`` by the statement directly before ``ret`` in the same block (a per-branch temporary)"""
        par = pm.get(ret)
        for fld in ("body", "orelse", "finalbody"):
            blk = getattr(par, fld, None)
            if isinstance(blk, list) and ret in blk:
                i = blk.index(ret)
                if i > 0 and isinstance(blk[i - 1], ast.Assign) and len(blk[i - 1].targets) == 1 and isinstance(blk[i - 1].targets[0], ast.Name) and blk[i - 1].targets[0].id == name:
                    return blk[i - 1].value
        return None

    for node in fi.cfg.stmt_nodes(lambda n: n.kind == "stmt" and isinstance(n.ast, ast.Return) and n.ast.value is not None):
        v = node.ast.value
        call = v.left if isinstance(v, ast.BinOp) and isinstance(v.op, ast.Mod) else v
        if isinstance(call, ast.Name):
            call = prev_binding(node.ast, call.id) or unique_def(fi, call.id) or call
        if isinstance(call, ast.Call) and len(call.args) == 3 and isinstance(call.args[0], ast.Constant) and isinstance(call.args[0].value, str):
            words = call.args[0].value.split()
            if len(words) == 3 and words[0] == "1" and words[2] == "ago":
                out.append((node, words[1], call.args[2], v))
    return out


UNITS = {"second": 1, "minute": 60, "hour": 3600}


_BIN = {
    ast.Add: lambda a, b: a + b, ast.Sub: lambda a, b: a - b, ast.Mult: lambda a, b: a * b, ast.Div: lambda a, b: a / b,
    ast.FloorDiv: lambda a, b: a // b, ast.Mod: lambda a, b: a % b,
}
_CMP = {
    ast.Lt: lambda a, b: a < b, ast.LtE: lambda a, b: a <= b, ast.Gt: lambda a, b: a > b, ast.GtE: lambda a, b: a >= b,
    ast.Eq: lambda a, b: a == b, ast.NotEq: lambda a, b: a != b,
}


def _closure(e, var):
    """Pre-resolved evaluator (same semantics as q.fold, plus round()/int()) of an arithmetic/comparison expression over one
    integer variable; built once, applied to every value of the finite domain.  Raises NotFoldable for anything else."""
    if isinstance(e, ast.Constant) and isinstance(e.value, (int, float)) and not isinstance(e.value, bool):
        c = e.value
        return lambda s: c
    if isinstance(e, ast.Name) and e.id == var:
        return lambda s: s
    if isinstance(e, ast.BinOp) and type(e.op) in _BIN:
        f, l, r = _BIN[type(e.op)], _closure(e.left, var), _closure(e.right, var)
        return lambda s: f(l(s), r(s))
    if isinstance(e, ast.UnaryOp) and isinstance(e.op, ast.USub):
        o = _closure(e.operand, var)
        return lambda s: -o(s)
    if isinstance(e, ast.Call) and isinstance(e.func, ast.Name) and e.func.id in ("round", "int") and len(e.args) == 1 and not e.keywords:
        o = _closure(e.args[0], var)
        return (lambda s: round(o(s))) if e.func.id == "round" else (lambda s: int(o(s)))
    if isinstance(e, ast.Call) and isinstance(e.func, ast.Name) and e.func.id in ("max", "min") and len(e.args) >= 2 and not e.keywords:
        fs = [_closure(a, var) for a in e.args]
        pick = max if e.func.id == "max" else min
        return lambda s: pick(f(s) for f in fs)
    if isinstance(e, ast.Call) and isinstance(e.func, ast.Name) and e.func.id in ("abs", "float") and len(e.args) == 1 and not e.keywords:
        o = _closure(e.args[0], var)
        return (lambda s: abs(o(s))) if e.func.id == "abs" else (lambda s: float(o(s)))
    if isinstance(e, ast.Compare) and len(e.ops) == 1 and type(e.ops[0]) in _CMP:
        f, l, r = _CMP[type(e.ops[0])], _closure(e.left, var), _closure(e.comparators[0], var)
        return lambda s: f(l(s), r(s))
    raise q.NotFoldable(q.unparse(e))


def rule_phrases(ck, fd):
    """The relative phrases live in format_date itself or in a private helper of the class that is handed the seconds count."""
    sec_alias = [n.targets[0].id for n in own_nodes(fd.node) if isinstance(n, ast.Assign) and len(n.targets) == 1 and isinstance(n.targets[0], ast.Name) and isinstance(n.value, ast.Attribute) and n.value.attr == "seconds"]
    if len(sec_alias) != 1:
        raise AnalysisError("format_date: expected one `<name> = <timedelta>.seconds` alias, found %d" % len(sec_alias))
    S = sec_alias[0]
    fd_facts = must_facts(fd.cfg)
    total = 0
    if _phrase_returns(fd):
        total += _phrases_in(ck, fd, fd, S, None, fd_facts)
    for node, c in fd.cfg.find(lambda x: isinstance(x, ast.Call) and isinstance(x.func, ast.Attribute) and q.dotted(x.func.value) == "self" and any(q.dotted(a) == S for a in x.args)):
        qn = "Locale." + c.func.attr
        if ck.repo.has_func(F, qn):
            h = ck.repo.func(F, qn)
            if _phrase_returns(h) and not c.keywords:
                hp = [p for p in h.params() if p != "self"]
                if len(hp) != len(c.args):
                    raise AnalysisError("call of %s does not bind its parameters positionally" % qn)
                hs = hp[[q.dotted(a) for a in c.args].index(S)]
                total += _phrases_in(ck, fd, ck.use(h), hs, node, fd_facts)
    ck.floor("C46.phrase-unit", total, 3, "relative phrase returns")


def _phrases_in(ck, fd, fi, S, call_node, fd_facts):
    cfg = fi.cfg
    facts = must_facts(cfg)
    phr = _phrase_returns(fi)
    for node, unit, num, whole in phr:
        guard_facts = fd_facts[call_node.id] if call_node is not None else facts[node.id]
        ck.ob("C46.relative-guard", fd, node.ast if call_node is None else call_node.ast, holds(guard_facts, "full_format", False), "a relative phrase is produced only when the full format was not forced (future dates force it)",
              construct="not-full_format " + unit)
        if unit not in UNITS:
            raise AnalysisError("relative phrase with unknown unit %r" % unit)
        # expand the number expression through the unique reaching definitions of its locals until only S is left
        days_names = {n_.targets[0].id for n_ in own_nodes(fi.node) if isinstance(n_, ast.Assign) and len(n_.targets) == 1 and isinstance(n_.targets[0], ast.Name)
                      and isinstance(n_.value, ast.Attribute) and n_.value.attr == "days"}
        zero_days = {d for d in days_names if holds(facts[node.id], "%s == 0" % d, True) or holds(facts[node.id], d, False)}

        def expand(x, depth=0):
            if depth > 8:
                raise AnalysisError("number of the %s phrase: definition chain too deep" % unit)

            class T(ast.NodeTransformer):
                def visit_Name(self, nm):
                    if nm.id == S or nm.id in ("round", "int", "float", "max", "min", "abs", "divmod"):
                        return nm
                    if nm.id in zero_days:
                        return ast.Constant(value=0)
                    a = _assign_of(fi, nm.id)
                    if a is None:
                        raise AnalysisError("number of the %s phrase depends on %s, which is not a local with a unique definition" % (unit, nm.id))
                    return expand(copy.deepcopy(a.value), depth + 1)

            return T().visit(x)

        try:
            e = expand(copy.deepcopy(num))
        except AnalysisError:
            # established absence: the number is taken from some *other* timedelta's seconds, not from the guarded elapsed count
            probe = num
            hops_ = 0
            while isinstance(probe, ast.Name) and probe.id != S and hops_ < 4 and _assign_of(fi, probe.id) is not None:
                probe = _assign_of(fi, probe.id).value
                hops_ += 1
            foreign = [x for x in ast.walk(probe) if isinstance(x, ast.Attribute) and x.attr in ("seconds", "microseconds", "days")]
            if foreign:
                ck.ob("C46.phrase-unit", fi, whole, False, "the number in the '%s' phrase is computed from the guarded elapsed seconds (it reads %s instead)" % (unit, q.unparse(foreign[0])),
                      construct="unit %s number %s" % (unit, q.unparse(probe)))
                continue
            raise
        extra = q.names_in(e) - {S, "round", "int", "float", "max", "min", "abs"}
        if extra:
            raise AnalysisError("number expression %s of the %s phrase mentions %s besides the seconds count" % (q.unparse(e), unit, sorted(extra)))
        # admissible seconds: all dominating comparisons that mention only S
        conds = []
        for t, pol in facts[node.id]:
            if t.startswith("@"):
                continue
            try:
                te = ast.parse(t, mode="eval").body
            except SyntaxError:
                continue
            if q.names_in(te) == {S}:
                conds.append((te, pol))
        worst = None
        n_adm = 0
        try:
            cfs = [(_closure(te, S), pol) for te, pol in conds]
            num_f = _closure(e, S)
            u = UNITS[unit]
            for s in range(0, 86400):
                if all(bool(f(s)) == pol for f, pol in cfs):
                    n_adm += 1
                    val = num_f(s)
                    err = abs(val - s / u)
                    if worst is None or err > worst[0]:
                        worst = (err, s, val)
        except q.NotFoldable as ex:
            raise AnalysisError("cannot fold the %s phrase arithmetic: %s" % (unit, ex))
        if n_adm == 0:
            ck.ob("C46.phrase-unit", fi, whole, True, "the '%s' phrase is unreachable under its dominating guards (no admissible second count): nothing to show" % unit, construct="unit %s unreachable" % unit)
            continue
        ck.ob("C46.phrase-unit", fi, whole, worst is not None and worst[0] <= 0.5 + 1e-9,
              "the number in the '%s' phrase is elapsed seconds / %d rounded to a nearest integer (|n - s/%d| <= 0.5) for all %d admissible second counts (worst: %s)" % (
                  unit, UNITS[unit], UNITS[unit], n_adm, "s=%d -> %s, off by %.3f" % (worst[1], worst[2], worst[0]) if worst else "-"),
              construct="unit %s number %s" % (unit, q.unparse(e)))
        # the value substituted into the message is the same number
        if isinstance(whole, ast.BinOp) and isinstance(whole.right, ast.Dict):
            vals = [q.unparse(x) for x in whole.right.values]
            ck.ob("C46.phrase-unit", fi, whole, vals == [q.unparse(num)], "the number shown is the number used to pick singular/plural", construct="shown-number " + unit)
    return len(phr)


def rule_future(ck, fi):
    cfg = fi.cfg
    # the test `date > now` (now: assigned from datetime.now(...))
    nows = [n.targets[0].id for n in own_nodes(fi.node) if isinstance(n, ast.Assign) and len(n.targets) == 1 and isinstance(n.targets[0], ast.Name) and isinstance(n.value, ast.Call) and q.call_attr(n.value) in ("now", "utcnow")]
    if len(nows) != 1:
        raise AnalysisError("format_date: expected one `now = datetime.now(...)`")
    now = nows[0]
    date = [p for p in fi.params() if p != "self"][0]
    fut_txts = {"%s > %s" % (date, now): True, "%s < %s" % (now, date): True, "%s <= %s" % (date, now): False, "%s >= %s" % (now, date): False,
                "%s < %s" % (date, now): False, "%s > %s" % (now, date): False, "%s >= %s" % (date, now): True, "%s <= %s" % (now, date): True}
    ftxt = lambda n: q.unparse(expand_locals(fi, n.ast, keep={date, now}))
    tests = [n for n in cfg.stmt_nodes(lambda n: n.kind == "test" and ftxt(n) in fut_txts)]
    ck.floor("C46.future-full-format", len(tests), 1, "future tests (`date > now`)")
    is_full = lambda n: n.kind == "stmt" and isinstance(n.ast, ast.Assign) and "full_format" in q.assigned_paths(n.ast) and q.is_const(n.ast.value, True)
    is_clamp = lambda n: n.kind == "stmt" and isinstance(n.ast, ast.Assign) and date in q.assigned_paths(n.ast) and q.dotted(n.ast.value) == now
    # the elapsed time: the timedelta whose .seconds / .days feed the phrases.  Both operands must be in the same time base:
    # (now, date) or both shifted by the same offset (local_now, local_date).
    def base_of(x, depth=0):
        """('now'|'date', shift text) for a name that is now/date or one of them minus a timedelta; None if unknown"""
        d_ = q.dotted(x)
        if d_ == now:
            return ("now", "")
        if d_ == date:
            return ("date", "")
        if isinstance(x, ast.Name) and depth < 3:
            df = unique_def(fi, x.id)
            if isinstance(df, ast.BinOp) and isinstance(df.op, (ast.Sub, ast.Add)):
                b = base_of(df.left, depth + 1)
                if b is not None and isinstance(df.right, ast.Call) and q.call_attr(df.right) == "timedelta":
                    return (b[0], b[1] + ("-" if isinstance(df.op, ast.Sub) else "+") + q.unparse(df.right))
        return None

    sec_bases = {q.unparse(n_.value.value) for n_ in own_nodes(fi.node) if isinstance(n_, ast.Assign) and isinstance(n_.value, ast.Attribute) and n_.value.attr in ("seconds", "days")}
    diffs = []
    for n in cfg.stmt_nodes(lambda n: n.kind == "stmt" and isinstance(n.ast, ast.Assign) and isinstance(n.ast.value, ast.BinOp) and isinstance(n.ast.value.op, ast.Sub)
                            and len(n.ast.targets) == 1 and isinstance(n.ast.targets[0], ast.Name) and n.ast.targets[0].id in sec_bases):
        diffs.append(n)
    if len(diffs) != 1:
        raise AnalysisError("format_date: expected one elapsed-time difference feeding .seconds/.days, found %d" % len(diffs))
    lb, rb = base_of(diffs[0].ast.value.left), base_of(diffs[0].ast.value.right)
    if lb is None or rb is None:
        raise AnalysisError("format_date: operands of the elapsed-time difference %s are not traceable to now / date" % q.unparse(diffs[0].ast.value))
    ck.ob("C46.same-time-scale", fi, diffs[0].ast, lb[0] == "now" and rb[0] == "date" and lb[1] == rb[1],
          "the elapsed time is now - date with both operands in the same time base (left: %s%s, right: %s%s); a one-sided gmt_offset shift moves every relative phrase" % (lb[0], lb[1] or "", rb[0], rb[1] or ""),
          construct="elapsed %s%s - %s%s" % (lb[0], " shifted" if lb[1] else "", rb[0], " shifted" if rb[1] else ""))

    def tr(n, v):
        if v == "future" and (is_full(n) or is_clamp(n)):
            return "handled"
        return v

    def edge(n, kind, v):
        if n.kind == "test" and kind in ("true", "false") and ftxt(n) in fut_txts:
            return "future" if fut_txts[ftxt(n)] == (kind == "true") else "past"
        return v

    seen = explore(cfg, "unknown", tr, lambda t: False, edge_transfer=edge, follow_exc=False)
    states = sorted({v for _f, v in seen.get(diffs[0].id, ())})
    for v in states:
        ck.ob("C46.future-full-format", fi, diffs[0].ast, v in ("past", "handled"),
              "before the elapsed time is computed, a future date was either clamped to now (small clock skew) or forced to the full format (state: %s)" % v, construct="elapsed-computed state=%s" % v)
    ck.floor("C46.future-full-format", len(states), 2, "states at the elapsed-time computation")
    # the clamp is taken only for at most a minute of clock skew
    facts = must_facts(cfg)
    D = "%s - %s" % (date, now)
    clamps = cfg.stmt_nodes(is_clamp)
    for c in clamps:
        bound = None      # seconds, when a recognised fact bounds the future offset
        days0 = False
        secs_lt = None
        exp_facts = set()
        for t, pol in expanded_facts(fi, facts[c.id]):
            if t.startswith("@"):
                continue
            try:
                exp_facts.add((q.unparse(expand_locals(fi, ast.parse(t, mode="eval").body, keep={date, now})), pol))
            except SyntaxError:
                continue
        for t, pol in sorted(exp_facts):
            if D not in t or t.startswith("@"):
                continue
            if isinstance(ast.parse(t, mode="eval").body, ast.BoolOp):
                continue  # its conjuncts / disjuncts were expanded separately
            te = ast.parse(t, mode="eval").body
            if not (isinstance(te, ast.Compare) and len(te.ops) == 1):
                raise AnalysisError("format_date: unrecognised guard on the future offset: %s" % t)
            left, op, right = te.left, te.ops[0], te.comparators[0]
            lt = q.unparse(left)
            try:
                if lt in ("(%s).total_seconds()" % D,) and isinstance(op, (ast.Lt, ast.LtE)) and pol:
                    bound = float(q.fold(right, {}))
                elif lt in ("(%s).total_seconds()" % D,) and isinstance(op, (ast.Gt, ast.GtE)) and not pol:
                    bound = float(q.fold(right, {}))
                elif lt == D and isinstance(op, (ast.Lt, ast.LtE)) and pol and isinstance(right, ast.Call) and q.call_attr(right) == "timedelta" and not right.args:
                    mult = {"seconds": 1, "minutes": 60, "hours": 3600, "days": 86400, "milliseconds": 0.001, "microseconds": 1e-6, "weeks": 604800}
                    bound = sum(mult[k.arg] * float(q.fold(k.value, {})) for k in right.keywords)
                elif lt == "(%s).days" % D and isinstance(op, ast.Eq) and q.is_const(right, 0) and pol:
                    days0 = True
                elif lt == "(%s).seconds" % D and isinstance(op, (ast.Lt, ast.LtE)) and pol:
                    secs_lt = float(q.fold(right, {}))
                elif lt == D and isinstance(op, (ast.Gt, ast.GtE, ast.Lt, ast.LtE)) and q.dotted(right) is None and not isinstance(right, ast.Call):
                    raise AnalysisError("format_date: unrecognised guard on the future offset: %s" % t)
                else:
                    raise AnalysisError("format_date: unrecognised guard on the future offset: %s" % t)
            except (q.NotFoldable, KeyError) as e:
                raise AnalysisError("format_date: cannot evaluate the bound in %s (%s)" % (t, e))
        if bound is None and days0 and secs_lt is not None:
            bound = secs_lt
        ck.ob("C46.future-full-format", fi, c.ast, bound is not None and bound <= 60,
              "a future date is treated as 'now' only when it is at most a minute ahead (recognised bound on %s: %s s)" % (D, bound), construct="clamp bound=%s" % bound)
    ck.floor("C46.future-full-format", len(clamps), 0, "clamp sites")


# ---------------------------------------------------------------------------
# friendly_number


def _is_slice(e, name, lower, upper):
    """e is `name[lower:upper]` with constant (possibly negative) bounds; returns the int or None marker."""
    if not (isinstance(e, ast.Subscript) and q.dotted(e.value) == name and isinstance(e.slice, ast.Slice) and e.slice.step is None):
        return None

    def const(x):
        if x is None:
            return None
        try:
            return q.fold(x, {})
        except q.NotFoldable:
            return "?"

    lo, up = const(e.slice.lower), const(e.slice.upper)
    return (lo, up)


SAMPLE_NUMBERS = [0, 5, 12, 100, 999, 1000, 1001, 9999, 10000, 12345, 100000, 123456, 999999, 1000000, 1234567, 12345678, 123456789, 1234567890, 10 ** 12 + 1]


def _evaluate_grouping(ck, fi):
    """Idiom-independent decision: fold friendly_number (English locale) for a fixed set of integers of every digit count
    1..13, both signs, with the mini evaluator (helpers of the class/module are inlined) and compare with the grouped form.
    Returns False if the function is outside the evaluator's subset (the structural rules then take over)."""
    from ..x_mini import Mini

    def resolve_call(call):
        f = call.func
        if isinstance(f, ast.Attribute) and q.dotted(f.value) in ("self", "cls", "Locale") and ck.repo.has_func(F, "Locale." + f.attr):
            return ck.repo.func(F, "Locale." + f.attr).node
        if isinstance(f, ast.Name) and ck.repo.has_func(F, f.id):
            return ck.repo.func(F, f.id).node
        return None

    results = {}
    try:
        for v in SAMPLE_NUMBERS + [-x for x in SAMPLE_NUMBERS if x]:
            results[v] = Mini(resolve_call=resolve_call, attrs={"self.code": "en_US"}).call_function(fi.node, [v])
    except AnalysisError as e:
        ck.note("friendly_number is outside the mini evaluator's subset (%s): structural grouping rules applied instead" % e)
        return False
    for v in sorted(results, key=lambda x: (abs(x), x < 0)):
        got, want = results[v], format(v, ",")
        if got == want:
            ck.ob("C46.grouping", fi, fi.node, True, "friendly_number(%d) folds to %r" % (v, got), construct="value %d" % v)
            continue
        sign_only = v < 0 and results.get(-v) == format(-v, ",")
        rule = "C46.sign-free-grouping" if sign_only else "C46.grouping"
        ck.ob(rule, fi, fi.node, False, "friendly_number(%d) must read back as that integer with three-digit groups: expected %r, the code yields %r" % (v, want, got), construct="value %d -> %r" % (v, got))
    return True


def rule_grouping(ck, fi):
    prm = [p for p in fi.params() if p != "self"]
    if len(prm) != 1:
        raise AnalysisError("friendly_number does not take exactly the value")
    P = prm[0]
    if _evaluate_grouping(ck, fi):
        return
    def _shrinks(w):
        for st in w.body:
            if isinstance(st, ast.Assign) and len(st.targets) == 1 and isinstance(st.targets[0], ast.Name) and _is_slice(st.value, st.targets[0].id, None, None) is not None:
                return st.targets[0].id
        return None

    loops = [n for n in own_nodes(fi.node) if isinstance(n, ast.While) and _shrinks(n) is not None]
    rule_fast_path(ck, fi, P)
    comp_model = None
    if not loops:
        comp_model = _comprehension_chunks(ck, fi)
    if comp_model is not None:
        X, parts, order, lp = comp_model
        prepend = order == "msf"
        _check_join_and_sign(ck, fi, P, X, parts, prepend, lp)
        return
    if not loops:
        # format-spec grouping: f"{value:,}" / format(value, ",") / "{:,}".format(value)
        ok = False
        for r in own_nodes(fi.node):
            if isinstance(r, ast.FormattedValue) and r.format_spec is not None and "," in "".join(q.literal_strs(r.format_spec)) and q.dotted(r.value) == P:
                ok = True
            if isinstance(r, ast.Call) and q.dotted(r.func) == "format" and len(r.args) == 2 and q.dotted(r.args[0]) == P and q.is_const(r.args[1], ","):
                ok = True
            if isinstance(r, ast.Call) and isinstance(r.func, ast.Attribute) and r.func.attr == "format" and isinstance(r.func.value, ast.Constant) and r.func.value.value in ("{:,}", "{0:,}", "{:,d}", "{0:,d}") and r.args and q.dotted(r.args[0]) == P:
                ok = True
        if not ok:
            raise AnalysisError("friendly_number: neither a chunking loop nor a ',' format spec found (unknown idiom)")
        ck.ob("C46.sign-free-grouping", fi, fi.node, True, "grouping is delegated to the ',' format specification (sign-aware)", construct="format-spec")
        ck.ob("C46.grouping", fi, fi.node, True, "grouping is delegated to the ',' format specification", construct="format-spec")
        return
    if len(loops) != 1:
        raise AnalysisError("friendly_number: expected one chunking loop")
    lp = loops[0]
    X = _shrinks(lp)
    try:
        runs_ok = bool(q.fold(lp.test, {X: "1"})) and bool(q.fold(lp.test, {X: "1234"})) and not bool(q.fold(lp.test, {X: ""}))
    except q.NotFoldable as e:
        raise AnalysisError("friendly_number: loop condition %s not foldable over the digit string (%s)" % (q.unparse(lp.test), e))
    ck.ob("C46.grouping", fi, lp.test, runs_ok, "the chunking loop runs until the digit string is used up")
    # loop body: parts.append(X[-k:]) ; X = X[:-k]
    take = shrink = None
    parts = None
    prepend = False
    for st in lp.body:
        if isinstance(st, ast.Expr) and isinstance(st.value, ast.Call) and isinstance(st.value.func, ast.Attribute) and st.value.func.attr in ("append", "insert"):
            c = st.value
            arg = c.args[-1] if c.args else None
            sl = _is_slice(arg, X, None, None) if arg is not None else None
            if sl is not None:
                take = sl
                parts = q.dotted(c.func.value)
                prepend = c.func.attr == "insert" and len(c.args) == 2 and q.is_const(c.args[0], 0)
                if c.func.attr == "insert" and not prepend:
                    raise AnalysisError("friendly_number: parts.insert at a non-zero index (unknown idiom)")
        elif isinstance(st, ast.Assign) and len(st.targets) == 1 and q.dotted(st.targets[0]) == X:
            sl = _is_slice(st.value, X, None, None)
            if sl is not None:
                shrink = sl
    if take is None or shrink is None or parts is None:
        raise AnalysisError("friendly_number: chunking loop is not `parts.append(s[-k:]); s = s[:-k]` (unknown idiom)")
    ck.ob("C46.grouping", fi, lp, take == (-3, None) and shrink == (None, -3), "each step takes the last three characters and removes exactly those three (take=%s, remove=%s)" % (take, shrink), construct="chunk take=%s remove=%s" % (take, shrink))
    _check_join_and_sign(ck, fi, P, X, parts, prepend, lp)


def _comprehension_chunks(ck, fi):
    """`parts = [X[lo:hi] for v in range(...)]`: the (lo, hi) pairs are folded for digit strings of length 1..10 and must cut
    the string into groups of three counted from the right.  Returns (X, parts, 'lsf'|'msf', comprehension) or None."""
    for n in own_nodes(fi.node):
        if isinstance(n, ast.Assign) and len(n.targets) == 1 and isinstance(n.targets[0], ast.Name) and isinstance(n.value, ast.ListComp) and len(n.value.generators) == 1:
            lc = n.value
            g = lc.generators[0]
            if not (isinstance(lc.elt, ast.Subscript) and isinstance(lc.elt.slice, ast.Slice) and lc.elt.slice.step is None and isinstance(lc.elt.value, ast.Name) and isinstance(g.target, ast.Name) and not g.ifs):
                continue
            X, v = lc.elt.value.id, g.target.id
            orders = set()
            try:
                for L in range(1, 11):
                    env = {X: "1" * L}
                    pairs = []
                    for val in q.fold(g.iter, env):
                        e2 = dict(env)
                        e2[v] = val
                        lo = q.fold(lc.elt.slice.lower, e2) if lc.elt.slice.lower is not None else 0
                        hi = q.fold(lc.elt.slice.upper, e2) if lc.elt.slice.upper is not None else L
                        lo = lo + L if lo < 0 else lo
                        hi = hi + L if hi < 0 else hi
                        pairs.append((max(lo, 0), min(hi, L)))
                    lsf = [(max(L - 3 * (k + 1), 0), L - 3 * k) for k in range((L + 2) // 3)]
                    if pairs == lsf and pairs == lsf[::-1]:
                        continue
                    orders.add("lsf" if pairs == lsf else ("msf" if pairs == lsf[::-1] else "bad L=%d %s" % (L, pairs)))
            except (q.NotFoldable, TypeError) as e:
                raise AnalysisError("friendly_number: chunk comprehension not foldable (%s)" % e)
            bad = sorted(o for o in orders if o.startswith("bad"))
            ck.ob("C46.grouping", fi, lc, not bad and len(orders) == 1, "the comprehension cuts the digit string into groups of three counted from the right, for every length 1..10%s" % (": " + bad[0] if bad else ""))
            if bad or len(orders) != 1:
                return (X, n.targets[0].id, "lsf", lc)
            return (X, n.targets[0].id, orders.pop(), lc)
    return None


def rule_fast_path(ck, fi, P):
    """Class 'fast path decided on the wrong (signed) quantity': for the English locale, a value whose magnitude needs
    grouping (|v| >= 1000) never leaves through a return of the ungrouped str(value)."""
    cfg = fi.cfg
    raw = {}
    for n in cfg.stmt_nodes(lambda n: n.kind == "stmt" and isinstance(n.ast, ast.Return) and n.ast.value is not None):
        v = n.ast.value
        if (isinstance(v, ast.Call) and q.dotted(v.func) in ("str", "repr") and len(v.args) == 1 and q.dotted(v.args[0]) == P) or q.dotted(v) == P:
            raw[n.id] = n
    if not raw:
        return
    event = lambda n: "raw" if n.id in raw else ("other" if n.kind == "stmt" and isinstance(n.ast, ast.Return) else None)
    for val in (-1234567, -1000, -999, 0, 999, 1000, 1234567):
        def sub(e, val=val):
            class T(ast.NodeTransformer):
                def visit_Call(self, node):
                    node = self.generic_visit(node)
                    if isinstance(node.func, ast.Name) and node.func.id == "abs" and len(node.args) == 1 and q.dotted(node.args[0]) == P:
                        return ast.Constant(value=abs(val))
                    return node
            return T().visit(copy.deepcopy(e))

        outs = concrete_paths(fi, {P: val, "self.code": "en_US"}, event, subst=sub)
        ends = {t[-1] for _k, t in outs if t}
        if abs(val) >= 1000:
            if ends == {"raw"}:
                ck.ob("C46.grouping", fi, next(iter(raw.values())).ast, False, "value %d (English locale) needs digit grouping but is returned through the ungrouped str(value) shortcut" % val, construct="ungrouped %d" % val)
            elif "raw" in ends:
                raise AnalysisError("friendly_number: cannot decide by folding whether %d takes the ungrouped shortcut" % val)
            else:
                ck.ob("C46.grouping", fi, fi.node, True, "value %d (English locale) does not take an ungrouped shortcut" % val, construct="grouped %d" % val)


def _check_join_and_sign(ck, fi, P, X, parts, prepend, lp):
    # the join
    joins = [c for c in q.calls(fi.node) if isinstance(c.func, ast.Attribute) and c.func.attr == "join" and c.args and parts in q.paths_in(c.args[0])]
    if len(joins) != 1:
        raise AnalysisError("friendly_number: expected one join of the chunks")
    j = joins[0]
    a = j.args[0]
    rev = (isinstance(a, ast.Call) and q.dotted(a.func) == "reversed" and q.dotted(a.args[0]) == parts) or (
        isinstance(a, ast.Subscript) and q.dotted(a.value) == parts and isinstance(a.slice, ast.Slice) and a.slice.lower is None and a.slice.upper is None and a.slice.step is not None and q.unparse(a.slice.step) == "-1")
    direct = q.dotted(a) == parts
    # an in-place parts.reverse() on every path between the loop and the join
    is_rev = lambda n: n.kind == "stmt" and isinstance(n.ast, ast.Expr) and q.is_call(n.ast.value, parts + ".reverse") and not any(x is lp for x in q.ancestors(q.parent_map(fi.node), n.ast))
    from ..rules import event_facts as _ef
    revf = _ef(fi, {"rev": is_rev}, cond_facts=False)
    jn = fi.cfg.nodes_for(j)
    reversed_inplace = bool(jn) and all(("@rev", True) in revf[n.id] for n in jn)
    n_rev = len(fi.cfg.stmt_nodes(is_rev))
    if n_rev > 1 or (n_rev == 1 and not reversed_inplace):
        raise AnalysisError("friendly_number: parts.reverse() is not applied exactly once on every path (unknown idiom)")
    order_ok = (rev and not prepend and not reversed_inplace) or (direct and prepend and not reversed_inplace) or (direct and reversed_inplace and not prepend)
    ck.ob("C46.grouping", fi, j, q.is_const(j.func.value, ",") and order_ok, "the chunks are joined with ',' most-significant first")
    # sign-free: reaching definitions of X before the loop
    cfg = fi.cfg
    facts = must_facts(cfg)
    defs = [n for n in cfg.stmt_nodes(lambda n: n.kind == "stmt" and isinstance(n.ast, (ast.Assign, ast.AnnAssign)) and X in q.assigned_paths(n.ast)) if not any(a is lp for a in q.ancestors(q.parent_map(fi.node), n.ast))]
    ck.floor("C46.sign-free-grouping", len(defs), 1, "definitions of the chunked string")
    nonneg_names = set()

    def sign_free(e, nid):
        f = facts[nid]
        nonneg = lambda name: holds(f, "%s < 0" % name, False) or holds(f, "%s >= 0" % name, True) or holds(f, "0 <= %s" % name, True) or holds(f, "0 > %s" % name, False)
        if isinstance(e, ast.Call) and q.dotted(e.func) == "str" and len(e.args) == 1:
            a0 = e.args[0]
            if isinstance(a0, ast.Call) and q.dotted(a0.func) == "abs":
                return True
            if isinstance(a0, ast.Name):
                if nonneg(a0.id) or a0.id in nonneg_names:
                    return True
                return False
            if isinstance(a0, ast.UnaryOp) and isinstance(a0.op, ast.USub) and isinstance(a0.operand, ast.Name):
                return holds(f, "%s < 0" % a0.operand.id, True)
            return None
        if isinstance(e, ast.Call) and isinstance(e.func, ast.Attribute) and e.func.attr == "lstrip" and e.args and isinstance(e.args[0], ast.Constant) and "-" in str(e.args[0].value):
            return True
        if isinstance(e, ast.Call) and isinstance(e.func, ast.Attribute) and e.func.attr == "replace" and len(e.args) == 2 and q.is_const(e.args[0], "-") and q.is_const(e.args[1], ""):
            return True
        if isinstance(e, ast.Subscript) and isinstance(e.slice, ast.Slice) and q.unparse(e.slice) == "1:":
            b = q.dotted(e.value)
            if b and (holds(f, "%s.startswith('-')" % b, True) or holds(f, "%s[0] == '-'" % b, True)):
                return True
            return None
        return None

    # names bound to abs(P)
    for n in own_nodes(fi.node):
        if isinstance(n, ast.Assign) and len(n.targets) == 1 and isinstance(n.targets[0], ast.Name) and isinstance(n.value, ast.Call) and q.dotted(n.value.func) == "abs":
            nonneg_names.add(n.targets[0].id)
    used_strip = False
    for d in defs:
        r = sign_free(d.ast.value, d.id)
        if r is None:
            raise AnalysisError("friendly_number: cannot tell whether `%s` is sign-free (unknown idiom)" % q.unparse(d.ast))
        ck.ob("C46.sign-free-grouping", fi, d.ast, r, "the string chunked in threes contains digits only: a leading '-' would be grouped as if it were a digit ('-,123,456')")
        if r and not (isinstance(d.ast.value, ast.Call) and q.dotted(d.ast.value.func) == "str" and isinstance(d.ast.value.args[0], ast.Name) and d.ast.value.args[0].id == P):
            used_strip = True
    # the sign is put back for negatives
    if all(sign_free(d.ast.value, d.id) for d in defs):
        has_minus = any(isinstance(c, ast.Constant) and isinstance(c.value, str) and "-" in c.value for c in ast.walk(fi.node) if not (isinstance(c, ast.Constant) and c is getattr(fi.node.body[0], "value", None)))
        if not has_minus:
            for c in q.calls(fi.node):
                h_ = None
                if isinstance(c.func, ast.Attribute) and q.dotted(c.func.value) in ("self", "cls", "Locale") and ck.repo.has_func(F, "Locale." + c.func.attr):
                    h_ = ck.repo.func(F, "Locale." + c.func.attr)
                elif isinstance(c.func, ast.Name) and ck.repo.has_func(F, c.func.id):
                    h_ = ck.repo.func(F, c.func.id)
                if h_ is not None and h_.qualname != fi.qualname:
                    if any(isinstance(x, ast.Constant) and isinstance(x.value, str) and "-" in x.value for st_ in h_.node.body[1:] + h_.node.body[:1] for x in ast.walk(st_) if not (isinstance(st_, ast.Expr) and isinstance(st_.value, ast.Constant))):
                        has_minus = True
                        ck.use(h_)
                    else:
                        raise AnalysisError("friendly_number: no literal '-' here and helper %s is not understood" % h_.qualname)
        ck.ob("C46.sign-free-grouping", fi, fi.node, has_minus, "negative numbers get their minus sign back (a literal '-' is re-attached somewhere)", construct="minus-reattached")


def rule_utc(ck, fi):
    """`date` and `now` live on the same, explicit time scale: numeric timestamps are converted with an explicit tz, now() is
    taken with an explicit tz, naive datetimes are declared UTC (not shifted)."""
    n = 0
    for c in q.calls(fi.node):
        nm = q.call_attr(c)
        if nm in ("fromtimestamp", "now"):
            n += 1
            tz = q.arg(c, 1 if nm == "fromtimestamp" else 0, "tz")
            ck.ob("C46.same-time-scale", fi, c, tz is not None and not q.is_const(tz, None) and "utc" in q.unparse(tz).lower(),
                  "%s() is given an explicit UTC tz (a naive local time compared with / labelled as UTC shifts the date by the machine's UTC offset, turning future into past)" % nm)
        elif nm in ("utcnow", "utcfromtimestamp", "today"):
            n += 1
            ck.ob("C46.same-time-scale", fi, c, False, "naive %s() mixed with aware datetimes" % nm)
        elif nm == "replace" and q.kwarg(c, "tzinfo") is not None:
            n += 1
            ck.ob("C46.same-time-scale", fi, c, "utc" in q.unparse(q.kwarg(c, "tzinfo")).lower(), "naive datetimes are declared UTC")
            recv = q.receiver(c)
            tzfacts = must_facts(fi.cfg)
            nodes = fi.cfg.nodes_for(c)
            naive = bool(nodes) and recv is not None and all(
                any(pol and t in ("%s.tzinfo is None" % recv, "%s.utcoffset() is None" % recv) for t, pol in expanded_facts(fi, tzfacts[nd.id])) for nd in nodes)
            ck.ob("C46.same-time-scale", fi, c, naive, "the time zone is *re-labelled* only for naive datetimes (tzinfo is None); an aware datetime in another zone keeps its instant",
                  construct="relabel-only-naive " + q.unparse(c))
        elif nm == "astimezone":
            n += 1
    ck.floor("C46.same-time-scale", n, 2, "time-scale conversions in format_date")


def run(ck):
    ck.repo = strip_annotations(ck.repo, F)
    ck.rule("C46.same-time-scale", "timestamps, naive datetimes and now() are all put on the UTC scale explicitly before they are compared")
    ck.rule("C46.seconds-with-days", "timedelta.seconds (within-day remainder) is used as a duration only where the same timedelta's days are known to be 0, or together with .days")
    ck.rule("C46.future-full-format", "a future date is clamped to now (only under a recognised bound of at most 60 s) or forces the full format before the elapsed time is computed")
    ck.rule("C46.relative-guard", "relative phrases are returned only under `not full_format`")
    ck.rule("C46.phrase-unit", "the number of each 'N unit ago' phrase is elapsed seconds divided by that unit rounded to a nearest integer (error <= 0.5), for every admissible second count (locals expanded through their unique definitions)")
    ck.rule("C46.grouping", "friendly_number takes and removes exactly three characters per step and joins the chunks with ',' most-significant first")
    ck.rule("C46.sign-free-grouping", "the string that is chunked is sign-free and negatives get a literal '-' back")
    fd = ck.func(F, "Locale.format_date")
    rule_seconds(ck, fd)
    rule_utc(ck, fd)
    rule_future(ck, fd)
    rule_phrases(ck, fd)
    fn = ck.func(F, "Locale.friendly_number")
    rule_grouping(ck, fn)


# ---------------------------------------------------------------------------
# mutants


def _m(qn, edit):
    return lambda repo: mutate(repo, F, "Locale." + qn, edit)


def _src(n):
    return ast.unparse(n)


def _drop_full_format(root):
    for n in ast.walk(root):
        if isinstance(n, ast.If) and n.orelse and any(isinstance(st, ast.Assign) and _src(st) == "full_format = True" for st in n.orelse):
            n.orelse = [ast.Pass()]
            return True
    return False


def _double_rounding(root):
    for n in ast.walk(root):
        if isinstance(n, ast.If) and _src(n.test) == "seconds < 50 * 60":
            n.body = [st for st in n.body if not (isinstance(st, ast.Assign) and _src(st).startswith("minutes ="))]
            for par in ast.walk(root):
                body = getattr(par, "body", None)
                if isinstance(body, list) and n in body:
                    i = body.index(n)
                    body.insert(i, parse_stmt("minutes = round(seconds / 60.0)"))
                    for j, st in enumerate(body):
                        if isinstance(st, ast.Assign) and _src(st).startswith("hours ="):
                            body[j] = parse_stmt("hours = round(minutes / 60.0)")
                    return True
    return False


MUTANTS = [
    ("seeded C46-adv1: hours computed from already-rounded minutes", _m("format_date", _double_rounding), "C46.phrase-unit"),
    ("seeded C46-adv4: minutes by floor division with a floor of one", _m("format_date", replace_expr(lambda n: isinstance(n, ast.Call) and _src(n) == "round(seconds / 60.0)", lambda n: parse_expr("max(1, seconds // 60)"))), "C46.phrase-unit"),
    ("minutes truncated instead of rounded", _m("format_date", replace_expr(lambda n: isinstance(n, ast.Call) and _src(n) == "round(seconds / 60.0)", lambda n: parse_expr("int(seconds / 60.0)"))), "C46.phrase-unit"),
    ("hours by floor division", _m("format_date", replace_expr(lambda n: isinstance(n, ast.Call) and _src(n) == "round(seconds / (60.0 * 60))", lambda n: parse_expr("seconds // 3600"))), "C46.phrase-unit"),
    ("seeded C46-adv2: aware datetimes in other zones re-labelled as UTC", _m("format_date", replace_expr(lambda n: isinstance(n, ast.Compare) and _src(n) == "date.tzinfo is None", lambda n: parse_expr("date.tzinfo is not datetime.timezone.utc"))), "C46.same-time-scale"),
    ("seeded C46-adv6: elapsed time taken between the offset-shifted now and the unshifted date", _m("format_date", replace_stmt(lambda st: isinstance(st, ast.Assign) and _src(st) == "difference = now - date", lambda st: [parse_stmt("difference = local_now - date")])), "C46.same-time-scale"),
    ("numeric timestamps converted in local time then labelled UTC", _m("format_date", replace_expr(lambda n: isinstance(n, ast.Call) and _src(n.func).endswith("fromtimestamp"), lambda n: ast.Call(func=n.func, args=n.args[:1], keywords=[]))), "C46.same-time-scale"),
    ("undo F26a repair: clock-skew window tested on .seconds alone", _m("format_date", replace_expr(lambda n: isinstance(n, ast.Call) and _src(n).endswith(".total_seconds()"), lambda n: ast.Attribute(value=n.func.value, attr="seconds", ctx=ast.Load()))), "C46.seconds-with-days"),
    ("seeded C46-adv3: ungrouped shortcut decided on the signed value", _m("friendly_number", replace_expr(lambda n: isinstance(n, ast.Compare) and "self.code not in" in _src(n), lambda n: parse_expr("self.code not in ('en', 'en_US') or value < 1000"))), ("C46.grouping", "C46.sign-free-grouping")),
    ("ungrouped shortcut for everything below a million", _m("friendly_number", replace_expr(lambda n: isinstance(n, ast.Compare) and "self.code not in" in _src(n), lambda n: parse_expr("self.code not in ('en', 'en_US') or abs(value) < 1000000"))), "C46.grouping"),
    ("undo F26b repair: signed text is chunked", _m("friendly_number", replace_expr(lambda n: isinstance(n, ast.Call) and _src(n) == "abs(value)", lambda n: ast.Name(id="value", ctx=ast.Load()))), "C46.sign-free-grouping"),
    ("minus sign dropped for negatives", _m("friendly_number", replace_expr(lambda n: isinstance(n, ast.IfExp) and isinstance(n.body, ast.Constant) and n.body.value == "-", lambda n: ast.Constant(value=""))), "C46.sign-free-grouping"),
    ("skew window compared against days only", _m("format_date", replace_expr(lambda n: isinstance(n, ast.Compare) and "total_seconds" in _src(n), lambda n: parse_expr("(date - now).days == 0"))), "C46.future-full-format"),
    ("skew window widened to an hour", _m("format_date", replace_expr(lambda n: isinstance(n, ast.Compare) and "total_seconds" in _src(n), lambda n: parse_expr("(date - now).total_seconds() < 3600"))), "C46.future-full-format"),
    ("relative phrases no longer require days == 0", _m("format_date", replace_expr(lambda n: isinstance(n, ast.BoolOp) and _src(n) == "relative and days == 0", lambda n: n.values[0])), "C46.seconds-with-days"),
    ("future dates beyond the skew window keep the relative format", _m("format_date", _drop_full_format), "C46.future-full-format"),
    ("minutes computed with the wrong divisor", _m("format_date", replace_expr(lambda n: isinstance(n, ast.Constant) and n.value == 60.0 and isinstance(n.value, float), lambda n: ast.Constant(value=100.0))), "C46.phrase-unit"),
    ("hours computed in minutes", _m("format_date", replace_expr(lambda n: isinstance(n, ast.BinOp) and _src(n) == "60.0 * 60", lambda n: ast.Constant(value=60.0))), "C46.phrase-unit"),
    ("relative phrases also when the full format was forced", _m("format_date", replace_expr(lambda n: isinstance(n, ast.UnaryOp) and _src(n) == "not full_format", lambda n: ast.Constant(value=True))), "C46.relative-guard"),
    ("days taken from a different timedelta than seconds", _m("format_date", replace_stmt(lambda st: isinstance(st, ast.Assign) and _src(st) == "days = difference.days", lambda st: [parse_stmt("days = (local_now - local_date).days")])), "C46.seconds-with-days"),
    ("minute phrase shows the raw second count", _m("format_date", replace_expr(lambda n: isinstance(n, ast.Dict) and _src(n) == "{'minutes': minutes}", lambda n: parse_expr("{'minutes': seconds}"))), "C46.phrase-unit"),
    ("hour phrase counts from the seconds of another difference", _m("format_date", replace_stmt(lambda st: isinstance(st, ast.Assign) and _src(st).startswith("hours = "), lambda st: [parse_stmt("hours = round((local_now - local_date).seconds / (60.0 * 60))")])), ("C46.seconds-with-days", "C46.phrase-unit")),
    ("chunks removed two characters at a time", _m("friendly_number", replace_expr(lambda n: isinstance(n, ast.Subscript) and _src(n) == "s[:-3]", lambda n: parse_expr("s[:-2]"))), "C46.grouping"),
    ("chunks joined least-significant first", _m("friendly_number", replace_expr(lambda n: isinstance(n, ast.Call) and _src(n) == "reversed(parts)", lambda n: parse_expr("parts"))), "C46.grouping"),
    ("groups separated by '.'", _m("friendly_number", replace_expr(lambda n: isinstance(n, ast.Constant) and n.value == ",", lambda n: ast.Constant(value="."))), "C46.grouping"),
]
