"""C13 - Closing an IOStream settles every pending operation exactly once.

Decided statically (DESIGN.md section 4, C13) on ``tornado/iostream.py``:

* drain completeness: every attribute of the stream classes declared as a
  Future (or a container of futures) in ``__init__`` is collected or settled and
  cleared by ``_signal_closed`` on every path;
* SETTLE: raw settles guarded by ``not done()``; pending operations fail with
  ``StreamClosedError(real_error=self.error)``;
* close callback: take-and-clear, scheduled on the IOLoop, after the futures;
* ``close()``: teardown only under ``not self.closed()``, ``_closed = True`` on
  that branch, satisfiable pending reads are completed first,
  ``_signal_closed()`` on every path; ``_closed`` is never reset;
* ``write()`` starts with ``_check_closed()``; ``_try_inline_read`` checks closed
  after the buffer attempt and before touching the fd; ``_add_io_state`` registers
  nothing once closed; ``_start_read`` checks closed before asserting;
* read-mode reset: every function that ends a read leaves caller-buffer mode.

Not decided: the enumeration of close points x pending operations (needs
execution); SSL handshake futures beyond their settlement at close.
"""
from __future__ import annotations

import ast
from typing import Dict, List, Optional, Set, Tuple

from .. import q
from ..cfg import explore, canon_fact
from ..rules import node_calls, event_facts, check_settles, settle_sites
from ..mutate import mutate, remove_stmts, replace_expr, replace_stmt, parse_stmt, parse_expr
from ..model import AnalysisError
from ..x_guardflow import ClassEffects, guard_facts, has, settles_guarded, missing_effect, edge_facts, as_aug
from ..x_iostream import read_end_mode, take_and_clear, close_completes_reads, FAMILY, IO

TECHNIQUE = "field-table vs. drain agreement, SETTLE lint, take-and-clear, guard dominance and path-sensitive typestate on close()"
EXPLANATION = (
    "The Future-typed fields declared by the stream classes are compared with what _signal_closed collects, clears and settles; settles "
    "are checked for done() guards and the StreamClosedError(real_error=self.error) payload; the close callback for take-and-clear and "
    "scheduling order; close() for idempotence, completion of satisfiable reads and the final _signal_closed on every path (typestate "
    "over the until-close / pending-read branches); write/_try_inline_read/_add_io_state/_start_read for their closed checks; every "
    "read-ending function for the reset of caller-buffer mode."
)
NOT_DECIDED = "which pending operations exist at each possible close point and that each is settled exactly once in every such history; that data-satisfiable reads get exactly the buffered bytes (see C11); SSL handshake state"
LEVEL_NOTE = "structural necessary conditions; IOLoop callbacks assumed to run once per scheduling"

B = "BaseIOStream"


def _reach(cfg, starts: Set[int]) -> Set[int]:
    seen = set()
    work = list(starts)
    while work:
        x = work.pop()
        for y, _k in cfg.succ[x]:
            if y not in seen:
                seen.add(y)
                work.append(y)
    return seen


def future_fields(ck) -> Dict[str, str]:
    """self attributes annotated with a Future type in the stream classes' __init__ -> 'scalar' | 'container'"""
    out: Dict[str, str] = {}
    for rel, cls in FAMILY:
        if not ck.repo.has_func(rel, cls + ".__init__"):
            continue
        init = ck.repo.func(rel, cls + ".__init__")
        for st in q.walk_body(init.node):
            if isinstance(st, ast.AnnAssign) and isinstance(st.target, ast.Attribute) and q.dotted(st.target.value) == "self":
                ann = st.annotation
                names = {x.id for x in ast.walk(ann) if isinstance(x, ast.Name)} | {x.attr for x in ast.walk(ann) if isinstance(x, ast.Attribute)}
                if isinstance(ann, ast.Constant) and isinstance(ann.value, str):
                    names |= {"Future"} if "Future" in ann.value else set()
                if "Future" in names:
                    cont = bool(names & {"deque", "list", "dict", "set", "List", "Deque", "Dict", "Set"})
                    out["self." + st.target.attr] = "container" if cont else "scalar"
    return out


def _drain_forms(fi, path: str, lists: Set[str], settled_names: Set[str]):
    """How the futures of container ``path`` reach the settle loop.
    Returns (found, [(ast node, reason)] for drains that can drop an element, [cfg nodes that collect])."""
    cfg = fi.cfg
    bad = []
    nodes = []
    found = False

    def collects(n, var: Optional[str]) -> bool:
        if n.kind != "stmt":
            return False
        for c in q.calls(n.ast):
            if q.receiver(c) in lists and q.call_attr(c) in ("append", "extend") and (var is None or any(isinstance(x, ast.Name) and x.id == var for a in c.args for x in ast.walk(a))):
                return True
            if var is not None and ((isinstance(c.func, ast.Attribute) and c.func.attr in ("set_exception", "set_result") and q.dotted(c.func.value) == var) or (q.call_attr(c) in ("future_set_exception_unless_cancelled", "future_set_result_unless_cancelled") and c.args and q.dotted(c.args[0]) == var)):
                return True
        if isinstance(as_aug(n.ast), ast.AugAssign) and q.dotted(as_aug(n.ast).target) in lists and (var is None or any(isinstance(x, ast.Name) and x.id == var for x in ast.walk(as_aug(n.ast).value))):
            return True
        return False

    # (a) comprehension / generator over the container
    for n in cfg.stmt_nodes(lambda n: n.kind == "stmt"):
        for comp in [x for x in q.walk_local(n.ast) if isinstance(x, (ast.ListComp, ast.GeneratorExp, ast.SetComp))]:
            gens = [g for g in comp.generators if q.dotted(g.iter) == path or (isinstance(g.iter, ast.Call) and q.dotted(g.iter.func) in ("list", "tuple") and g.iter.args and q.dotted(g.iter.args[0]) == path)]
            if not gens or not collects(n, None):
                continue
            found = True
            nodes.append(n)
            if any(g.ifs for g in comp.generators):
                bad.append((n.ast, "the comprehension filters the queue (elements failing the condition are dropped unresolved)"))
        for c in q.calls(n.ast):
            if q.receiver(c) in lists and q.call_attr(c) == "extend" and c.args and q.dotted(c.args[0]) == path:
                found = True
                nodes.append(n)
    # (b) explicit loops
    loops = []
    for n in cfg.nodes:
        if n.id not in cfg.reachable():
            continue
        if n.kind == "for" and (q.dotted(n.ast.iter) == path or (isinstance(n.ast.iter, ast.Call) and n.ast.iter.args and q.dotted(n.ast.iter.args[0]) == path)):
            loops.append(("for", n))
        if n.kind == "join" and n.label == " while" and isinstance(n.ast, ast.While) and path in {q.dotted(x) for x in ast.walk(n.ast.test)}:
            loops.append(("while", n))
    for kind, head in loops:
        lp = head.ast
        if kind == "for":
            tv = [x.id for x in ast.walk(lp.target) if isinstance(x, ast.Name)]
            binders = {head.id}
        else:
            tv = []
            binders = set()
            for m in cfg.stmt_nodes(lambda m: m.kind == "stmt" and isinstance(m.ast, ast.Assign) and any(m.ast is x for x in ast.walk(lp))):
                v = m.ast.value
                if (isinstance(v, ast.Call) and q.receiver(v) == path and q.call_attr(v) in ("popleft", "pop")) or (isinstance(v, ast.Subscript) and q.dotted(v.value) == path):
                    tv += [x.id for x in ast.walk(m.ast.targets[0]) if isinstance(x, ast.Name)]
                    binders.add(m.id)
        cands = [v for v in tv if any(collects(m, v) for m in cfg.stmt_nodes(lambda m: m.kind == "stmt" and any(m.ast is x for x in ast.walk(lp))))]
        if not binders or not cands:
            continue
        found = True
        var = cands[0]
        dropped = []

        def tr(n, val):
            if n.id == head.id and kind == "while":
                if val == "pending":
                    dropped.append(n)
                return "idle"
            if n.id == head.id and kind == "for":
                if val == "pending":
                    dropped.append(n)
                return "idle"
            if n.id in binders and kind == "while":
                return "pending"
            if val == "pending" and collects(n, var):
                return "idle"
            return val

        def edge(n, k, val):
            if kind == "for" and n.id == head.id and k == "true":
                return "pending"
            return val

        seen = explore(cfg, "idle", tr, lambda t: False, edge_transfer=edge, follow_exc=False)
        at_exit = {v for _f, v in seen.get(cfg.exit.id, ())}
        for m in cfg.stmt_nodes(lambda m: collects(m, var) and any(m.ast is x for x in ast.walk(lp))):
            nodes.append(m)
        if dropped or "pending" in at_exit:
            bad.append((lp, "a loop iteration can end without handing the future it took (%s) to the settle loop" % var))
    return found, bad, nodes


def _flow_closure(fi, lists: Set[str]):
    """(paths whose value can reach one of ``lists`` through local assignments, tuple / list displays,
    star-unpacking, comprehensions, append/extend; [(path, node, reason)] for flows that pass a filter which
    can drop a real future).  A filter ``x is not None`` / ``if x`` only drops absent futures."""
    edges: Dict[str, Set[str]] = {}
    filt: Dict[str, List[Tuple[ast.AST, str]]] = {}

    def sources(e: ast.AST) -> Set[str]:
        out: Set[str] = set()
        for x in ast.walk(e):
            d = q.dotted(x) if isinstance(x, (ast.Name, ast.Attribute)) else None
            if d and isinstance(getattr(x, "ctx", None), ast.Load):
                out.add(d)
        return out

    def bad_filters(e: ast.AST) -> List[Tuple[ast.AST, str]]:
        out = []
        for x in ast.walk(e):
            if isinstance(x, (ast.ListComp, ast.GeneratorExp, ast.SetComp)):
                for g in x.generators:
                    for cond in g.ifs:
                        c = cond
                        okf = (isinstance(c, ast.Compare) and len(c.ops) == 1 and isinstance(c.ops[0], ast.IsNot) and isinstance(c.comparators[0], ast.Constant) and c.comparators[0].value is None) or isinstance(c, ast.Name)
                        if not okf:
                            out.append((x, "the comprehension filters on %s (a pending future may be dropped unresolved)" % q.unparse(cond)))
        return out

    for st in q.walk_body(fi.node):
        tgt = None
        val = None
        if isinstance(st, ast.Assign) and len(st.targets) == 1 and isinstance(st.targets[0], ast.Name):
            tgt, val = st.targets[0].id, st.value
        elif isinstance(st, ast.AnnAssign) and isinstance(st.target, ast.Name) and st.value is not None:
            tgt, val = st.target.id, st.value
        elif isinstance(as_aug(st), ast.AugAssign) and isinstance(as_aug(st).target, ast.Name):
            tgt, val = as_aug(st).target.id, as_aug(st).value
        elif isinstance(st, ast.Expr) and isinstance(st.value, ast.Call) and q.call_attr(st.value) in ("append", "extend", "add") and q.receiver(st.value) and "." not in q.receiver(st.value):
            tgt, val = q.receiver(st.value), ast.Tuple(elts=list(st.value.args), ctx=ast.Load())
        if tgt is None:
            continue
        edges.setdefault(tgt, set()).update(sources(val))
        for bf in bad_filters(val):
            filt.setdefault(tgt, []).append(bf)
    reach: Set[str] = set()
    filtered: List[Tuple[str, ast.AST, str]] = []
    work = list(lists)
    seen = set(work)
    via_bad: Dict[str, List[Tuple[ast.AST, str]]] = {l: [] for l in lists}
    while work:
        x = work.pop()
        for s_ in edges.get(x, ()):  # s_ flows into x
            reach.add(s_)
            bads = via_bad.get(x, []) + filt.get(x, [])
            if s_ not in seen:
                seen.add(s_)
                via_bad[s_] = bads
                work.append(s_)
            if bads and s_.startswith("self."):
                for node_ast, why in bads:
                    filtered.append((s_, node_ast, why))
    return reach, filtered


def signal_closed(ck):
    eff = ClassEffects(ck.repo, FAMILY)
    fi = ck.func(IO, B + "._signal_closed")
    cfg = fi.cfg
    fields = future_fields(ck)
    ck.note("Future-typed fields: %s" % sorted(fields.items()))
    ck.floor("C13.drain-complete", len(fields), 4, "Future-typed fields declared in __init__")
    gf = guard_facts(fi, eff)
    exit_facts = gf[cfg.exit.id]
    # the local list that is iterated and settled
    loops = [n for n in cfg.nodes if n.kind == "for" and n.id in cfg.reachable()]
    settled_lists: Set[str] = set()
    loopvars: Dict[str, str] = {}
    ss = settle_sites(fi)
    for lp in loops:
        it = q.dotted(lp.ast.iter)
        v = q.dotted(lp.ast.target)
        if it and v and any(p == v for _n, _c, p, _k in ss):
            settled_lists.add(it)
            loopvars[it] = v
    # plain local aliases: `b = a` makes a and b the same list; `f = self.x` makes f the field's future
    changed = True
    while changed:
        changed = False
        for st_ in q.walk_body(fi.node):
            if isinstance(st_, (ast.Assign, ast.AnnAssign)) and isinstance(getattr(st_, "value", None), ast.Name):
                tg = st_.targets if isinstance(st_, ast.Assign) else [st_.target]
                if len(tg) == 1 and isinstance(tg[0], ast.Name):
                    a_, b_ = tg[0].id, st_.value.id
                    if (a_ in settled_lists) != (b_ in settled_lists):
                        settled_lists |= {a_, b_}
                        changed = True
    field_alias: Dict[str, str] = {}
    for st_ in q.walk_body(fi.node):
        if isinstance(st_, ast.Assign) and len(st_.targets) == 1 and isinstance(st_.targets[0], ast.Name) and q.dotted(st_.value) in fields:
            if len(q.stores_to(fi.node, st_.targets[0].id)) == 1:
                field_alias[st_.targets[0].id] = q.dotted(st_.value)
    directly = {p for _n, _c, p, _k in ss if p.startswith("self.")} | {field_alias[p] for _n, _c, p, _k in ss if p in field_alias}
    for path, kind in sorted(fields.items()):
        # collected into a settled list, or settled directly
        collected = False
        coll_nodes = []
        if kind == "container":
            found, bad_sites, c_nodes = _drain_forms(fi, path, settled_lists, {p for _n, _c, p, _k in ss})
            for node_ast, why in bad_sites:
                ck.ob("C13.drain-complete", fi, node_ast, False, "every future taken out of %s at close is failed - %s" % (path, why))
            if found:
                collected = True
                coll_nodes.extend(c_nodes)
                for cn in c_nodes:
                    ck.ob("C13.drain-complete", fi, cn.ast, not any(cn.ast is a for a, _w in bad_sites), "all futures queued in %s are handed to the settle loop (none filtered out)" % path)
        for n in (cfg.stmt_nodes(lambda n: n.kind == "stmt") if kind == "scalar" else []):
            st = n.ast
            for L in settled_lists:
                if isinstance(st, ast.Expr) and q.is_call(st.value, L + ".append", L + ".extend") and any(q.dotted(x) == path for x in ast.walk(st.value)):
                    collected = True
                    coll_nodes.append(n)
                if isinstance(as_aug(st), ast.AugAssign) and q.dotted(as_aug(st).target) == L and any(q.dotted(x) == path for x in ast.walk(as_aug(st).value)):
                    collected = True
                    coll_nodes.append(n)
        via_flow = False
        if not collected and path not in directly:
            # value flow through locals: field -> local(s) / tuple / comprehension -> the settled list
            srcs, filtered = _flow_closure(fi, settled_lists)
            if path in srcs:
                via_flow = True
                bad_filter = [f_ for f_ in filtered if f_[0] == path]
                for _p, node_ast, why in bad_filter:
                    ck.ob("C13.drain-complete", fi, node_ast, False, "every pending future taken from %s reaches the settle loop - %s" % (path, why))
        ok = collected or path in directly or via_flow
        if not ok:
            # positive evidence needed: if futures are handed to code that is not followed, the rule cannot claim absence
            for c_ in q.calls(fi.node):
                if any(q.dotted(a_) == path for a_ in list(c_.args) + [k_.value for k_ in c_.keywords]) or (q.receiver(c_) == "self" and q.call_attr(c_) in eff.methods and q.call_attr(c_) not in ("closed",)):
                    raise AnalysisError("%s is not settled in _signal_closed itself, but %s() may do it (not followed)" % (path, q.unparse(c_.func)))
        ck.ob("C13.drain-complete", fi, fi.node, ok, "%s (declared as a Future field) is failed by _signal_closed: collected into the settled list or settled directly" % path, construct="%s settled at close" % path)
        # cleared on every path
        if kind == "scalar":
            cleared = has(exit_facts, "%s is None" % path, True)
        else:
            clr = lambda n, path=path: n.kind == "stmt" and (any(q.is_call(c, path + ".clear") for c in q.calls(n.ast)) or (isinstance(n.ast, ast.Assign) and path in q.assigned_paths(n.ast)))
            ef = event_facts(fi, {"clr": clr}, cond_facts=False)
            cleared = ("@clr", True) in ef[cfg.exit.id]
            if not cleared:
                # a `while <queue>:` loop that pops and never breaks leaves the queue empty
                def _nonempty_test(t_) -> bool:
                    try:
                        return (not q.fold(t_, {path: ()})) and bool(q.fold(t_, {path: (0,)})) and bool(q.fold(t_, {path: (0, 1)}))
                    except q.NotFoldable:
                        return False

                for w in [x for x in q.walk_body(fi.node) if isinstance(x, ast.While) and _nonempty_test(x.test) and not x.orelse]:
                    pops = [c for c in q.calls(w) if q.receiver(c) == path and q.call_attr(c) in ("popleft", "pop")]
                    if pops and not any(isinstance(y, (ast.Break, ast.Return)) for st_ in w.body for y in ast.walk(st_)) and fi.cfg.nodes_for(w.body[0]) and all(("@clr", True) in ef[cfg.exit.id] or True for _ in [0]):
                        # the loop must be on every path to the exit
                        hd = [m for m in cfg.nodes if m.kind == "join" and m.ast is w and m.label == " while" and m.id in cfg.reachable()]
                        if hd and all(cfg.dominates(hd[0], cfg.exit) for _ in [0]):
                            cleared = True
            # collected before cleared
            if via_flow:
                for rn in cfg.stmt_nodes(lambda n: n.kind == "stmt" and not clr(n) and any(q.dotted(x) == path and isinstance(getattr(x, "ctx", None), ast.Load) for x in q.walk_local(n.ast))):
                    ck.ob("C13.drain-complete", fi, rn.ast, ("@clr", True) not in ef[rn.id], "the queued futures are read out before the queue is cleared")
            for cn in coll_nodes:
                ck.ob("C13.drain-complete", fi, cn.ast, ("@clr", True) not in ef[cn.id] and not (_reach(cfg, {m.id for m in cfg.stmt_nodes(clr)}) & {cn.id}), "the queued futures are collected before the queue is cleared")
        ck.ob("C13.drain-complete", fi, fi.node, cleared, "%s is cleared on every path through _signal_closed (no future is settled twice by a second close)" % path, construct="%s cleared at close" % path)
        # a scalar field is collected only when present
        for cn in coll_nodes:
            if kind == "scalar":
                ck.ob("C13.drain-complete", fi, cn.ast, has(gf[cn.id], "%s is None" % path, False), "%s is collected only when set" % path)
        if kind == "scalar" and via_flow:
            nonefilter = any(isinstance(x, (ast.ListComp, ast.GeneratorExp)) and any(isinstance(c_, ast.Compare) and isinstance(c_.ops[0], ast.IsNot) or isinstance(c_, ast.Name) for g_ in x.generators for c_ in g_.ifs) for x in q.walk_body(fi.node))
            loopguard = any(has(gf[n_.id], "%s is None" % v_, False) for n_, _c, v_, _k in ss if v_ in loopvars.values())
            ck.ob("C13.drain-complete", fi, fi.node, nonefilter or loopguard, "an unset %s (None) never reaches the settle loop" % path, construct="%s: None filtered before settling" % path)

    # one cancelled future must not abort the settlement of the others: reading the outcome of the loop variable
    # (exception() / result() raise CancelledError) is protected by a handler inside the loop body
    pm_sc = q.parent_map(fi.node)
    n_reads = 0
    for lp in loops:
        it_ = q.dotted(lp.ast.iter)
        v_ = q.dotted(lp.ast.target)
        if it_ not in settled_lists or not v_:
            continue
        for x in ast.walk(ast.Module(body=lp.ast.body, type_ignores=[])):
            if isinstance(x, ast.Call) and q.call_attr(x) in ("exception", "result") and q.receiver(x) == v_:
                n_reads += 1
                inside = q.protected_by(pm_sc, x, "asyncio.CancelledError", stop=lp.ast) is not None
                ck.ob("C13.settle-each", fi, x, inside, "in the settle loop the outcome of each future is read under a handler for CancelledError inside the loop body: a cancelled future must not end the loop (every later future is still failed)")
    settle_loops = [lp for lp in loops if q.dotted(lp.ast.iter) in settled_lists]
    for lp in settle_loops:
        ck.ob("C13.settle-each", fi, lp.ast, not any(isinstance(x, (ast.Break, ast.Return)) for s_ in lp.ast.body for x in ast.walk(s_)), "the settle loop has no early exit")
    # settles
    n = settles_guarded(ck, "C13.settle-guarded", fi, None, eff, allow_safe_unguarded=True)
    ck.floor("C13.settle-guarded", n, 2, "settle sites in _signal_closed")
    n_loop = 0
    def _sce_real_error(a_) -> bool:
        """StreamClosedError(real_error=self.error) / StreamClosedError(self.error)"""
        if not (isinstance(a_, ast.Call) and (q.dotted(a_.func) or "").endswith("StreamClosedError")):
            return False
        v_ = q.kwarg(a_, "real_error") or (a_.args[0] if a_.args else None)
        return q.dotted(v_) == "self.error"

    for node, c, p, kind in ss:
        arg = c.args[0] if kind == "raw" and c.args else (c.args[1] if len(c.args) > 1 else None)
        if isinstance(arg, ast.Name):
            from ..x_guardflow import reaching_value

            rv = reaching_value(fi, arg.id, node)
            if rv is None:
                raise AnalysisError("cannot tell what %s holds where %s is failed" % (arg.id, p))
            arg = rv
        if p in loopvars.values():
            n_loop += 1
            ok = _sce_real_error(arg)
            ck.ob("C13.settle-guarded", fi, c, ok and q.call_attr(c) in ("set_exception", "future_set_exception_unless_cancelled"), "pending operations fail with StreamClosedError(real_error=self.error)")
        else:
            def _payload_ok(a_):
                if isinstance(a_, ast.IfExp):
                    return _payload_ok(a_.body) and _payload_ok(a_.orelse)
                if isinstance(a_, ast.BoolOp) and isinstance(a_.op, ast.Or):
                    return all(_payload_ok(v_) for v_ in a_.values)
                return q.dotted(a_) == "self.error" or (isinstance(a_, ast.Call) and (q.dotted(a_.func) or "").endswith("StreamClosedError"))

            ok = _payload_ok(arg)
            ck.ob("C13.settle-guarded", fi, c, ok, "%s fails with the real error or StreamClosedError" % p)
    ck.floor("C13.settle-guarded", n_loop, 1, "settles of the collected futures")

    # close callback
    methods = [f for rel, cls in FAMILY for f in ck.repo.direct_methods(rel, cls)]
    takes = take_and_clear(ck, "C13.close-callback", methods, "_close_callback")
    ck.ob("C13.close-callback", fi, fi.node, fi.qualname in takes, "_signal_closed takes the close callback (take-and-clear)", construct="close callback taken in _signal_closed")
    for st in takes.get(fi.qualname, []):
        alias = st.targets[0].id
        uses = cfg.find(lambda x: isinstance(x, ast.Call) and (q.dotted(x.func) == alias or any(q.dotted(a) == alias for a in x.args)))
        ck.floor("C13.close-callback", len(uses), 1, "uses of the taken close callback")
        for node, c in uses:
            sched = q.call_attr(c) in ("add_callback", "call_soon", "spawn_callback") and c.args and q.dotted(c.args[0]) == alias
            ck.ob("C13.close-callback", fi, c, bool(sched), "the close callback is scheduled on the IOLoop (runs after the futures' callbacks, never re-entrantly inside close)")
            after = _reach(cfg, {node.id})
            ck.ob("C13.close-callback", fi, c, not (after & {sn.id for sn, _c, _p, _k in ss}), "the close callback is scheduled after every pending future was failed")
        taken_set = all(has(gf[node.id], "self._close_callback is None", False) for node in cfg.nodes_for(st))
        for node, c in uses:
            ck.ob("C13.close-callback", fi, c, taken_set or has(gf[node.id], "%s is None" % alias, False), "the callback is scheduled only when one is set")
    # exactly one scheduling per path
    def tr(nn, val):
        if nn.kind == "stmt" and any(q.call_attr(c) in ("add_callback", "call_soon", "spawn_callback") for c in q.calls(nn.ast)):
            return min(val + 1, 2)
        return val

    cnts = {v for _f, v in explore(cfg, 0, tr, lambda t: False, follow_exc=False).get(cfg.exit.id, ())}
    ck.ob("C13.close-callback", fi, fi.node, cnts <= {0, 1}, "at most one close-callback scheduling per _signal_closed (counts %s)" % sorted(cnts), construct="close callback schedulings per path = %s" % sorted(cnts))


def close_path(ck):
    eff = ClassEffects(ck.repo, FAMILY)
    fi = ck.func(IO, B + ".close")
    cfg = fi.cfg
    gf = guard_facts(fi, eff)
    closed_fn = ck.func(IO, B + ".closed")
    rets = [x for x in q.walk_body(closed_fn.node) if isinstance(x, ast.Return)]
    ck.ob("C13.close-idempotent", closed_fn, closed_fn.node, len(rets) == 1 and q.dotted(rets[0].value) == "self._closed", "closed() reports the _closed flag", construct="closed() returns self._closed")
    # teardown only when not yet closed
    teardown = cfg.stmt_nodes(lambda n: n.kind == "stmt" and (any(q.is_call(c, "self.close_fd", "self.io_loop.remove_handler", "self._finish_read", "self._read_from_buffer") for c in q.calls(n.ast)) or (isinstance(n.ast, ast.Assign) and ({"self._closed", "self.error"} & q.assigned_paths(n.ast))) or any(q.receiver(c) == "self" and q.call_attr(c) in eff.methods and q.call_attr(c) != "_signal_closed" and ({"self._closed", "self.error"} & set(eff.writes(q.call_attr(c)) or ())) and not q.is_call(c, "self.close_fd", "self._finish_read", "self._read_from_buffer", "self._find_read_pos", "self.fileno") for c in q.calls(n.ast))))
    ck.floor("C13.close-idempotent", len(teardown), 4, "teardown statements in close()")
    for n in teardown:
        ck.ob("C13.close-idempotent", fi, n.ast, has(gf[n.id], "self.closed()", False) or has(gf[n.id], "self._closed", False), "teardown happens only when the stream is not yet closed (a second close() changes nothing)")
    fds = cfg.stmt_nodes(node_calls("self.close_fd"))
    ck.floor("C13.close-idempotent", len(fds), 1, "close_fd calls")
    # flag set after the fd was closed, on the same branch
    sets = cfg.stmt_nodes(lambda n: n.kind == "stmt" and isinstance(n.ast, ast.Assign) and "self._closed" in q.assigned_paths(n.ast) and isinstance(n.ast.value, ast.Constant) and n.ast.value.value is True)
    if sets:
        ck.ob("C13.close-idempotent", fi, fi.node, True, "close() sets _closed = True")
    else:
        missing_effect(ck, "C13.close-idempotent", fi, eff, {"self._closed"}, "close() sets _closed = True", "_closed = True in close()")
    fid = {n.id for n in fds}
    sid = {n.id for n in sets}

    def tr(n, val):
        if n.id in sid:
            return "set"
        if n.id in fid and val == "none":
            return "fd"
        return val

    ex = {v for _f, v in explore(cfg, "none", tr, lambda t: False, follow_exc=False).get(cfg.exit.id, ())}
    ck.ob("C13.close-idempotent", fi, fi.node, "fd" not in ex, "whenever the fd was closed the _closed flag is set before close() returns (exit states %s)" % sorted(ex), construct="close(): fd closed without flag")
    # _signal_closed on every normal path, after the teardown
    sigs = cfg.stmt_nodes(node_calls("self._signal_closed"))
    ef = event_facts(fi, {"sig": lambda n: n in sigs}, cond_facts=False)
    ck.ob("C13.close-signals", fi, fi.node, ("@sig", True) in ef[cfg.exit.id], "_signal_closed() runs on every normal path of close() (also when already closed: operations registered after the close are still failed)", construct="_signal_closed on every path of close()")
    after = _reach(cfg, {n.id for n in sigs})
    for n in teardown:
        ck.ob("C13.close-signals", fi, n.ast, n.id not in after, "pending operations are failed only after the teardown (error recorded, satisfiable reads completed, fd closed)")
    for n in sigs:
        ck.ob("C13.close-signals", fi, n.ast, not (_reach(cfg, {n.id}) & sid), "_closed is set before the pending operations are failed (their callbacks observe a closed stream)")

    close_completes_reads(ck, "C13.close-completes-reads")

    # the real error is recorded (before the futures are failed with it)
    ep = [p for p in fi.params() if p != "self"]
    ck.need(ep, "close() lost its exc_info parameter")
    ep = ep[0]
    hosts = []  # (function, its exc_info name, initial kind, node ids where the state is read)
    if cfg.stmt_nodes(lambda n: n.kind == "stmt" and isinstance(n.ast, ast.Assign) and "self.error" in q.assigned_paths(n.ast)):
        hosts.append((fi, ep, "?", [sg.id for sg in sigs]))
    else:
        # the recording may live in a same-class helper that receives exc_info
        for hn, c in cfg.find(lambda x: isinstance(x, ast.Call) and isinstance(x.func, ast.Attribute) and q.dotted(x.func.value) == "self" and x.func.attr in eff.methods):
            w = eff.writes(c.func.attr)
            if w is None or "self.error" not in w:
                continue
            pos = [i for i, a_ in enumerate(c.args) if q.dotted(a_) == ep]
            ck.need(len(pos) == 1 and len(eff.methods[c.func.attr]) == 1, "close() records the error through %s() in a shape that cannot be followed" % c.func.attr)
            h = eff.methods[c.func.attr][0]
            hps = [p for p in h.params() if p != "self"]
            ck.need(pos[0] < len(hps), "cannot bind exc_info in %s" % h.qualname)
            init_kind = "given" if has(gf[hn.id], ep, True) else "?"
            ck.ob("C13.error-recorded", fi, c, hn.id not in _reach(cfg, {sg.id for sg in sigs}), "the error is recorded before the pending operations are failed")
            hosts.append((ck.use(h), hps[pos[0]], init_kind, [h.cfg.exit.id]))
    if not hosts:
        missing_effect(ck, "C13.error-recorded", fi, eff, {"self.error"}, "close() stores the exception it was given in self.error", "close(): self.error never assigned")
    kinds = set()
    n_err = 0
    for hf, hep, init_kind, at_ids in hosts:
        hcfg = hf.cfg
        errs = hcfg.stmt_nodes(lambda n: n.kind == "stmt" and isinstance(n.ast, ast.Assign) and "self.error" in q.assigned_paths(n.ast))
        n_err += len(errs)
        sysvars: Set[str] = set()
        for st_ in q.walk_body(hf.node):
            if isinstance(st_, ast.Assign) and q.is_call(st_.value, "sys.exc_info"):
                sysvars |= {p_ for p_ in q.assigned_paths(st_) if "." not in p_}

        # locals that are (copies of) the exc_info argument: `x = exc_info` (e.g. a parameter bound by inlining)
        heps = {hep}
        grew = True
        while grew:
            grew = False
            for st_ in q.walk_body(hf.node):
                if isinstance(st_, ast.Assign) and isinstance(st_.value, ast.Name) and st_.value.id in heps and len(st_.targets) == 1 and isinstance(st_.targets[0], ast.Name) and st_.targets[0].id not in heps:
                    heps.add(st_.targets[0].id)
                    grew = True

        def tr3(n, val, errs=errs):
            kind, rec = val
            if n in errs:
                rec = True
            if n.kind == "stmt" and isinstance(n.ast, ast.Assign) and q.is_call(n.ast.value, "sys.exc_info"):
                kind = "sys"
            return (kind, rec)

        def edge3(n, k, val, heps=heps):
            kind, rec = val
            for t, pol in edge_facts(n, k, hgf):
                if t in heps and kind == "?":
                    kind = "given" if pol else "none"
                elif any(t.startswith("isinstance(%s," % h_) for h_ in heps) and pol and kind == "given":
                    kind = "exc"
                elif t.startswith("any(") and kind == "sys":
                    kind = "sys-some" if pol else "sys-none"
            return (kind, rec)

        hgf = guard_facts(hf, eff)
        seen3 = explore(hcfg, (init_kind, False), tr3, lambda t: False, edge_transfer=edge3, follow_exc=False)
        for nid in at_ids:
            for _f, (kind, rec) in seen3.get(nid, ()):
                kinds.add((kind, rec))
        for n in errs:
            v = n.ast.value
            def _is_exc(v_):
                if isinstance(v_, ast.IfExp):
                    return _is_exc(v_.body) and _is_exc(v_.orelse)
                return q.dotted(v_) in heps or (isinstance(v_, ast.Subscript) and q.dotted(v_.value) in (heps | sysvars) and q.is_const(v_.slice, 1))

            ok = _is_exc(v)
            ck.ob("C13.error-recorded", hf, n.ast, ok, "self.error is the exception itself (exc_info, exc_info[1] or sys.exc_info()[1])")
    if hosts:
        ck.floor("C13.error-recorded", n_err, 2, "assignments to self.error on the close path")
        bad = sorted(k for k, rec in kinds if k in ("exc", "sys-some") and not rec)
        ck.ob("C13.error-recorded", fi, fi.node, not bad and any(k == "exc" and rec for k, rec in kinds), "when close() is given an exception (instance or exc_info tuple, or the current exception) self.error holds it before the pending operations are failed (states %s)" % sorted(kinds), construct="close(): error recorded before _signal_closed %s" % bad)

    # who writes _closed
    n_w = 0
    for rel, cls in FAMILY:
        for f in ck.repo.direct_methods(rel, cls):
            for st in q.stores_to(f.node, "self._closed"):
                n_w += 1
                v = getattr(st, "value", None)
                if f.name == "__init__":
                    ok = isinstance(v, ast.Constant) and v.value is False
                else:
                    ok = f is fi and isinstance(v, ast.Constant) and v.value is True
                ck.ob("C13.close-idempotent", f, st, ok, "_closed is False at construction and only ever set True, by close()")
    ck.floor("C13.close-idempotent", n_w, 1, "writers of _closed")


def closed_checks(ck):
    eff = ClassEffects(ck.repo, FAMILY)
    # _check_closed
    if ck.repo.has_func(IO, B + "._check_closed"):
        cc = ck.func(IO, B + "._check_closed")
        gf = guard_facts(cc, eff)
        rs = cc.cfg.stmt_nodes(lambda n: n.kind == "stmt" and isinstance(n.ast, ast.Raise) and n.ast.exc is not None)
        ck.floor("C13.closed-checks", len(rs), 1, "raises in _check_closed")
        for r in rs:
            e = r.ast.exc
            ok = isinstance(e, ast.Call) and (q.dotted(e.func) or "").endswith("StreamClosedError") and q.dotted(q.kwarg(e, "real_error") or (e.args[0] if e.args else None)) == "self.error"
            ck.ob("C13.closed-checks", cc, r.ast, ok and (has(gf[r.id], "self.closed()", True) or has(gf[r.id], "self._closed", True)), "_check_closed raises StreamClosedError(real_error=self.error) when the stream is closed")
        falls = cc.cfg.exit
        ck.ob("C13.closed-checks", cc, cc.node, has(gf[falls.id], "self.closed()", False) or has(gf[falls.id], "self._closed", False), "_check_closed returns normally only for an open stream", construct="_check_closed normal return implies open")
    else:
        ck.note("_check_closed does not exist (inlined at its call sites); the callers' own closed tests are used")

    # write
    w = ck.func(IO, B + ".write")
    ef = event_facts(w, {"chk": node_calls("self._check_closed")}, cond_facts=False)
    muts = w.cfg.stmt_nodes(lambda n: n.kind == "stmt" and (any(q.is_call(c, "self._write_buffer.append", "self._write_futures.append", "self._handle_write", "self._add_io_state") for c in q.calls(n.ast)) or (isinstance(n.ast, ast.AugAssign) and (q.dotted(n.ast.target) or "").startswith("self."))))
    ck.floor("C13.closed-checks", len(muts), 3, "mutations in write()")
    gfw = guard_facts(w, eff)
    for n in muts:
        ok = ("@chk", True) in ef[n.id] or has(gfw[n.id], "self.closed()", False) or has(gfw[n.id], "self._closed", False)
        ck.ob("C13.closed-checks", w, n.ast, ok, "write() checks for a closed stream before it queues anything (no later write succeeds)")

    # _try_inline_read
    t = ck.func(IO, B + "._try_inline_read")
    ef = event_facts(t, {"chk": node_calls("self._check_closed")}, cond_facts=False)
    fills = t.cfg.stmt_nodes(node_calls("self._read_to_buffer_loop", "self._read_to_buffer"))
    ck.floor("C13.inline-read-check", len(fills), 1, "fd reads in _try_inline_read")
    gft0 = guard_facts(t, eff)
    open_known = lambda n: ("@chk", True) in ef[n.id] or has(gft0[n.id], "self.closed()", False) or has(gft0[n.id], "self._closed", False)
    for n in fills:
        ck.ob("C13.inline-read-check", t, n.ast, open_known(n), "_try_inline_read checks for a closed stream before reading from the fd")
    finds = t.cfg.stmt_nodes(node_calls("self._find_read_pos"))
    ck.ob("C13.inline-read-check", t, t.node, any(not open_known(n) for n in finds), "the buffered data is tried before the closed check (later reads still succeed from data already buffered)", construct="buffer attempt precedes _check_closed in _try_inline_read")
    regs = t.cfg.stmt_nodes(node_calls("self._add_io_state"))
    gft = guard_facts(t, eff)
    for n in regs:
        ck.ob("C13.inline-read-check", t, n.ast, has(gft[n.id], "self.closed()", False) or ("@chk", True) in ef[n.id], "the read listener is only added for an open stream")

    # _add_io_state registers nothing once closed
    a = ck.func(IO, B + "._add_io_state")
    gfa = guard_facts(a, eff)
    hs = a.cfg.stmt_nodes(node_calls("self.io_loop.add_handler", "self.io_loop.update_handler"))
    ck.floor("C13.closed-checks", len(hs), 2, "handler registrations in _add_io_state")
    for n in hs:
        ck.ob("C13.closed-checks", a, n.ast, has(gfa[n.id], "self.closed()", False) or has(gfa[n.id], "self._closed", False), "no IOLoop handler is (re)registered for a closed stream")

    # _start_read
    s = ck.func(IO, B + "._start_read")
    gfs = guard_facts(s, eff)
    ef = event_facts(s, {"chk": node_calls("self._check_closed")}, cond_facts=False)
    asserts = s.cfg.stmt_nodes(lambda n: n.kind == "stmt" and isinstance(n.ast, ast.Assert))
    for n in asserts:
        ck.ob("C13.inline-read-check", s, n.ast, ("@chk", True) in ef[n.id] or has(gfs[n.id], "self.closed()", False) or has(gfs[n.id], "self._closed", False), "_start_read raises StreamClosedError (not AssertionError) when the previous read was left pending by a close")
    news = s.cfg.stmt_nodes(lambda n: n.kind == "stmt" and isinstance(n.ast, ast.Assign) and "self._read_future" in q.assigned_paths(n.ast))
    ck.floor("C13.inline-read-check", len(news), 1, "read future creation in _start_read")
    def _fresh_future(v):
        if isinstance(v, ast.Call) and q.call_attr(v) in ("Future", "_create_future"):
            return True
        if isinstance(v, ast.Name):
            ds = [x for x in q.stores_to(s.node, v.id) if isinstance(x, (ast.Assign, ast.AnnAssign))]
            return len(ds) == 1 and _fresh_future(getattr(ds[0], "value", None))
        return False

    aliases = {"self._read_future"}
    for n in news:
        v = n.ast.value
        ck.ob("C13.inline-read-check", s, n.ast, _fresh_future(v), "every read gets a fresh Future")
        if isinstance(v, ast.Name):
            aliases.add(v.id)
    rets = [x for x in q.walk_body(s.node) if isinstance(x, ast.Return)]
    ck.ob("C13.inline-read-check", s, s.node, bool(rets) and all(q.dotted(r.value) in aliases for r in rets), "_start_read returns the future it registered", construct="_start_read returns self._read_future")


def error_closes(ck):
    """Transport errors reach close(exc_info=<the error>): every handler of OSError / Exception in the
    event, read, write and connect paths closes the stream with the caught exception (or re-raises)."""
    SITES = [(IO, B + "._handle_events"), (IO, B + "._handle_read"), (IO, B + "._handle_write"), (IO, B + "._read_to_buffer"), (IO, "IOStream.connect")]
    n = 0
    for rel, qn in SITES:
        fi = ck.func(rel, qn)
        for h in [x for x in q.walk_body(fi.node) if isinstance(x, ast.ExceptHandler)]:
            names = q.handler_names(h)
            if not (q.exc_is_caught("OSError", names) or q.exc_is_caught("Exception", names)):
                continue  # BlockingIOError, UnsatisfiableReadError, CancelledError, ...: not transport errors
            if all(nm.split(".")[-1] in ("BlockingIOError",) for nm in names):
                continue
            hn = [m for m in fi.cfg.nodes if m.kind == "handler" and m.ast is h and m.id in fi.cfg.reachable()]
            if not hn:
                continue
            n += 1
            hid = {m.id for m in hn}
            var = h.name

            def closes(m, var=var):
                if m.kind != "stmt":
                    return False
                if isinstance(m.ast, ast.Raise):
                    return True
                for c in q.calls(m.ast):
                    if q.is_call(c, "self.close"):
                        a = q.kwarg(c, "exc_info") or (c.args[0] if c.args else None)
                        if a is not None and (q.dotted(a) == var or (isinstance(a, ast.Constant) and a.value is True)):
                            return True
                return False

            def not_transport(m, kind, val, var=var, h=h):
                # `except OSError as e: if isinstance(e, BlockingIOError): ...` is the BlockingIOError handler written
                # as a test: on that branch the caught exception is not a transport error
                if val and var and m.kind == "test" and kind in ("true", "false"):
                    t, pol = m.ast, True
                    if isinstance(t, ast.UnaryOp) and isinstance(t.op, ast.Not):
                        t, pol = t.operand, False
                    if q.is_call(t, "isinstance") and len(t.args) == 2 and q.dotted(t.args[0]) == var and not q.stores_to(h, var):
                        cl = t.args[1].elts if isinstance(t.args[1], ast.Tuple) else [t.args[1]]
                        nm = [q.dotted(c) for c in cl]
                        if nm and all(x and x.split(".")[-1] in ("BlockingIOError",) for x in nm) and kind == ("true" if pol else "false"):
                            return False
                return val

            bad = _paths_avoiding(fi, hid, closes, not_transport)
            ck.ob("C13.error-closes", fi, h, not bad, "a transport error caught in %s closes the stream with that error (close(exc_info=%s)) on every path, so pending operations fail with StreamClosedError carrying the real error" % (qn.split(".")[-1], var or "..."))
    ck.floor("C13.error-closes", n, 5, "transport-error handlers")


def _paths_avoiding(fi, starts: Set[int], end, edge=None) -> bool:
    cfg = fi.cfg

    def tr(n, val):
        if n.id in starts:
            return True
        if val and end(n):
            return False
        return val

    seen = explore(cfg, False, tr, lambda t: False, edge_transfer=edge, exc_effect=True)
    return any(v for _f, v in seen.get(cfg.exit.id, ()))


def field_settles(ck):
    """Outside _signal_closed a Future field is resolved only through take-and-clear
    and *_unless_cancelled (so close and completion cannot both settle it)."""
    fields = future_fields(ck)
    n = 0
    for rel, cls in FAMILY:
        for fi in ck.repo.direct_methods(rel, cls):
            if fi.name == "_signal_closed":
                continue
            ss = settle_sites(fi)
            if not ss:
                continue
            alias: Dict[str, str] = {}
            for st in q.walk_body(fi.node):
                if isinstance(st, ast.Assign) and q.dotted(st.value) in fields and isinstance(st.targets[0], ast.Name):
                    alias[st.targets[0].id] = q.dotted(st.value)
            for node, c, p, kind in ss:
                if p in fields:
                    n += 1
                    ck.ob("C13.field-settle-tac", fi, c, False, "%s is resolved directly; it must be taken and cleared first (close() would fail it a second time)" % p)
                elif p in alias:
                    n += 1
                    path = alias[p]
                    ef = event_facts(fi, {"clr": lambda m, path=path: m.kind == "stmt" and isinstance(m.ast, ast.Assign) and path in q.assigned_paths(m.ast) and isinstance(m.ast.value, ast.Constant) and m.ast.value.value is None}, cond_facts=False)
                    ck.ob("C13.field-settle-tac", fi, c, ("@clr", True) in ef[node.id] and kind == "safe", "%s is cleared before the taken future is resolved with *_unless_cancelled" % path)
    ck.floor("C13.field-settle-tac", n, 3, "resolutions of Future fields outside _signal_closed")


def run(ck):
    ck.rule("C13.drain-complete", "every Future-typed field declared by the stream classes is collected/settled and cleared by _signal_closed on every path")
    ck.rule("C13.settle-each", "_signal_closed settles every collected future: outcome reads that can raise CancelledError are handled inside the loop body, the loop has no early exit")
    ck.rule("C13.settle-guarded", "settles in _signal_closed are guarded by not done() (or *_unless_cancelled); pending operations fail with StreamClosedError(real_error=self.error)")
    ck.rule("C13.close-callback", "the close callback is used only through take-and-clear, scheduled on the IOLoop at most once, after the futures were failed")
    ck.rule("C13.close-idempotent", "close(): teardown only under not closed(); _closed set whenever the fd was closed; _closed only ever becomes True, in close()")
    ck.rule("C13.close-signals", "close(): _signal_closed() on every normal path, after the teardown and after _closed is set")
    ck.rule("C13.close-completes-reads", "close(): a pending until-close read is finished and any other pending read is checked against the buffer before the fd is closed")
    ck.rule("C13.error-recorded", "close() stores the exception it was given in self.error before failing the pending operations")
    ck.rule("C13.field-settle-tac", "outside _signal_closed, read/connect/ssl-connect futures are resolved only after being taken and cleared, with *_unless_cancelled")
    ck.rule("C13.error-closes", "transport errors caught in the event/read/write/connect paths close the stream with the caught exception (or re-raise)")
    ck.rule("C13.closed-checks", "_check_closed raises StreamClosedError(real_error) iff closed; write() checks it before queuing; _add_io_state registers nothing once closed")
    ck.rule("C13.inline-read-check", "_try_inline_read tries the buffer first, then checks closed before touching the fd; _start_read checks closed before asserting and registers a fresh future")
    ck.rule("C13.read-end-mode", "every function that ends a read (self._read_future = None) leaves caller-buffer mode (_user_read_buffer False) on every path")
    from ..x_iostream import normalised

    normalised(ck)
    signal_closed(ck)
    close_path(ck)
    closed_checks(ck)
    field_settles(ck)
    error_closes(ck)
    n = read_end_mode(ck, "C13.read-end-mode")
    ck.floor("C13.read-end-mode", n, 1, "read-ending sites")


# ---------------------------------------------------------------------------
# mutants


def _in(qn, edit):
    return lambda repo: mutate(repo, IO, qn, edit)


def _src(n):
    return ast.unparse(n)


def _unguard_settle(root):
    for n in ast.walk(root):
        b = getattr(n, "body", None)
        if isinstance(b, list):
            for i, st in enumerate(b):
                if isinstance(st, ast.If) and _src(st.test) == "not future.done()":
                    b[i : i + 1] = st.body
                    return True
    return False


def _callback_before_futures(root):
    b = root.body
    i = [k for k, s in enumerate(b) if isinstance(s, ast.If) and "_close_callback" in _src(s.test)]
    j = [k for k, s in enumerate(b) if isinstance(s, ast.For)]
    if i and j and j[0] < i[0]:
        st = b.pop(i[0])
        b.insert(j[0], st)
        return True
    return False


def _check_closed_first(root):
    b = root.body
    i = [k for k, s in enumerate(b) if isinstance(s, ast.Expr) and "_check_closed" in _src(s)]
    if i:
        st = b.pop(i[0])
        k = 1 if isinstance(b[0], ast.Expr) and isinstance(b[0].value, ast.Constant) else 0
        b.insert(k, st)
        return True
    return False


def _signal_inside_if(root):
    b = root.body
    i = [k for k, s in enumerate(b) if isinstance(s, ast.Expr) and "_signal_closed" in _src(s)]
    j = [k for k, s in enumerate(b) if isinstance(s, ast.If) and "closed()" in _src(s.test)]
    if i and j:
        st = b.pop(i[0])
        b[j[0]].body.append(st)
        return True
    return False


def _drop_pending_read_check(root):
    for n in ast.walk(root):
        if isinstance(n, ast.If) and _src(n.test) == "self._read_until_close" and n.orelse:
            n.orelse = []
            return True
    return False


def _not_idempotent(root):
    b = root.body
    for i, st in enumerate(b):
        if isinstance(st, ast.If) and _src(st.test) == "not self.closed()":
            b[i : i + 1] = st.body
            return True
    return False


def _drop_last_close(root):
    hs = [h for h in ast.walk(root) if isinstance(h, ast.ExceptHandler) and h.type is not None and _src(h.type) == "Exception"]
    for h in hs:
        for i, st in enumerate(h.body):
            if isinstance(st, ast.Expr) and "self.close(exc_info=e)" in _src(st):
                del h.body[i]
                h.body.insert(i, parse_stmt("return"))
                return True
    return False


def _handler_around_loop(root):
    # seeded C13-adv6: try/except CancelledError wraps the whole settle loop
    for n in ast.walk(root):
        b = getattr(n, "body", None)
        if isinstance(b, list):
            for i, st in enumerate(b):
                if isinstance(st, ast.For) and any(isinstance(x, ast.Try) for x in st.body):
                    tr = [x for x in st.body if isinstance(x, ast.Try)][0]
                    k = st.body.index(tr)
                    st.body[k:k + 1] = tr.body
                    b[i] = ast.Try(body=[st], handlers=tr.handlers, orelse=[], finalbody=[])
                    return True
    return False


MUTANTS = [
    ("seeded C13-adv6: the CancelledError handler wraps the whole settle loop", _in(B + "._signal_closed", _handler_around_loop), "C13.settle-each"),
    ("_connect_future forgotten at close", _in(B + "._signal_closed", remove_stmts(lambda st: isinstance(st, ast.If) and _src(st.test) == "self._connect_future is not None")), "C13.drain-complete"),
    ("seeded C13-adv1: close keeps only write futures with index > done index", _in(B + "._signal_closed", replace_stmt(lambda st: isinstance(st, ast.AugAssign) and "_write_futures" in _src(st.value), lambda st: ast.parse("while self._write_futures:\n    index, future = self._write_futures.popleft()\n    if index > self._total_write_done_index:\n        futures.append(future)").body)), "C13.drain-complete"),
    ("close collects only unfinished write futures (filtering comprehension)", _in(B + "._signal_closed", replace_stmt(lambda st: isinstance(st, ast.AugAssign) and "_write_futures" in _src(st.value), lambda st: [parse_stmt("futures += [future for _, future in self._write_futures if not future.done()]")])), "C13.drain-complete"),
    ("write futures failed but not cleared", _in(B + "._signal_closed", remove_stmts(lambda st: isinstance(st, ast.Expr) and "_write_futures.clear" in _src(st))), "C13.drain-complete"),
    ("read future failed but left registered", _in(B + "._signal_closed", remove_stmts(lambda st: isinstance(st, ast.Assign) and _src(st) == "self._read_future = None")), "C13.drain-complete"),
    ("pending futures failed without the done() guard", _in(B + "._signal_closed", _unguard_settle), "C13.settle-guarded"),
    ("StreamClosedError loses the real error", _in(B + "._signal_closed", replace_expr(lambda n: isinstance(n, ast.Call) and _src(n.func) == "StreamClosedError" and n.keywords, lambda n: ast.Call(func=n.func, args=[], keywords=[]))), "C13.settle-guarded"),
    ("close callback scheduled without clearing", _in(B + "._signal_closed", remove_stmts(lambda st: isinstance(st, ast.Assign) and _src(st) == "self._close_callback = None")), "C13.close-callback"),
    ("close callback invoked synchronously", _in(B + "._signal_closed", replace_stmt(lambda st: isinstance(st, ast.Expr) and "add_callback(cb)" in _src(st), lambda st: [parse_stmt("cb()")])), "C13.close-callback"),
    ("close callback scheduled before the futures are failed", _in(B + "._signal_closed", _callback_before_futures), "C13.close-callback"),
    ("close() not idempotent", _in(B + ".close", _not_idempotent), "C13.close-idempotent"),
    ("close() forgets the closed flag", _in(B + ".close", remove_stmts(lambda st: isinstance(st, ast.Assign) and _src(st) == "self._closed = True")), "C13.close-idempotent"),
    ("close(exc_info=<exception>) does not record the error", _in(B + ".close", replace_stmt(lambda st: isinstance(st, ast.Assign) and _src(st) == "self.error = exc_info", lambda st: [ast.Pass()])), "C13.error-recorded"),
    ("connect future resolved without clearing the field", _in("IOStream._handle_connect", remove_stmts(lambda st: isinstance(st, ast.Assign) and _src(st) == "self._connect_future = None")), "C13.field-settle-tac"),
    ("write error closes the stream without recording the error", _in(B + "._handle_write", replace_expr(lambda n: isinstance(n, ast.Call) and _src(n) == "self.close(exc_info=e)", lambda n: parse_expr("self.close()"))), "C13.error-closes"),
    ("uncaught exception in the event handler leaves the stream open", _in(B + "._handle_events", lambda root: _drop_last_close(root)), "C13.error-closes"),
    ("_signal_closed only on the first close", _in(B + ".close", _signal_inside_if), "C13.close-signals"),
    ("pending read not completed from the buffer at close", _in(B + ".close", _drop_pending_read_check), "C13.close-completes-reads"),
    ("until-close read not finished at close", _in(B + ".close", remove_stmts(lambda st: isinstance(st, ast.Expr) and "_finish_read" in _src(st))), "C13.close-completes-reads"),
    ("write() on a closed stream is queued", _in(B + ".write", remove_stmts(lambda st: isinstance(st, ast.Expr) and "_check_closed" in _src(st))), "C13.closed-checks"),
    ("_add_io_state registers a handler after close", _in(B + "._add_io_state", remove_stmts(lambda st: isinstance(st, ast.If) and _src(st.test) == "self.closed()")), "C13.closed-checks"),
    ("_try_inline_read refuses buffered data after close", _in(B + "._try_inline_read", _check_closed_first), "C13.inline-read-check"),
    ("_try_inline_read reads from a closed fd", _in(B + "._try_inline_read", remove_stmts(lambda st: isinstance(st, ast.Expr) and "_check_closed" in _src(st))), "C13.inline-read-check"),
    ("_finish_read stays in caller-buffer mode", _in(B + "._finish_read", remove_stmts(lambda st: isinstance(st, ast.Assign) and _src(st) == "self._user_read_buffer = False")), "C13.read-end-mode"),
]
