"""C04 — server size limits bound what a peer can make the application buffer.

Decided statically (DESIGN.md §4 C04):

* bounded reads: every delimiter/regex read of http1connection.py passes
  ``max_bytes`` (header block: ``params.max_header_size``, never None), every
  data read is bounded by ``params.chunk_size``/the owed count; IOStream records
  the bound, ``_check_max_bytes`` enforces it on every position it returns, and
  an unsatisfiable read closes the stream;
* limit before delivery: the Content-Length comparison guards the fixed reader,
  the cumulative chunk-size comparison guards every chunk data read/delivery,
  the cumulative decompressed-size comparison (with a bounded ``decompress``)
  guards every forward of inflated data; comparisons are ``value > limit`` /
  ``value <= limit`` shapes (``>=`` would refuse a body of exactly the limit);
* fresh limit: the limit operand is the connection's live ``_max_body_size``
  (the field ``set_max_body_size`` writes), never ``params.max_body_size`` and
  never a by-value copy taken before ``headers_received``; the connection object
  (and with it the override) is per request;
* ``BaseIOStream._read_to_buffer`` checks the buffer size after every append,
  closes and raises;
* HTTPServer wires its limits into HTTP1ConnectionParameters unchanged.

Not decided: boundary arithmetic at run time (limit-1/limit/limit+1 as values),
cumulative sums over all chunk splits, zlib's own memory use.
"""
from __future__ import annotations

import ast

from .. import q
from ..model import AnalysisError
from ..rules import call_sites, require_before, node_calls
from ..mutate import mutate, remove_stmts, replace_expr, replace_stmt, parse_stmt, parse_expr
from ..x_http import norm_func, Flow, mk_evaluator, const_of, bound_args, module_consts, atom_edges, leads_to_raise, only_through, reach_without, node_mentions, single_bindings, canon_atom, contains, raised_class

TECHNIQUE = "branch-edge guard dominance (limit comparison before delivery) + who-reads-which-limit (fresh vs. by-value copy) + bounded-read lint"
EXPLANATION = (
    "For each body reader the comparison against the live connection limit must be the only way to reach the read/delivery of the bytes it "
    "admits (the over-limit branch edges are removed from the CFG and reachability recomputed); accumulators must be cumulative; every stream "
    "read must carry an explicit bound; the operand used as limit is traced to the field written by set_max_body_size; IOStream's buffer cap and "
    "max_bytes enforcement are checked by dominance."
)
NOT_DECIDED = "exact boundary values at run time and sums over arbitrary chunk splits; memory used inside zlib; limits of other protocol layers (websocket: C14/C15)"

H1 = "tornado/http1connection.py"
IO = "tornado/iostream.py"
HS = "tornado/httpserver.py"


def _uncast(e):
    while isinstance(e, ast.Call) and q.call_attr(e) == "cast" and len(e.args) == 2:
        e = e.args[1]
    return e


def _F(ck, rel, qn):
    """the anchored function with private single-purpose helpers inlined (same qualified name)"""
    return norm_func(ck.repo, ck.func(rel, qn))


def _x(f, e):
    """``e`` with local aliases of ``f`` resolved through unique reaching definitions (None stays None)"""
    if e is None:
        return None
    try:
        return Flow(f).expand(e)
    except AnalysisError:
        return e


def limit_pred(value_is, limit_is):
    """pred for atom_edges: truth value of the atom on which ``value <= limit`` is known."""
    def pred(a):
        if not (isinstance(a, ast.Compare) and len(a.ops) == 1):
            return None
        l, r, op = _uncast(a.left), _uncast(a.comparators[0]), a.ops[0]
        if value_is(l) and limit_is(r):
            if isinstance(op, ast.Gt):
                return False
            if isinstance(op, ast.LtE):
                return True
        if limit_is(l) and value_is(r):
            if isinstance(op, ast.Lt):
                return False
            if isinstance(op, ast.GtE):
                return True
        return None
    return pred


def any_cmp(value_is):
    """tests that compare the value with anything (used to tell 'wrong limit/operator' from 'no check')."""
    def f(a):
        return isinstance(a, ast.Compare) and len(a.ops) == 1 and isinstance(a.ops[0], (ast.Gt, ast.GtE, ast.Lt, ast.LtE)) and (value_is(_uncast(a.left)) or value_is(_uncast(a.comparators[0])))
    return f


def live_limit(ck):
    """The connection field written by set_max_body_size (derived, not assumed)."""
    f = _F(ck, H1, "HTTP1Connection.set_max_body_size")
    ps = [p for p in f.params() if p != "self"]
    tg = [p for st in q.walk_body(f.node) if isinstance(st, ast.Assign) and q.dotted(st.value) in ps for p in q.assigned_paths(st) if p.startswith("self.")]
    if len(tg) != 1:
        raise AnalysisError("set_max_body_size does not store its argument into exactly one field")
    return tg[0]


def _is_input_error(cls):
    return cls is not None and cls.split(".")[-1] == "HTTPInputError"


def _over_edges(cfg, pred):
    return atom_edges(cfg, lambda a: None if pred(a) is None else (not pred(a)))


def check_bounded_reads(ck):
    R = "C04.bounded-reads"
    m = ck.repo.module(H1)
    n = 0
    for f in m.funcs.values():
        for node, c in f.cfg.find(lambda x: isinstance(x, ast.Call) and isinstance(x.func, ast.Attribute) and x.func.attr in ("read_until_regex", "read_until", "read_bytes") and (q.dotted(x.func.value) or "").endswith("stream")):
            n += 1
            ck.use(f)
            kind = c.func.attr
            if kind in ("read_until_regex", "read_until"):
                mb = _x(f, q.kwarg(c, "max_bytes") or q.arg(c, 1))
                ok = mb is not None and not q.is_const(mb, None)
                ck.ob(R, f, c, ok, "%s passes an explicit max_bytes bound" % kind)
                if kind == "read_until_regex":
                    ck.ob(R, f, c, mb is not None and q.dotted(mb) == "self.params.max_header_size", "the header block is read within params.max_header_size")
                elif ok:
                    mbc = const_of(f, mb)
                    ck.ob(R, f, c, mbc is not None and type(mbc.value) is int and 0 < mbc.value <= 4096, "a protocol line (chunk size) is read within a small constant bound")
            else:
                sz = _x(f, q.arg(c, 0, "num_bytes"))
                szc = const_of(f, sz) if sz is not None else None
                okc = szc is not None and type(szc.value) is int and szc.value <= 65536
                okm = isinstance(sz, ast.Call) and isinstance(sz.func, ast.Name) and sz.func.id == "min" and any(q.dotted(_x(f, a)) == "self.params.chunk_size" or (const_of(f, a) is not None and type(const_of(f, a).value) is int) for a in sz.args)
                ck.ob(R, f, c, okc or okm, "read_bytes asks for at most params.chunk_size (or a constant) bytes at a time")
    ck.floor(R, n, 4, "stream reads in http1connection.py")
    p = _F(ck, H1, "HTTP1ConnectionParameters.__init__")
    for attr, floor in (("max_header_size", 1), ("chunk_size", 1)):
        sts = [st for st in q.walk_body(p.node) if isinstance(st, ast.Assign) and "self." + attr in q.assigned_paths(st)]
        ck.floor(R, len(sts), 1, "assignment of HTTP1ConnectionParameters.%s" % attr)
        for st in sts:
            v = st.value
            ok = isinstance(v, ast.BoolOp) and isinstance(v.op, ast.Or) and q.dotted(v.values[0]) == attr and isinstance(v.values[-1], ast.Constant) and type(v.values[-1].value) is int and v.values[-1].value > 0
            ck.ob(R, p, st, ok or (isinstance(v, ast.Constant) and type(v.value) is int), "params.%s is never None/0 (falls back to a positive default)" % attr)


def check_iostream(ck):
    # max_bytes is recorded, enforced and fatal
    R = "C04.max-bytes-enforced"
    for name in ("read_until_regex", "read_until"):
        f = _F(ck, IO, "BaseIOStream." + name)
        n = require_before(ck, R, f, node_calls("self._try_inline_read"),
                           lambda nd: nd.kind == "stmt" and isinstance(nd.ast, ast.Assign) and "self._read_max_bytes" in q.assigned_paths(nd.ast) and q.dotted(nd.ast.value) == "max_bytes",
                           "%s records max_bytes before it tries to satisfy the read" % name)
        ck.floor(R, n, 1, "_try_inline_read calls in %s" % name)
        hs = [h for t in q.walk_body(f.node) if isinstance(t, ast.Try) for h in t.handlers if any(nm.endswith("UnsatisfiableReadError") for nm in q.handler_names(h))]
        ck.floor(R, len(hs), 1, "UnsatisfiableReadError handlers in %s" % name)
        for h in hs:
            ck.ob(R, f, h, any(q.is_call(c, "self.close") for c in q.calls(h)), "an unsatisfiable read (limit exceeded) closes the stream", construct="except UnsatisfiableReadError in %s" % name)
    # _find_read_pos (with _check_max_bytes inlined), folded on concrete buffers: a position beyond max_bytes is never
    # returned, and a buffer that already exceeds max_bytes without a match is fatal
    import re as _re
    from ..x_absint import Evaluator, Obj, UNK
    fr = _F(ck, IO, "BaseIOStream._find_read_pos")
    cm = _F(ck, IO, "BaseIOStream._check_max_bytes")

    def fold(buf, mode, max_bytes):
        ev = mk_evaluator(fr)
        ev.inline = lambda d: cm.node if d == "self._check_max_bytes" else None
        me = Obj("self", _read_buffer=bytearray(buf), _read_buffer_size=len(buf), _read_bytes=None, _read_partial=False,
                 _read_delimiter=(b"\r\n" if mode == "delimiter" else None), _read_regex=(_re.compile(b"\r?\n\r?\n") if mode == "regex" else None),
                 _read_max_bytes=max_bytes)
        return ev.run(fr.node, {"self": me})

    n = 0
    for mode, term in (("delimiter", b"\r\n"), ("regex", b"\r\n\r\n")):
        cases = [
            (b"abcd" + term, 10, ("return", 4 + len(term))),          # found within the bound
            (b"abcdefgh" + term, 10, ("raise", None) if 8 + len(term) > 10 else ("return", 8 + len(term))),
            (b"abcdefghijkl" + term, 10, ("raise", None)),              # found, but beyond the bound
            (b"abcdefghijkl", 10, ("raise", None)),                     # not found and already beyond the bound
            (b"abcd", 10, ("return", None)),                            # not found yet, keep reading
            (b"", 10, ("return", None)),
            (b"abcdefghijkl" + term, None, ("return", 12 + len(term))), # unbounded read
        ]
        for buf, mb, want in cases:
            outs = fold(buf, mode, mb)
            if not outs:
                raise AnalysisError("_find_read_pos: no outcome")
            for o in outs:
                n += 1
                if o.kind == "return" and o.value is UNK:
                    raise AnalysisError("_find_read_pos: result not decidable by folding (%s, %d buffered bytes)" % (mode, len(buf)))
                got = ("raise", None) if o.kind == "raise" else ("return", o.value if o.kind == "return" else None)
                okc = got == want and (o.kind != "raise" or (o.value or "").endswith("UnsatisfiableReadError"))
                ck.ob(R, fr, fr.node, okc, "%s read, %d bytes buffered, max_bytes=%r: %s (got %s%s)" % (
                    mode, len(buf), mb, "UnsatisfiableReadError" if want[0] == "raise" else ("position %r" % (want[1],)), got[0], "" if o.kind == "raise" else " %r" % (got[1],)),
                    construct="_find_read_pos %s buffered=%d max=%r" % (mode, len(buf), mb))
    ck.floor(R, n, 14, "folded _find_read_pos outcomes")

    R = "C04.buffer-cap"
    f = _F(ck, IO, "BaseIOStream._read_to_buffer")
    from ..x_absint import Raised
    n = 0
    for before, got_bytes, cap, want in ((8, 2, 10, "return"), (8, 3, 10, "raise"), (0, 11, 10, "raise"), (0, 10, 10, "return"), (5, None, 10, "return0"), (5, 0, 10, "return0")):
        closed = []

        def fb(st, c, d, args, got_bytes=got_bytes, closed=closed):
            nm = q.call_attr(c)
            if nm == "read_from_fd":
                return got_bytes
            if d == "self.close":
                closed.append(True)
                return None
            if nm in ("bytearray", "memoryview"):
                return UNK
            return NotImplemented

        ev = mk_evaluator(f)
        ev.fallback = fb
        me = Obj("self", _read_buffer_size=before, max_buffer_size=cap, _user_read_buffer=False, read_chunk_size=4096, _read_buffer=UNK)
        outs = ev.run(f.node, {"self": me})
        if not outs:
            raise AnalysisError("_read_to_buffer: no outcome")
        for o in outs:
            n += 1
            size = o.state.env["self"].attrs.get("_read_buffer_size")
            tag = "%d bytes buffered, %r read, max_buffer_size %d" % (before, got_bytes, cap)
            if want == "raise":
                ck.ob(R, f, f.node, o.kind == "raise" and bool(closed), "%s: the stream is closed and an error raised (got %s%s)" % (tag, o.value if o.kind == "raise" else o.kind, "" if closed else ", stream not closed"), construct="_read_to_buffer %s" % tag)
            elif want == "return":
                ck.ob(R, f, f.node, o.kind == "return" and o.value == got_bytes and size == before + got_bytes, "%s: the bytes are accepted (got %s)" % (tag, o.value if o.kind != "raise" else "raise %s" % o.value), construct="_read_to_buffer %s" % tag)
            else:
                ck.ob(R, f, f.node, o.kind == "return" and o.value == 0 and size == before, "%s: nothing is buffered and 0 is returned (got %s)" % (tag, o.value), construct="_read_to_buffer %s" % tag)
    ck.floor(R, n, 6, "folded _read_to_buffer outcomes")


def check_content_length(ck, LIVE, R="C04.content-length-limit"):
    """_read_body folded on concrete Content-Length values around the live limit (c08.eval_read_body): the configured
    value and the stream's buffer size are set to decoys, so only a comparison with the live field can refuse."""
    from . import c08 as _c08
    if LIVE != "self._max_body_size":
        raise AnalysisError("the live body limit is no longer self._max_body_size: update the Content-Length scenarios")
    fi = _F(ck, H1, "HTTP1Connection._read_body")
    n = 0
    for is_client in (False, True):
        for cl, want in (("999", ("fixed", 999)), ("1000", ("fixed", 1000)), ("1001", "error"), ("0", ("fixed", 0)), ("99999", "error"), ("1000,1000", ("fixed", 1000)), ("1001, 1001", "error")):
            got = _c08.eval_read_body(ck, fi, 200, cl, None, limit=1000, is_client=is_client)
            n += 1
            if any(isinstance(g, tuple) and g and g[0] == "?" for g in got) or any(isinstance(g, str) and g.startswith("raise:") for g in got):
                raise AnalysisError("_read_body: outcome for Content-Length %s not decidable (%s)" % (cl, sorted(map(repr, got))))
            ck.ob(R, fi, fi.node, got == {want}, "Content-Length %s with a live limit of 1000 (%s): %s — got %s" % (
                cl, "client" if is_client else "server", "HTTPInputError before any body byte is read" if want == "error" else "fixed-length reader for %d bytes" % want[1], sorted(map(repr, got))),
                construct="Content-Length %s limit 1000 %s" % (cl, "client" if is_client else "server"))
    ck.floor(R, n, 10, "folded Content-Length outcomes")


# ---------------------------------------------------------------------------------------
# body readers decided by abstract interpretation on scripted streams (no tornado code is run: the function's AST
# is folded by vt.x_absint over stub objects; forms like `t = total + n; if t > limit; total = t` need no recogniser)


def _hex_hook(st, s=None, *a):
    from ..x_absint import UNK, Raised
    if not isinstance(s, str):
        return UNK
    if not s or any(ch not in "0123456789abcdefABCDEF" for ch in s):
        raise Raised("ValueError")
    return int(s, 16)


def _to_str_hook(st, b=None, *a):
    from ..x_absint import UNK, Raised
    if isinstance(b, str):
        return b
    if isinstance(b, (bytes, bytearray)):
        try:
            return bytes(b).decode("utf-8")
        except UnicodeDecodeError:
            raise Raised("UnicodeDecodeError")
    return UNK


def eval_chunked(ck, fi, sizes, limit, is_client=False, write_finished=False):
    """Fold _read_chunked_body on a scripted stream that sends chunks of the given sizes.  Returns a list of
    (kind, exception class, bytes delivered to the delegate, body bytes read from the stream) per path."""
    from ..x_absint import Evaluator, Obj, UNK, Raised
    from ..x_http import self_modsets
    ps = [p for p in fi.params() if p != "self"]
    script = [("%x\r\n" % n).encode() for n in sizes] + [b"0\r\n"]
    ms = self_modsets(ck.repo, H1, "HTTP1Connection")

    def stream_of(st):
        return st.env["self"].attrs["stream"]

    def read_until(st, *a):
        s_ = stream_of(st)
        i_ = s_.attrs["_pos"]
        if i_ >= len(script):
            raise Raised("iostream.StreamClosedError")
        s_.attrs["_pos"] = i_ + 1
        if s_.attrs["_owed"]:
            s_.attrs["_short"] = True  # a new size line is read although chunk data is still owed
        if i_ < len(sizes):
            s_.attrs["_owed"] = sizes[i_]
        return script[i_]

    def fb(st, c, d, args):
        nm = q.call_attr(c)
        from ..x_absint import call_value
        if nm == "read_bytes" and isinstance(call_value(st, args, 0, "num_bytes"), int):
            n = call_value(st, args, 0, "num_bytes")
            partial = any(k.arg == "partial" for k in c.keywords) or len(args) > 1
            s_ = stream_of(st)
            size_e = c.args[0] if c.args else q.kwarg(c, "num_bytes")
            if const_of(fi, size_e) is None:
                got = (n + 1) // 2 if partial else n  # a partial read returns fewer bytes than asked for
                owed = s_.attrs["_owed"]
                if n > owed:
                    s_.attrs["_over_request"] = True
                s_.attrs["_owed"] = max(0, owed - got)
                k_ = s_.attrs["_reads"] = s_.attrs["_reads"] + 1
                s_.attrs["_data_read"] = s_.attrs["_data_read"] + got
                data = bytes([65 + k_ % 26]) * got
                s_.attrs["_read_bytes"] = s_.attrs["_read_bytes"] + data
                return data
            return b"\r\n"[:n] if n <= 2 else UNK
        if nm == "read_until":
            return read_until(st)
        if nm == "data_received":
            a0 = args[0] if args else (list(st.last_kwargs.values())[0] if len(st.last_kwargs) == 1 else UNK)
            if isinstance(a0, (bytes, bytearray)):
                s_ = stream_of(st)
                s_.attrs["_delivered"] = s_.attrs["_delivered"] + len(a0)
                s_.attrs["_delivered_bytes"] = s_.attrs["_delivered_bytes"] + bytes(a0)
            return None
        return NotImplemented

    ev = mk_evaluator(fi, funcs={"parse_hex_int": _hex_hook, "native_str": _to_str_hook, "to_unicode": _to_str_hook}, modset=lambda d: ms.get(d.split(".")[1]))
    ev.signatures.update({"parse_hex_int": ["s"], "native_str": ["value"], "to_unicode": ["value"]})
    ev.fallback = fb
    ev.max_unroll = len(sizes) + 3
    stream = Obj("stream", _pos=0, _delivered=0, _data_read=0, _owed=0, _over_request=False, _short=False, _reads=0, _read_bytes=b"", _delivered_bytes=b"", max_buffer_size=10 ** 6)
    me = Obj("self", stream=stream, is_client=is_client, _write_finished=write_finished, _max_body_size=limit,
             params=Obj("params", chunk_size=4, max_body_size=10 ** 6))
    outs = ev.run(fi.node, dict({"self": me}, **{p: Obj("delegate") for p in ps}))
    res = []
    for o in outs:
        s_ = o.state.env["self"].attrs["stream"]
        res.append((o.kind, o.value if o.kind == "raise" else None, s_.attrs["_delivered"], s_.attrs["_data_read"]))
    eval_chunked.last_detail = [(o.state.env["self"].attrs["stream"].attrs["_over_request"], o.state.env["self"].attrs["stream"].attrs["_short"],
                                 o.state.env["self"].attrs["stream"].attrs["_read_bytes"], o.state.env["self"].attrs["stream"].attrs["_delivered_bytes"]) for o in outs]
    return res


CHUNK_SCENARIOS = [
    # (declared chunk sizes, limit, body admitted?)
    ((3, 2), 5, True),
    ((5,), 5, True),
    ((6,), 5, False),
    ((3, 3), 5, False),
    ((2, 2, 2), 5, False),
    ((4, 1, 1), 5, False),
    ((1, 1, 1, 1, 1), 5, True),
]


def check_chunked(ck, LIVE, R="C04.chunked-total-limit"):
    fi = _F(ck, H1, "HTTP1Connection._read_chunked_body")
    if LIVE != "self._max_body_size":
        raise AnalysisError("the live body limit is no longer self._max_body_size: update the chunked scenarios")
    n = 0
    for sizes, limit, admitted in CHUNK_SCENARIOS:
        for is_client in (False, True):
            outs = eval_chunked(ck, fi, sizes, limit, is_client)
            if not outs:
                raise AnalysisError("_read_chunked_body: no outcome for chunk sizes %r" % (sizes,))
            for kind, exc, delivered, data_read in outs:
                n += 1
                tag = "chunk sizes %s, limit %d" % ("+".join(map(str, sizes)), limit)
                if kind == "raise" and exc is not None and not _is_input_error(exc) and admitted:
                    raise AnalysisError("_read_chunked_body: unexpected %s while folding %s" % (exc, tag))
                if admitted:
                    ck.ob(R, fi, fi.node, kind != "raise" and delivered == sum(sizes), "a chunked body within the live limit is delivered completely [%s -> %s, %d bytes delivered]" % (tag, kind if kind != "raise" else exc, delivered), construct="chunked %s limit=%d admitted" % (sizes, limit))
                else:
                    ok_prefix = 0
                    tot = 0
                    for sz in sizes:
                        if tot + sz > limit:
                            break
                        tot += sz
                        ok_prefix = tot
                    ck.ob(R, fi, fi.node, kind == "raise" and _is_input_error(exc), "a chunked body whose declared sizes add up to more than the live limit raises HTTPInputError [%s -> %s]" % (tag, exc if kind == "raise" else kind), construct="chunked %s limit=%d refused" % (sizes, limit))
                    ck.ob(R, fi, fi.node, data_read <= ok_prefix and delivered <= limit, "no data of the chunk that crosses the limit is read or delivered (the cumulative size is compared first) [%s: %d body bytes read, %d delivered]" % (tag, data_read, delivered), construct="chunked %s limit=%d nothing past the limit" % (sizes, limit))
    ck.floor(R, n, 14, "evaluated chunked-body outcomes")


def eval_gzip(ck, fi, chunk_len, start_total, limit_setup, chunk_size=8, ratio=4, decompressor=True, member_end=False):
    """Fold _GzipMessageDelegate.data_received with a stub decompressor whose input bytes inflate ``ratio``-fold.
    ``limit_setup(self_obj, evaluator)`` installs the limit.  Returns [(kind, exc, forwarded sizes, max_length args)]."""
    from ..x_absint import Evaluator, Obj, UNK, Raised
    ps = [p for p in fi.params() if p != "self"]

    def fb(st, c, d, args):
        nm = q.call_attr(c)
        from ..x_absint import call_value
        if nm == "decompress" and isinstance(call_value(st, args, 0, "value"), (bytes, bytearray)):
            recv = ev.ev(c.func.value, st)
            data = bytes(call_value(st, args, 0, "value"))
            ml = call_value(st, args, 1, "max_length", None)
            me_ = st.env["self"]
            me_.attrs["_ml_args"] = me_.attrs["_ml_args"] + [ml]
            produce = ratio * len(data)
            if isinstance(ml, int) and ml > 0:
                produce = min(ml, produce)
            consumed = -(-produce // ratio)
            if isinstance(recv, Obj):
                recv.attrs["unconsumed_tail"] = data[consumed:]
            return b"y" * produce
        if nm == "data_received":
            me_ = st.env["self"]
            a0 = args[0] if args else (list(st.last_kwargs.values())[0] if len(st.last_kwargs) == 1 else None)
            me_.attrs["_forwarded"] = me_.attrs["_forwarded"] + [len(a0) if isinstance(a0, (bytes, bytearray)) else None]
            return None
        return NotImplemented

    def new_dec(eof=False):
        # zlib-level view as well (decompressobj.eof / unused_data), for code that looks at gzip member boundaries
        return Obj("decompressor", unconsumed_tail=b"", decompressobj=Obj("zobj", eof=eof, unused_data=b"", unconsumed_tail=b""), eof=eof, unused_data=b"")

    ev = mk_evaluator(fi, funcs={"GzipDecompressor": lambda st, *a: new_dec()})
    ev.fallback = fb
    ev.max_unroll = chunk_len * ratio // chunk_size + 4

    def inline(d):
        name = d.split(".")[1]
        if name in ("data_received", "headers_received", "finish", "on_connection_close") or not ck.repo.has_func(H1, "_GzipMessageDelegate." + name):
            return None
        f = norm_func(ck.repo, ck.repo.func(H1, "_GzipMessageDelegate." + name))
        return None if isinstance(f.node, ast.AsyncFunctionDef) else f.node

    ev.inline = inline
    dec = new_dec(eof=member_end) if decompressor else None
    me = Obj("self", _delegate=Obj("inner"), _chunk_size=chunk_size, _decompressed_body_size=start_total, _decompressor=dec, _forwarded=[], _ml_args=[])
    limit_setup(me, ev)
    outs = ev.run(fi.node, {"self": me, ps[0]: b"z" * chunk_len})
    res = []
    for o in outs:
        a = o.state.env["self"].attrs
        res.append((o.kind, o.value if o.kind == "raise" else None, list(a["_forwarded"]), list(a["_ml_args"]), a.get("_decompressed_body_size")))
    return res


def _gzip_limit_forms(ck, init):
    """candidate ways the delegate can hold its limit, derived from the constructor: for every field initialised from a
    constructor parameter: the number itself, an object carrying the live field, or a callable returning it"""
    from ..x_absint import Obj
    ps = [p for p in init.params() if p != "self"]
    forms = []
    live_attr = "_max_body_size"
    for st in q.walk_body(init.node):
        if isinstance(st, (ast.Assign, ast.AnnAssign)) and st.value is not None and q.dotted(st.value) in ps:
            for path in q.assigned_paths(st):
                if path.startswith("self.") and path.count(".") == 1:
                    A = path.split(".")[1]
                    forms.append(("self.%s" % A, lambda me, ev, L, A=A: me.attrs.__setitem__(A, L)))
                    forms.append(("self.%s.%s" % (A, live_attr), lambda me, ev, L, A=A: me.attrs.__setitem__(A, Obj("connection", **{live_attr: L}))))
                    forms.append(("self.%s()" % A, lambda me, ev, L, A=A: ev.funcs.__setitem__("self.%s" % A, (lambda st_, *a_: L))))
    return forms


def check_gzip(ck, LIVE, R="C04.decompressed-limit"):
    fi = _F(ck, H1, "_GzipMessageDelegate.data_received")
    init = _F(ck, H1, "_GzipMessageDelegate.__init__")
    forms = _gzip_limit_forms(ck, init)
    if not forms:
        raise AnalysisError("_GzipMessageDelegate.__init__ keeps none of its constructor arguments")

    def setup(form, L):
        def f(me, ev):
            # every other candidate field gets a harmless large value so that only ``form`` can act as the limit
            for name, inst in forms:
                if name != form[0] and name.count(".") == 1 and not name.endswith("()") and name.split(".")[1] not in ("_delegate", "_chunk_size"):
                    me.attrs.setdefault(name.split(".")[1], 10 ** 6)
            if not (form[0] == "self._chunk_size" or form[0].startswith("self._delegate")):
                form[1](me, ev, L)
        return f

    # which field is the limit?  the one whose value decides whether 12 inflated bytes are refused
    acting = []
    for form in forms:
        if form[0].split(".")[1].rstrip("()") in ("_delegate", "_chunk_size"):
            continue
        try:
            small = eval_gzip(ck, fi, 3, 0, setup(form, 10))
            large = eval_gzip(ck, fi, 3, 0, setup(form, 10 ** 5))
        except AnalysisError:
            continue
        if small and large and all(k == "raise" and _is_input_error(e) for k, e, *_ in small) and all(k != "raise" for k, e, *_ in large):
            acting.append(form)
    if not acting:
        # no constructor-held value bounds the inflated size: with every candidate at 10 the 12 inflated bytes pass
        probe = eval_gzip(ck, fi, 3, 0, lambda me, ev: [f[1](me, ev, 10) for f in forms if f[0].split(".")[1].rstrip("()") not in ("_delegate", "_chunk_size") and f[0].count(".") == 1 and not f[0].endswith("()")])
        if probe and all(k != "raise" for k, *_ in probe) and all(None not in fw for _k, _e, fw, *_ in probe):
            ck.ob(R, fi, fi.node, False, "decompressed data is forwarded only while the cumulative decompressed size is within the limit (12 inflated bytes pass with every limit field at 10)", construct="gzip: no limit applied")
            return None
        raise AnalysisError("_GzipMessageDelegate.data_received: cannot identify how the size limit is held")
    form = acting[0]
    SC = [
        # (compressed bytes, total before, limit, pieces forwarded, refused?)
        (2, 0, 10, [8], False),
        (3, 0, 10, [8], True),          # second piece (4) would make 12
        (1, 8, 10, [], True),           # cumulative across calls
        (2, 2, 10, [8], False),         # exactly the limit
        (4, 0, 100, [8, 8], False),     # drained completely through unconsumed_tail
    ]
    n = 0
    scen = [x + (False,) for x in SC] + [x + (True,) for x in SC if x[1] > 0]
    for clen, start, L, want_fw, refused, member_end in scen:
        outs = eval_gzip(ck, fi, clen, start, setup(form, L), member_end=member_end)
        if not outs:
            raise AnalysisError("gzip data_received: no outcome")
        for kind, exc, fw, mls, total in outs:
            n += 1
            tag = "%d compressed bytes (x4), %d inflated before%s, limit %d" % (clen, start, " (previous gzip member just ended)" if member_end else "", L)
            if None in fw:
                raise AnalysisError("gzip data_received: forwarded data not decidable")
            if refused:
                ck.ob(R, fi, fi.node, kind == "raise" and _is_input_error(exc), "a body that inflates above the limit raises HTTPInputError [%s -> %s]" % (tag, exc if kind == "raise" else kind), construct="gzip %s refused" % tag)
                ck.ob(R, fi, fi.node, fw == want_fw, "only the pieces within the cumulative limit are forwarded, the crossing piece is not [%s: forwarded %s]" % (tag, fw), construct="gzip %s forwarded" % tag)
            else:
                ck.ob(R, fi, fi.node, kind != "raise" and fw == want_fw, "inflated data within the cumulative limit is forwarded completely, piece by piece [%s: %s, forwarded %s]" % (tag, kind if kind != "raise" else exc, fw), construct="gzip %s admitted" % tag)
            ck.ob(R, fi, fi.node, bool(mls) and all(isinstance(m, int) and 0 < m <= 8 for m in mls), "decompress() is called with a positive max_length (the configured chunk size): a gzip bomb is inflated piecewise [%s]" % tag, construct="gzip bounded decompress")
    # identity content
    outs = eval_gzip(ck, fi, 5, 0, setup(form, 10), decompressor=False)
    for kind, exc, fw, mls, total in outs:
        ck.ob(R, fi, fi.node, kind != "raise" and fw == [5] and not mls, "without a decompressor the chunk is forwarded unchanged and nothing is inflated [forwarded %s]" % fw, construct="gzip identity pass-through")
    ck.floor(R, n, 5, "evaluated gzip outcomes")
    for st in q.walk_body(init.node):
        if isinstance(st, (ast.Assign, ast.AnnAssign)) and "self._decompressed_body_size" in q.assigned_paths(st):
            ck.ob(R, init, st, isinstance(st.value, ast.Constant) and st.value.value == 0, "the decompressed total starts at 0")
    # finish(): whatever the decompressor still holds is either an error or goes through the same accounting
    gfin = _F(ck, H1, "_GzipMessageDelegate.finish")
    from ..x_absint import Obj as _Obj, UNK as _UNK
    for start, tail_len, L in ((8, 4, 10), (2, 4, 10), (0, 11, 10), (10, 1, 10)):
        fwd = []

        def fb(st, c, d, args, tail_len=tail_len, fwd=fwd):
            nm = q.call_attr(c)
            if nm == "flush":
                return b"t" * tail_len
            if nm == "data_received":
                a0 = args[0] if args else (list(st.last_kwargs.values())[0] if len(st.last_kwargs) == 1 else None)
                me_ = st.env["self"]
                me_.attrs["_forwarded"] = me_.attrs["_forwarded"] + [len(a0) if isinstance(a0, (bytes, bytearray)) else None]
                return None
            if nm == "finish" and d is not None and d.startswith("self."):
                return None
            return NotImplemented

        ev = mk_evaluator(gfin)
        ev.fallback = fb

        def inline(d):
            name = d.split(".")[1]
            if name in ("data_received", "headers_received", "finish", "on_connection_close") or not ck.repo.has_func(H1, "_GzipMessageDelegate." + name):
                return None
            f_ = norm_func(ck.repo, ck.repo.func(H1, "_GzipMessageDelegate." + name))
            return None if isinstance(f_.node, ast.AsyncFunctionDef) else f_.node

        ev.inline = inline
        me = _Obj("self", _delegate=_Obj("inner"), _chunk_size=8, _decompressed_body_size=start, _decompressor=_Obj("decompressor"), _forwarded=[], _ml_args=[])
        setup(form, L)(me, ev)
        outs = ev.run(gfin.node, {"self": me})
        if not outs:
            raise AnalysisError("_GzipMessageDelegate.finish: no outcome")
        for o in outs:
            a = o.state.env["self"].attrs
            fw = a["_forwarded"]
            if None in fw:
                raise AnalysisError("_GzipMessageDelegate.finish: forwarded data not decidable")
            total = a.get("_decompressed_body_size", _UNK)
            tag = "%d bytes left in the decompressor at finish(), %d inflated before, limit %d" % (tail_len, start, L)
            if not fw:
                ck.ob(R, gfin, gfin.node, True, "nothing is handed to the delegate outside the size accounting [%s: %s]" % (tag, "raise " + str(o.value) if o.kind == "raise" else "dropped"), construct="gzip finish tail %d/%d/%d" % (start, tail_len, L))
                continue
            ok = sum(fw) == tail_len and total is not _UNK and total == start + tail_len and start + tail_len <= L
            ck.ob(R, gfin, gfin.node, ok, "every byte handed to the delegate passes the size accounting, also a tail delivered by finish() [%s: forwarded %s, total %r]" % (tag, fw, total), construct="gzip finish tail %d/%d/%d" % (start, tail_len, L))

    # who may reset the running total: nothing that runs while body data is being received
    methods = {f.name: f for f in ck.repo.direct_methods(H1, "_GzipMessageDelegate")}
    calls = {nm: {q.dotted(c.func).split(".")[1] for c in q.calls(f.node) if (q.dotted(c.func) or "").startswith("self.") and (q.dotted(c.func) or "").count(".") == 1} for nm, f in methods.items()}
    reach_dr = set()
    work = ["data_received"]
    while work:
        x = work.pop()
        for y in calls.get(x, ()):
            if y in methods and y not in reach_dr:
                reach_dr.add(y)
                work.append(y)
    for nm in sorted(reach_dr):
        for st in q.walk_body(methods[nm].node):
            if isinstance(st, (ast.Assign, ast.AnnAssign)) and st.value is not None and isinstance(st.value, ast.Constant) and any(p.startswith("self.") and "size" in p for p in q.assigned_paths(st)) and "self._decompressed_body_size" in q.assigned_paths(st):
                ck.ob(R, methods[nm], st, False, "the cumulative decompressed size is not reset by anything data_received() calls (the limit is per message, not per gzip member / piece)")
    return {form[0]}


def check_fresh_limit(ck, LIVE, gz_limits):
    """The limit operand of the gzip comparison must read the connection's live field at use time."""
    R = "C04.fresh-limit"
    repo = ck.repo
    init = _F(ck, H1, "_GzipMessageDelegate.__init__")
    init_ps = [p for p in init.params() if p != "self"]
    live_attr = LIVE.split(".", 1)[1]
    # construction sites of the gzip delegate inside HTTP1Connection
    sites = []
    rr_norm = _F(ck, H1, "HTTP1Connection.read_response")
    for c in q.calls(rr_norm.node):
        if q.call_attr(c) == "_GzipMessageDelegate" and isinstance(c.func, ast.Name):
            sites.append((rr_norm, c))
    if not sites:
        for f in repo.methods(H1, "HTTP1Connection"):
            for c in q.calls(f.node):
                if q.call_attr(c) == "_GzipMessageDelegate" and isinstance(c.func, ast.Name):
                    sites.append((f, c))
    ck.floor(R, len(sites), 1, "_GzipMessageDelegate construction sites")

    def arg_for(c, pname):
        i = init_ps.index(pname)
        return q.arg(c, i, pname)

    for lim in sorted(gz_limits or ()):
        e = ast.parse(lim, mode="eval").body
        d = q.dotted(e)
        if d is None and isinstance(e, ast.Call) and not e.args and q.dotted(e.func):
            # self.<f>() : a callable handed over at construction
            fld = q.dotted(e.func)
            src = _field_source(init, fld)
            for f, c in sites:
                a = arg_for(c, src) if src in init_ps else None
                ok = isinstance(a, ast.Lambda) and q.dotted(a.body) == LIVE
                ck.ob(R, f, c, ok, "the gzip limit is read through a callable returning the connection's live %s" % LIVE)
            continue
        if d is None or not d.startswith("self."):
            raise AnalysisError("gzip size limit operand of unknown shape: %s" % lim)
        parts = d.split(".")
        if len(parts) == 3 and parts[2] == live_attr:
            # self.<conn>.<live field>
            src = _field_source(init, "self." + parts[1])
            for f, c in sites:
                a = arg_for(c, src) if src in init_ps else None
                ck.ob(R, f, c, a is not None and q.dotted(a) == "self", "the gzip delegate reads the limit from the connection object it was given")
            continue
        if len(parts) == 2:
            src = _field_source(init, d)
            others = [(g, st) for g in repo.methods(H1, "_GzipMessageDelegate") if g is not init for st in q.stores_to(g.node, d)]
            for f, c in sites:
                a = arg_for(c, src) if src in init_ps else None
                if a is None:
                    raise AnalysisError("cannot relate gzip limit field %s to a constructor argument at %s" % (d, f.site(c)))
                by_value = q.dotted(a) in (LIVE, "self.params.max_body_size") or isinstance(a, ast.Constant)
                refreshed = bool(others) and any(q.dotted(x.func) == "self._delegate.%s" % g.name or q.call_attr(x) == g.name for g, _st in others for ff in repo.methods(H1, "HTTP1Connection") if ff.name == "set_max_body_size" for x in q.calls(ff.node))
                ck.ob(R, f, c, (not by_value) or refreshed,
                      "the decompressed-size limit is not a by-value copy of %s taken before headers_received (set_max_body_size later changes only the connection's field)" % LIVE)
            continue
        raise AnalysisError("gzip size limit operand of unknown shape: %s" % lim)

    # the connection (and the override) is per request
    R2 = "C04.fresh-limit"
    loop = _F(ck, H1, "HTTP1ServerConnection._server_request_loop")
    pm = q.parent_map(loop.node)
    ctor = [c for c in q.calls(loop.node) if q.call_attr(c) == "HTTP1Connection"]
    ck.floor(R2, len(ctor), 1, "HTTP1Connection constructions in the serving loop")
    for c in ctor:
        ck.ob(R2, loop, c, any(isinstance(a, ast.While) for a in q.ancestors(pm, c)), "a fresh HTTP1Connection (hence a fresh body limit) is created for every request; a per-request override cannot leak")
    check_limit_init(ck, LIVE, R2)
    # nobody compares body sizes with the stale configuration value
    n = 0
    for f in repo.module(H1).funcs.values():
        for x in q.walk_body(f.node):
            if isinstance(x, ast.Compare) and any(q.dotted(_uncast(s)) == "self.params.max_body_size" for s in [x.left] + x.comparators) and not all(isinstance(o, (ast.Is, ast.IsNot)) for o in x.ops):
                ck.ob(R2, f, x, False, "body sizes are compared with the live %s, not with params.max_body_size (which ignores set_max_body_size)" % LIVE)
            n += 1
    return None


def check_limit_init(ck, LIVE, R):
    """HTTP1Connection.__init__ by abstract interpretation: the live limit is params.max_body_size whenever that is not
    None (0 is a legal limit: no truthiness fallback), else the stream's max_buffer_size."""
    from ..x_absint import Evaluator, Obj, UNK
    from ..x_http import self_modsets
    ci = _F(ck, H1, "HTTP1Connection.__init__")
    ps = [p for p in ci.params() if p != "self"]
    if len(ps) < 3:
        raise AnalysisError("HTTP1Connection.__init__: expected (stream, is_client, params, ...)")
    ms = self_modsets(ck.repo, H1, "HTTP1Connection")
    attr = LIVE.split(".", 1)[1]
    for configured in (None, 0, 500):
        ev = mk_evaluator(ci, modset=lambda d: ms.get(d.split(".")[1]))
        env = {"self": Obj("self"), ps[0]: Obj("stream", max_buffer_size=9999), ps[1]: False,
               ps[2]: Obj("params", max_body_size=configured, body_timeout=None, no_keep_alive=False, max_header_size=65536, chunk_size=65536, header_timeout=None, decompress=False)}
        for p in ps[3:]:
            env[p] = None
        outs = [o for o in ev.run(ci.node, env) if o.kind != "raise"]
        if not outs:
            raise AnalysisError("HTTP1Connection.__init__ has no normal outcome")
        for o in outs:
            got = o.state.env["self"].attrs.get(attr, UNK)
            if got is UNK:
                raise AnalysisError("HTTP1Connection.__init__: initial %s not decidable by constant folding" % LIVE)
            want = 9999 if configured is None else configured
            ck.ob(R, ci, ci.node, got == want, "the connection's body limit starts as params.max_body_size whenever that is not None (0 is a legal limit, not 'unset'), else the stream's max_buffer_size [configured=%r -> %r]" % (configured, got),
                  construct="initial body limit for max_body_size=%r" % (configured,))


def _field_source(init, field):
    """constructor parameter from which ``field`` (``self.x``) is initialised"""
    ps = [p for p in init.params() if p != "self"]
    for st in q.walk_body(init.node):
        if isinstance(st, (ast.Assign, ast.AnnAssign)) and field in q.assigned_paths(st) and st.value is not None and q.dotted(st.value) in ps:
            return q.dotted(st.value)
    raise AnalysisError("%s is not initialised from a constructor parameter of %s" % (field, init.qualname))


def check_wiring(ck):
    R = "C04.params-wired"
    fi = _F(ck, HS, "HTTPServer.initialize")
    calls = [c for c in q.calls(fi.node) if q.call_attr(c) == "HTTP1ConnectionParameters"]
    ck.floor(R, len(calls), 1, "HTTP1ConnectionParameters constructions in HTTPServer.initialize")
    want = {"max_header_size": "max_header_size", "max_body_size": "max_body_size", "chunk_size": "chunk_size", "decompress": "decompress_request"}
    for c in calls:
        for k, src in want.items():
            b_ = bound_args(ck.repo, fi, c)
            if b_ is None:
                raise AnalysisError("HTTPServer.initialize: arguments of HTTP1ConnectionParameters(...) not decidable")
            v = _x(fi, b_.get(k))
            ck.ob(R, fi, c, v is not None and q.dotted(v) == src, "HTTPServer passes its %s as HTTP1ConnectionParameters.%s" % (src, k), construct="%s=%s" % (k, src))
    tcp = [c for c in q.calls(fi.node) if q.dotted(c.func) == "TCPServer.__init__"]
    ck.floor(R, len(tcp), 1, "TCPServer.__init__ calls in HTTPServer.initialize")
    for c in tcp:
        v = _x(fi, q.kwarg(c, "max_buffer_size"))
        ck.ob(R, fi, c, v is not None and q.dotted(v) == "max_buffer_size", "HTTPServer passes its max_buffer_size to the stream factory (TCPServer)", construct="max_buffer_size=max_buffer_size")
    hs = _F(ck, HS, "HTTPServer.handle_stream")
    cc = [c for c in q.calls(hs.node) if q.call_attr(c) == "HTTP1ServerConnection"]
    ck.floor(R, len(cc), 1, "HTTP1ServerConnection constructions")
    for c in cc:
        ck.ob(R, hs, c, any(q.dotted(a) == "self.conn_params" for a in list(c.args) + [k.value for k in c.keywords]), "every accepted connection uses the server's configured limits")
    p = _F(ck, H1, "HTTP1ConnectionParameters.__init__")
    for attr in ("max_body_size",):
        sts = q.stores_to(p.node, "self." + attr)
        ck.floor(R, len(sts), 1, "assignment of params.%s" % attr)
        for st in sts:
            ck.ob(R, p, st, q.dotted(st.value) == attr, "params.%s stores the configured value unchanged" % attr)
    lp = _F(ck, H1, "HTTP1ServerConnection._server_request_loop")
    for c in [c for c in q.calls(lp.node) if q.call_attr(c) == "HTTP1Connection"]:
        ck.ob(R, lp, c, any(q.dotted(a) == "self.params" for a in list(c.args) + [k.value for k in c.keywords]), "each request connection is created with the configured parameters")
    rr = _F(ck, H1, "HTTP1Connection.read_response")
    wraps = [n for n, c in rr.cfg.find(lambda x: isinstance(x, ast.Call) and q.call_attr(x) == "_GzipMessageDelegate")]
    dec = atom_edges(rr.cfg, lambda a: True if q.dotted(a) == "self.params.decompress" else None)
    nod = atom_edges(rr.cfg, lambda a: False if q.dotted(a) == "self.params.decompress" else None)
    ck.floor(R, len(wraps), 1, "gzip wrapping sites in read_response")
    reads = [n for n, c in rr.cfg.find(lambda x: isinstance(x, ast.Call) and q.call_attr(x) == "_read_message")]
    wrap_ids = {n.id for n in wraps}
    for n in reads:
        r = reach_without(rr.cfg, nod, stop=lambda x: x.id in wrap_ids)
        ck.ob(R, rr, n.ast, n.id not in r, "with decompress on, the message is read through the size-limiting gzip delegate")


def run(ck):
    from ..x_http import GuardedCheck
    ck = GuardedCheck(ck)
    ck.rule("C04.bounded-reads", "every stream read in http1connection.py carries an explicit bound; the header block is read within params.max_header_size")
    ck.rule("C04.max-bytes-enforced", "IOStream records max_bytes, _check_max_bytes enforces it on every delimiter/regex position and on the not-found path, and an unsatisfiable read closes the stream")
    ck.rule("C04.buffer-cap", "_read_to_buffer: after every append the buffer size is compared with max_buffer_size; over the cap it closes and raises")
    ck.rule("C04.content-length-limit", "the fixed-length reader runs only after Content-Length <= the live body limit; above it HTTPInputError")
    ck.rule("C04.chunked-total-limit", "chunk data is read/delivered only after the cumulative declared size <= the live body limit; above it HTTPInputError")
    ck.rule("C04.decompressed-limit", "inflated data is forwarded only after the cumulative decompressed size <= limit; decompress is bounded; above it HTTPInputError")
    ck.rule("C04.body-byte-count", "no more bytes are read and delivered than the admitted length: data reads are bounded by, and decrement by exactly len(received), the owed count")
    ck.rule("C04.fresh-limit", "limits are read from the connection's live field (written by set_max_body_size) at use time: no by-value copy taken before headers_received, no params.max_body_size comparisons, one connection per request")
    ck.rule("C04.params-wired", "HTTPServer's max_header_size/max_body_size/chunk_size/decompress_request reach HTTP1ConnectionParameters and every connection unchanged")
    LIVE = live_limit(ck)
    check_bounded_reads(ck)
    check_iostream(ck)
    check_content_length(ck, LIVE)
    check_chunked(ck, LIVE)
    gz = check_gzip(ck, LIVE)
    from . import c01 as _c01
    _c01.init_modules(ck)
    _c01.check_counted_reads(ck, _F(ck, H1, "HTTP1Connection._read_fixed_body"), set(), RP="C04")
    lens = {st.targets[0].id for st in q.walk_body(_F(ck, H1, "HTTP1Connection._read_chunked_body").node) if isinstance(st, ast.Assign) and isinstance(st.targets[0], ast.Name) and isinstance(st.value, ast.Call) and q.call_attr(st.value) in ("parse_hex_int", "int")}
    _c01.check_counted_reads(ck, _F(ck, H1, "HTTP1Connection._read_chunked_body"), lens, RP="C04")
    check_fresh_limit(ck, LIVE, gz)
    check_wiring(ck)



def _drop_close_in_cap(root):
    for node in ast.walk(root):
        if isinstance(node, ast.If) and "max_buffer_size" in ast.unparse(node.test):
            node.body = [st for st in node.body if ast.unparse(st) != "self.close()"]
            return True
    return False


def _hoist_conn(root):
    for node in ast.walk(root):
        if isinstance(node, ast.Try):
            for i, st in enumerate(node.body):
                if isinstance(st, ast.While):
                    for j, s2 in enumerate(st.body):
                        if isinstance(s2, ast.Assign) and "HTTP1Connection(" in ast.unparse(s2):
                            node.body.insert(i, st.body.pop(j))
                            return True
    return False


def _dec_under_if(root):
    """move `bytes_to_read -= len(chunk)` under the delivery condition"""
    for node in ast.walk(root):
        if isinstance(node, ast.While):
            for i, st in enumerate(node.body):
                if isinstance(st, ast.AugAssign) and isinstance(st.op, ast.Sub) and i + 1 < len(node.body) and isinstance(node.body[i + 1], ast.If):
                    node.body[i + 1].body.insert(0, node.body.pop(i))
                    return True
    return False


def _m(rel, qn, edit):
    return lambda repo: mutate(repo, rel, qn, edit)


def _u(n):
    return ast.unparse(n)


def _if_raise(test_contains):
    return lambda st: isinstance(st, ast.If) and test_contains in _u(st.test) and any(isinstance(x, ast.Raise) for x in st.body)


def _drop_kw(call_attr, kw):
    def pred(n):
        return isinstance(n, ast.Call) and q.call_attr(n) == call_attr and any(k.arg == kw for k in n.keywords)

    def new(n):
        n.keywords = [k for k in n.keywords if k.arg != kw]
        return n
    return replace_expr(pred, new)


def _move_check_after_data(root):
    """chunked reader: move the `total_size > limit` check to the end of the per-chunk loop body (after the data was read)"""
    for node in ast.walk(root):
        if isinstance(node, ast.While):
            for i, st in enumerate(node.body):
                if isinstance(st, ast.If) and "total_size" in _u(st.test):
                    node.body.append(node.body.pop(i))
                    return True
    return False


def _move_gzip_check_after_forward(root):
    for node in ast.walk(root):
        if isinstance(node, ast.If) and _u(node.test) == "decompressed":
            for i, st in enumerate(node.body):
                if isinstance(st, ast.If) and "_max_body_size" in _u(st.test):
                    node.body.append(node.body.pop(i))
                    return True
    return False


RCB = "HTTP1Connection._read_chunked_body"
GZ = "_GzipMessageDelegate.data_received"
MUTANTS = [
    ("header read without max_bytes", _m(H1, "HTTP1Connection._read_message", _drop_kw("read_until_regex", "max_bytes")), "C04.bounded-reads"),
    ("header read bounded by max_body_size instead of max_header_size", _m(H1, "HTTP1Connection._read_message", replace_expr(lambda n: isinstance(n, ast.Attribute) and _u(n) == "self.params.max_header_size", lambda n: parse_expr("self._max_body_size"))), "C04.bounded-reads"),
    ("chunk-size line read without max_bytes", _m(H1, RCB, _drop_kw("read_until", "max_bytes")), "C04.bounded-reads"),
    ("fixed body read asks for the whole Content-Length at once", _m(H1, "HTTP1Connection._read_fixed_body", replace_expr(lambda n: isinstance(n, ast.Call) and _u(n.func) == "min", lambda n: parse_expr("content_length"))), "C04.bounded-reads"),
    ("max_header_size may be None (no fallback)", _m(H1, "HTTP1ConnectionParameters.__init__", replace_expr(lambda n: isinstance(n, ast.BoolOp) and "max_header_size" in _u(n), lambda n: parse_expr("max_header_size"))), "C04.bounded-reads"),
    ("Content-Length limit check removed", _m(H1, "HTTP1Connection._read_body", remove_stmts(_if_raise("_max_body_size"))), "C04.content-length-limit"),
    ("Content-Length compared with the configured (stale) limit", _m(H1, "HTTP1Connection._read_body", replace_expr(lambda n: isinstance(n, ast.Attribute) and _u(n) == "self._max_body_size", lambda n: parse_expr("self.params.max_body_size"))), ("C04.content-length-limit", "C04.fresh-limit")),
    ("Content-Length equal to the limit refused (>=)", _m(H1, "HTTP1Connection._read_body", replace_expr(lambda n: isinstance(n, ast.Compare) and "_max_body_size" in _u(n), lambda n: ast.Compare(left=n.left, ops=[ast.GtE()], comparators=n.comparators))), "C04.content-length-limit"),
    ("Content-Length over the limit only logged", _m(H1, "HTTP1Connection._read_body", replace_stmt(lambda st: isinstance(st, ast.Raise) and "too long" in _u(st), lambda st: [parse_stmt('gen_log.warning("Content-Length too long")')])), "C04.content-length-limit"),
    ("chunked: total check moved after the chunk data was read", _m(H1, RCB, _move_check_after_data), "C04.chunked-total-limit"),
    ("chunked: limit applied per chunk, not cumulatively", _m(H1, RCB, replace_stmt(lambda st: isinstance(st, ast.AugAssign) and _u(st.target) == "total_size", lambda st: [parse_stmt("total_size = chunk_len")])), "C04.chunked-total-limit"),
    ("chunked: total check removed", _m(H1, RCB, remove_stmts(_if_raise("total_size"))), "C04.chunked-total-limit"),
    ("chunked: total compared with max_buffer_size", _m(H1, RCB, replace_expr(lambda n: isinstance(n, ast.Attribute) and _u(n) == "self._max_body_size", lambda n: parse_expr("self.stream.max_buffer_size"))), "C04.chunked-total-limit"),
    ("chunked: running total reset for every chunk", _m(H1, RCB, replace_stmt(lambda st: isinstance(st, ast.Assign) and _u(st) == "bytes_to_read = chunk_len", lambda st: [st, parse_stmt("total_size = 0")])), "C04.chunked-total-limit"),
    ("seeded C04-adv6: finish() forwards the decompressor's tail to the delegate uncounted", _m(H1, "_GzipMessageDelegate.finish", replace_stmt(lambda st: isinstance(st, ast.Raise) and "flush" in _u(st), lambda st: [parse_stmt("self._delegate.data_received(tail)")])), "C04.decompressed-limit"),
    ("finish() counts the tail but forwards it before comparing with the limit", _m(H1, "_GzipMessageDelegate.finish", replace_stmt(lambda st: isinstance(st, ast.Raise) and "flush" in _u(st), lambda st: [parse_stmt("self._decompressed_body_size += len(tail)"), parse_stmt("self._delegate.data_received(tail)")])), "C04.decompressed-limit"),
    ("gzip: size check removed", _m(H1, GZ, remove_stmts(_if_raise("_decompressed_body_size"))), "C04.decompressed-limit"),
    ("gzip: size check after forwarding", _m(H1, GZ, _move_gzip_check_after_forward), "C04.decompressed-limit"),
    ("gzip: decompress without max_length", _m(H1, GZ, replace_expr(lambda n: isinstance(n, ast.Call) and q.call_attr(n) == "decompress", lambda n: ast.Call(func=n.func, args=n.args[:1], keywords=[]))), "C04.decompressed-limit"),
    ("gzip: limit counted per piece (total not accumulated)", _m(H1, GZ, replace_stmt(lambda st: isinstance(st, ast.AugAssign) and "_decompressed_body_size" in _u(st.target), lambda st: [parse_stmt("self._decompressed_body_size = len(decompressed)")])), "C04.decompressed-limit"),
    ("gzip: counts compressed input instead of output", _m(H1, GZ, replace_stmt(lambda st: isinstance(st, ast.AugAssign) and "_decompressed_body_size" in _u(st.target), lambda st: [parse_stmt("self._decompressed_body_size += len(compressed_data)")])), "C04.decompressed-limit"),
    ("gzip wrapper skipped when a body timeout is configured", _m(H1, "HTTP1Connection.read_response", replace_expr(lambda n: isinstance(n, ast.Attribute) and _u(n) == "self.params.decompress", lambda n: parse_expr("self.params.decompress and self._body_timeout is None"))), "C04.params-wired"),
    ("_read_to_buffer: cap check removed", _m(IO, "BaseIOStream._read_to_buffer", remove_stmts(_if_raise("max_buffer_size"))), "C04.buffer-cap"),
    ("_read_to_buffer: over the cap raises without closing", _m(IO, "BaseIOStream._read_to_buffer", remove_stmts(lambda st: _u(st) == "self.close()" , limit=1) if False else _drop_close_in_cap), "C04.buffer-cap"),
    ("_read_to_buffer: cap checked only for user-supplied buffers", _m(IO, "BaseIOStream._read_to_buffer", replace_expr(lambda n: isinstance(n, ast.Compare) and "max_buffer_size" in _u(n), lambda n: ast.BoolOp(op=ast.And(), values=[parse_expr("self._user_read_buffer"), n]))), "C04.buffer-cap"),
    ("_find_read_pos: regex match returned without _check_max_bytes", _m(IO, "BaseIOStream._find_read_pos", remove_stmts(lambda st: _u(st) == "self._check_max_bytes(self._read_regex, loc)")), "C04.max-bytes-enforced"),
    ("_find_read_pos: not-found path not checked (endless header block buffered)", _m(IO, "BaseIOStream._find_read_pos", remove_stmts(lambda st: _u(st) == "self._check_max_bytes(self._read_regex, self._read_buffer_size)")), "C04.max-bytes-enforced"),
    ("read_until_regex forgets to record max_bytes", _m(IO, "BaseIOStream.read_until_regex", remove_stmts(lambda st: isinstance(st, ast.Assign) and "_read_max_bytes" in _u(st))), "C04.max-bytes-enforced"),
    ("_check_max_bytes off by a factor (size > 2*max)", _m(IO, "BaseIOStream._check_max_bytes", replace_expr(lambda n: isinstance(n, ast.Compare) and _u(n) == "size > self._read_max_bytes", lambda n: parse_expr("size > 2 * self._read_max_bytes"))), "C04.max-bytes-enforced"),
    ("configured limit applied by truthiness (max_body_size=0 falls back to max_buffer_size)", _m(H1, "HTTP1Connection.__init__", replace_expr(lambda n: isinstance(n, ast.IfExp) and "max_body_size" in _u(n), lambda n: parse_expr("self.params.max_body_size or self.stream.max_buffer_size"))), "C04.fresh-limit"),
    ("fixed body: owed count decremented by less than received (more than Content-Length delivered)", _m(H1, "HTTP1Connection._read_fixed_body", replace_stmt(lambda st: isinstance(st, ast.AugAssign), lambda st: [parse_stmt("content_length -= len(body) // 2")])), "C04.body-byte-count"),
    ("chunk data: owed count not decremented on the diverted (write-finished) path", _m(H1, RCB, _dec_under_if), "C04.body-byte-count"),
    ("HTTPServer does not pass max_buffer_size to the streams", _m(HS, "HTTPServer.initialize", replace_expr(lambda n: isinstance(n, ast.keyword) and n.arg == "max_buffer_size", lambda n: ast.keyword(arg="max_buffer_size", value=ast.Constant(value=None)))), "C04.params-wired"),
    ("HTTPServer passes max_buffer_size as the body limit", _m(HS, "HTTPServer.initialize", replace_expr(lambda n: isinstance(n, ast.keyword) and n.arg == "max_body_size", lambda n: ast.keyword(arg="max_body_size", value=parse_expr("max_buffer_size")))), "C04.params-wired"),
    ("connection object (and a per-request override) reused across requests", _m(H1, "HTTP1ServerConnection._server_request_loop", _hoist_conn), "C04.fresh-limit"),
]
