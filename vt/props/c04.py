"""C04 — server size limits bound what a peer can make the application buffer.

Decided statically (DESIGN.md §4 C04):

* bounded reads: every delimiter/regex read of http1connection.py passes
  ``max_bytes`` (header block: ``params.max_header_size``, never None), every
  data read is bounded by ``params.chunk_size``/the owed count; IOStream records
  the bound, ``_check_max_bytes`` enforces it on every position it returns, and
  an unsatisfiable read closes the stream;
* limit before delivery: the Content-Length comparison guards the fixed reader,
  the cumulative chunk-size comparison guards every chunk data read/delivery,
  the cumulative decompressed-size comparison (with a bounded ``decompress``)
  guards every forward of inflated data; comparisons are ``value > limit`` /
  ``value <= limit`` shapes (``>=`` would refuse a body of exactly the limit);
* fresh limit: the limit operand is the connection's live ``_max_body_size``
  (the field ``set_max_body_size`` writes), never ``params.max_body_size`` and
  never a by-value copy taken before ``headers_received``; the connection object
  (and with it the override) is per request;
* ``BaseIOStream._read_to_buffer`` checks the buffer size after every append,
  closes and raises;
* HTTPServer wires its limits into HTTP1ConnectionParameters unchanged.

Not decided: boundary arithmetic at run time (limit-1/limit/limit+1 as values),
cumulative sums over all chunk splits, zlib's own memory use.
"""
from __future__ import annotations

import ast

from .. import q
from ..model import AnalysisError
from ..rules import call_sites, require_before, node_calls
from ..mutate import mutate, remove_stmts, replace_expr, replace_stmt, parse_stmt, parse_expr
from ..x_http import norm_func, atom_edges, leads_to_raise, only_through, reach_without, node_mentions, single_bindings, canon_atom, contains, raised_class

TECHNIQUE = "branch-edge guard dominance (limit comparison before delivery) + who-reads-which-limit (fresh vs. by-value copy) + bounded-read lint"
EXPLANATION = (
    "For each body reader the comparison against the live connection limit must be the only way to reach the read/delivery of the bytes it "
    "admits (the over-limit branch edges are removed from the CFG and reachability recomputed); accumulators must be cumulative; every stream "
    "read must carry an explicit bound; the operand used as limit is traced to the field written by set_max_body_size; IOStream's buffer cap and "
    "max_bytes enforcement are checked by dominance."
)
NOT_DECIDED = "exact boundary values at run time and sums over arbitrary chunk splits; memory used inside zlib; limits of other protocol layers (websocket: C14/C15)"

H1 = "tornado/http1connection.py"
IO = "tornado/iostream.py"
HS = "tornado/httpserver.py"


def _uncast(e):
    while isinstance(e, ast.Call) and q.call_attr(e) == "cast" and len(e.args) == 2:
        e = e.args[1]
    return e


def _F(ck, rel, qn):
    """the anchored function with private single-purpose helpers inlined (same qualified name)"""
    return norm_func(ck.repo, ck.func(rel, qn))


def limit_pred(value_is, limit_is):
    """pred for atom_edges: truth value of the atom on which ``value <= limit`` is known."""
    def pred(a):
        if not (isinstance(a, ast.Compare) and len(a.ops) == 1):
            return None
        l, r, op = _uncast(a.left), _uncast(a.comparators[0]), a.ops[0]
        if value_is(l) and limit_is(r):
            if isinstance(op, ast.Gt):
                return False
            if isinstance(op, ast.LtE):
                return True
        if limit_is(l) and value_is(r):
            if isinstance(op, ast.Lt):
                return False
            if isinstance(op, ast.GtE):
                return True
        return None
    return pred


def any_cmp(value_is):
    """tests that compare the value with anything (used to tell 'wrong limit/operator' from 'no check')."""
    def f(a):
        return isinstance(a, ast.Compare) and len(a.ops) == 1 and isinstance(a.ops[0], (ast.Gt, ast.GtE, ast.Lt, ast.LtE)) and (value_is(_uncast(a.left)) or value_is(_uncast(a.comparators[0])))
    return f


def live_limit(ck):
    """The connection field written by set_max_body_size (derived, not assumed)."""
    f = _F(ck, H1, "HTTP1Connection.set_max_body_size")
    ps = [p for p in f.params() if p != "self"]
    tg = [p for st in q.walk_body(f.node) if isinstance(st, ast.Assign) and q.dotted(st.value) in ps for p in q.assigned_paths(st) if p.startswith("self.")]
    if len(tg) != 1:
        raise AnalysisError("set_max_body_size does not store its argument into exactly one field")
    return tg[0]


def _is_input_error(cls):
    return cls is not None and cls.split(".")[-1] == "HTTPInputError"


def _over_edges(cfg, pred):
    return atom_edges(cfg, lambda a: None if pred(a) is None else (not pred(a)))


def check_bounded_reads(ck):
    R = "C04.bounded-reads"
    m = ck.repo.module(H1)
    n = 0
    for f in m.funcs.values():
        for node, c in f.cfg.find(lambda x: isinstance(x, ast.Call) and isinstance(x.func, ast.Attribute) and x.func.attr in ("read_until_regex", "read_until", "read_bytes") and (q.dotted(x.func.value) or "").endswith("stream")):
            n += 1
            ck.use(f)
            kind = c.func.attr
            if kind in ("read_until_regex", "read_until"):
                mb = q.kwarg(c, "max_bytes") or q.arg(c, 1)
                ok = mb is not None and not q.is_const(mb, None)
                ck.ob(R, f, c, ok, "%s passes an explicit max_bytes bound" % kind)
                if kind == "read_until_regex":
                    ck.ob(R, f, c, mb is not None and q.dotted(mb) == "self.params.max_header_size", "the header block is read within params.max_header_size")
                elif ok:
                    ck.ob(R, f, c, isinstance(mb, ast.Constant) and type(mb.value) is int and 0 < mb.value <= 4096, "a protocol line (chunk size) is read within a small constant bound")
            else:
                sz = q.arg(c, 0, "num_bytes")
                okc = isinstance(sz, ast.Constant) and type(sz.value) is int and sz.value <= 65536
                okm = isinstance(sz, ast.Call) and isinstance(sz.func, ast.Name) and sz.func.id == "min" and any(q.dotted(a) == "self.params.chunk_size" or (isinstance(a, ast.Constant) and type(a.value) is int) for a in sz.args)
                ck.ob(R, f, c, okc or okm, "read_bytes asks for at most params.chunk_size (or a constant) bytes at a time")
    ck.floor(R, n, 4, "stream reads in http1connection.py")
    p = _F(ck, H1, "HTTP1ConnectionParameters.__init__")
    for attr, floor in (("max_header_size", 1), ("chunk_size", 1)):
        sts = [st for st in q.walk_body(p.node) if isinstance(st, ast.Assign) and "self." + attr in q.assigned_paths(st)]
        ck.floor(R, len(sts), 1, "assignment of HTTP1ConnectionParameters.%s" % attr)
        for st in sts:
            v = st.value
            ok = isinstance(v, ast.BoolOp) and isinstance(v.op, ast.Or) and q.dotted(v.values[0]) == attr and isinstance(v.values[-1], ast.Constant) and type(v.values[-1].value) is int and v.values[-1].value > 0
            ck.ob(R, p, st, ok or (isinstance(v, ast.Constant) and type(v.value) is int), "params.%s is never None/0 (falls back to a positive default)" % attr)


def check_iostream(ck):
    # max_bytes is recorded, enforced and fatal
    R = "C04.max-bytes-enforced"
    for name in ("read_until_regex", "read_until"):
        f = _F(ck, IO, "BaseIOStream." + name)
        n = require_before(ck, R, f, node_calls("self._try_inline_read"),
                           lambda nd: nd.kind == "stmt" and isinstance(nd.ast, ast.Assign) and "self._read_max_bytes" in q.assigned_paths(nd.ast) and q.dotted(nd.ast.value) == "max_bytes",
                           "%s records max_bytes before it tries to satisfy the read" % name)
        ck.floor(R, n, 1, "_try_inline_read calls in %s" % name)
        hs = [h for t in q.walk_body(f.node) if isinstance(t, ast.Try) for h in t.handlers if any(nm.endswith("UnsatisfiableReadError") for nm in q.handler_names(h))]
        ck.floor(R, len(hs), 1, "UnsatisfiableReadError handlers in %s" % name)
        for h in hs:
            ck.ob(R, f, h, any(q.is_call(c, "self.close") for c in q.calls(h)), "an unsatisfiable read (limit exceeded) closes the stream", construct="except UnsatisfiableReadError in %s" % name)
    cm = _F(ck, IO, "BaseIOStream._check_max_bytes")
    ps = [p for p in cm.params() if p != "self"]
    size_p = ps[-1]
    pred = limit_pred(lambda e: q.dotted(e) == size_p, lambda e: q.dotted(e) == "self._read_max_bytes")
    over = _over_edges(cm.cfg, pred)
    ok, n = leads_to_raise(cm.cfg, over, lambda cls: cls is not None and cls.endswith("UnsatisfiableReadError"))
    ck.ob(R, cm, cm.node, ok and n > 0, "_check_max_bytes raises UnsatisfiableReadError when size > max_bytes", construct="size > self._read_max_bytes")
    fr = _F(ck, IO, "BaseIOStream._find_read_pos")
    cfg = fr.cfg
    chk = {n.id for n in cfg.stmt_nodes(node_calls("self._check_max_bytes"))}
    ck.floor(R, len(chk), 1, "_check_max_bytes calls in _find_read_pos")
    delim = atom_edges(cfg, lambda a: False if (isinstance(a, ast.Compare) and isinstance(a.ops[0], ast.Is) and q.dotted(a.left) in ("self._read_delimiter", "self._read_regex") and q.is_const(a.comparators[0], None)) else None)
    in_delim = set()
    for e in delim:
        in_delim |= reach_without(cfg, (), start=e[1], follow_exc=False)
    unchecked = reach_without(cfg, (), stop=lambda n: n.id in chk)
    k = 0
    for r in cfg.stmt_nodes(lambda n: n.kind == "stmt" and isinstance(n.ast, ast.Return) and n.ast.value is not None and not q.is_const(n.ast.value, None)):
        if r.id in in_delim:
            k += 1
            ck.ob(R, fr, r.ast, r.id not in unchecked, "a delimiter/regex read position is returned only after _check_max_bytes accepted its size")
    ck.floor(R, k, 2, "position returns in the delimiter/regex branches")
    # the not-found path is also checked (so an endless header block is cut off at the bound)
    empty = atom_edges(cfg, lambda a: False if q.dotted(a) == "self._read_buffer" else None)
    for e in delim:
        sub = reach_without(cfg, empty, start=e[1], follow_exc=False, stop=lambda n: n.id in chk)
        falls = [n for n in sub if n == cfg.exit.id or (cfg.nodes[n].kind == "stmt" and isinstance(cfg.nodes[n].ast, ast.Return))]
        ck.ob(R, fr, cfg.nodes[e[0]].ast, not falls, "when the delimiter is not found in a non-empty buffer, the buffered size is checked against max_bytes before giving up", construct="not-found path of %s" % q.unparse(cfg.nodes[e[0]].ast))

    R = "C04.buffer-cap"
    f = _F(ck, IO, "BaseIOStream._read_to_buffer")
    cfg = f.cfg
    incs = cfg.stmt_nodes(lambda n: n.kind == "stmt" and isinstance(n.ast, ast.AugAssign) and isinstance(n.ast.op, ast.Add) and q.dotted(n.ast.target) == "self._read_buffer_size")
    ck.floor(R, len(incs), 1, "increments of _read_buffer_size in _read_to_buffer")
    pred = limit_pred(lambda e: q.dotted(e) == "self._read_buffer_size", lambda e: q.dotted(e) == "self.max_buffer_size")
    okedges = atom_edges(cfg, pred)
    over = _over_edges(cfg, pred)
    for inc in incs:
        after = reach_without(cfg, okedges, start=inc.id, follow_exc=False)
        rets = [cfg.nodes[i] for i in after if cfg.nodes[i].kind == "stmt" and isinstance(cfg.nodes[i].ast, ast.Return)]
        ck.ob(R, f, inc.ast, not rets and cfg.exit.id not in after, "after bytes were appended, _read_to_buffer returns only if the buffer is within max_buffer_size")
    okr, n = leads_to_raise(cfg, over, lambda cls: cls is not None)
    ck.ob(R, f, f.node, okr and n > 0, "an over-full read buffer raises", construct="buffer over max_buffer_size -> raise")
    closes = {n.id for n in cfg.stmt_nodes(node_calls("self.close"))}
    for e in over:
        sub = reach_without(cfg, (), start=e[1], follow_exc=False, stop=lambda n: n.id in closes)
        raises = [i for i in sub if cfg.nodes[i].kind == "stmt" and isinstance(cfg.nodes[i].ast, ast.Raise)]
        ck.ob(R, f, cfg.nodes[e[0]].ast, not raises, "an over-full read buffer closes the stream before raising")


def check_content_length(ck, LIVE, R="C04.content-length-limit"):
    fi = _F(ck, H1, "HTTP1Connection._read_body")
    cfg = fi.cfg
    fixed = call_sites(fi, "self._read_fixed_body")
    ck.floor(R, len(fixed), 1, "_read_fixed_body call sites")
    for node, c in fixed:
        a0 = q.arg(c, 0)
        if not isinstance(a0, ast.Name):
            raise AnalysisError("_read_fixed_body length argument of unknown shape at %s" % fi.site(c))
        L = a0.id
        is_val = lambda e: q.dotted(e) == L
        pred = limit_pred(is_val, lambda e: q.dotted(e) == LIVE)
        ok_e = atom_edges(cfg, pred)
        # the limit applies whenever a length was parsed: paths on which the length is None/0 by construction are exempt
        const_assign = {n.id for n in cfg.stmt_nodes(lambda n: n.kind == "stmt" and isinstance(n.ast, (ast.Assign, ast.AnnAssign)) and L in q.assigned_paths(n.ast) and isinstance(n.ast.value, ast.Constant))}
        r = reach_without(cfg, ok_e, stop=lambda n: n.id in const_assign)
        guarded = node.id not in r
        what = "the fixed-length reader starts only after Content-Length <= %s held (live limit, '>'/'<=' comparison)" % LIVE
        if not guarded:
            others = [n for n in cfg.stmt_nodes(lambda n: n.kind == "test") if any_cmp(is_val)(canon_atom(n.ast)[0])]
            if others:
                what += " — found only %s" % q.unparse(others[0].ast)
        ck.ob(R, fi, c, guarded, what)
        okr, n = leads_to_raise(cfg, _over_edges(cfg, pred), _is_input_error)
        ck.ob(R, fi, c, okr and n > 0, "a Content-Length above the limit raises HTTPInputError (400, close)", construct="Content-Length over limit -> raise")


def _accumulators(fi, loop_scope=None):
    """{accumulator path: [AugAssign nodes]} for ``X += <expr>`` in fi."""
    out = {}
    for st in q.walk_body(fi.node):
        if isinstance(st, ast.AugAssign) and isinstance(st.op, ast.Add):
            d = q.dotted(st.target)
            if d:
                out.setdefault(d, []).append(st)
        elif isinstance(st, ast.Assign) and len(st.targets) == 1 and isinstance(st.value, ast.BinOp) and isinstance(st.value.op, ast.Add):
            # x = x + y  /  x = y + x   is the same accumulation as  x += y
            d = q.dotted(st.targets[0])
            l, r = q.dotted(st.value.left), q.dotted(st.value.right)
            if d and (l == d or r == d):
                inc = st.value.right if l == d else st.value.left
                aug = ast.copy_location(ast.AugAssign(target=st.targets[0], op=ast.Add(), value=inc), st)
                aug._orig = st
                out.setdefault(d, []).append(aug)
    return out


def check_chunked(ck, LIVE, R="C04.chunked-total-limit"):
    fi = _F(ck, H1, "HTTP1Connection._read_chunked_body")
    cfg = fi.cfg
    lens = set()
    for st in q.walk_body(fi.node):
        if isinstance(st, ast.Assign) and isinstance(st.targets[0], ast.Name) and isinstance(st.value, ast.Call) and q.call_attr(st.value) in ("parse_hex_int", "int"):
            lens.add(st.targets[0].id)
    if not lens:
        raise AnalysisError("_read_chunked_body: parsed chunk length not found")
    acc = {k: v for k, v in _accumulators(fi).items() if any(q.dotted(s.value) in lens for s in v)}
    data_nodes = [(n, c) for n, c in call_sites(fi, ".read_bytes") if not isinstance(q.arg(c, 0, "num_bytes"), ast.Constant)]
    data_nodes += [(n, c) for n, c in cfg.find(lambda x: isinstance(x, ast.Call) and q.call_attr(x) == "data_received")]
    ck.floor(R, len(data_nodes), 2, "chunk data reads/deliveries")
    if not acc:
        for node, c in data_nodes:
            ck.ob(R, fi, c, False, "chunk data is read/delivered only after the cumulative declared size was compared with the limit (no accumulator of the chunk sizes found)")
        return
    if len(acc) != 1:
        raise AnalysisError("_read_chunked_body: several accumulators of the chunk size")
    T, adds = next(iter(acc.items()))
    pred = limit_pred(lambda e: q.dotted(e) == T, lambda e: q.dotted(e) == LIVE)
    ok_e = atom_edges(cfg, pred)
    adds_orig = [getattr(s, "_orig", s) for s in adds]
    add_ids = {n.id for s in adds_orig for n in cfg.nodes_for(s)}
    for node, c in data_nodes:
        what = "chunk data is read/delivered only after total declared size <= %s held (live limit)" % LIVE
        g = only_through(cfg, node, ok_e)
        if not g:
            others = [n for n in cfg.stmt_nodes(lambda n: n.kind == "test") if any_cmp(lambda e: q.dotted(e) == T)(canon_atom(n.ast)[0])]
            if others:
                what += " — found only %s" % q.unparse(others[0].ast)
        ck.ob(R, fi, c, g, what)
    # cumulative: the only writes to T are `T = 0` before the loop and `T += chunk_len` once per chunk before the comparison
    pm = q.parent_map(fi.node)
    for st in q.walk_body(fi.node):
        if isinstance(st, (ast.Assign, ast.AnnAssign, ast.AugAssign)) and T in q.assigned_paths(st) and st not in adds_orig:
            in_loop = any(isinstance(a, (ast.While, ast.For)) for a in q.ancestors(pm, st))
            ck.ob(R, fi, st, not in_loop and isinstance(st, (ast.Assign, ast.AnnAssign)) and isinstance(st.value, ast.Constant) and st.value.value == 0, "the running total is initialised to 0 once and never reset inside the loop")
    len_assign = cfg.stmt_nodes(lambda n: n.kind == "stmt" and isinstance(n.ast, ast.Assign) and isinstance(n.ast.targets[0], ast.Name) and n.ast.targets[0].id in lens)
    tests = {e[0] for e in ok_e}
    for la in len_assign:
        sub = reach_without(cfg, (), start=la.id, follow_exc=False, stop=lambda n: n.id in add_ids)
        ck.ob(R, fi, la.ast, not (sub & tests), "each parsed chunk size is added to the running total before the total is compared")
    for s in adds:
        ck.ob(R, fi, s, q.dotted(s.value) in lens, "the running total grows by the declared chunk size")
    okr, n = leads_to_raise(cfg, _over_edges(cfg, pred), _is_input_error)
    ck.ob(R, fi, fi.node, okr and n > 0, "a chunked body above the limit raises HTTPInputError", construct="chunked total over limit -> raise")


def check_gzip(ck, LIVE, R="C04.decompressed-limit"):
    repo = ck.repo
    fi = _F(ck, H1, "_GzipMessageDelegate.data_received")
    init = _F(ck, H1, "_GzipMessageDelegate.__init__")
    cfg = fi.cfg
    # the decompress call is bounded
    dec = [(n, c) for n, c in cfg.find(lambda x: isinstance(x, ast.Call) and q.call_attr(x) == "decompress")]
    ck.floor(R, len(dec), 1, "decompress calls")
    out_vars = set()
    for node, c in dec:
        ml = q.arg(c, 1, "max_length")
        ck.ob(R, fi, c, ml is not None and not (isinstance(ml, ast.Constant) and not ml.value), "decompress() is called with a max_length bound (a gzip bomb is inflated piecewise)")
        if isinstance(node.ast, ast.Assign) and isinstance(node.ast.targets[0], ast.Name):
            out_vars.add(node.ast.targets[0].id)
    if not out_vars:
        raise AnalysisError("_GzipMessageDelegate.data_received: decompressed data is not bound to a local")
    fwd = [(n, c) for n, c in cfg.find(lambda x: isinstance(x, ast.Call) and q.call_attr(x) == "data_received" and x.args and q.dotted(x.args[0]) in out_vars)]
    ck.floor(R, len(fwd), 1, "forwards of decompressed data")
    acc = {k: v for k, v in _accumulators(fi).items() if any(isinstance(s.value, ast.Call) and q.call_attr(s.value) == "len" and s.value.args and q.dotted(s.value.args[0]) in out_vars for s in v)}
    if not acc:
        for node, c in fwd:
            ck.ob(R, fi, c, False, "decompressed data is forwarded only after the cumulative decompressed size was compared with the limit (no accumulator found)")
        return None
    if len(acc) != 1:
        raise AnalysisError("_GzipMessageDelegate.data_received: several size accumulators")
    T, adds = next(iter(acc.items()))
    # which operand plays the limit?  any `T > X` comparison
    limits = set()
    for n in cfg.stmt_nodes(lambda n: n.kind == "test"):
        a = canon_atom(n.ast)[0]
        if isinstance(a, ast.Compare) and len(a.ops) == 1 and isinstance(a.ops[0], (ast.Gt, ast.LtE, ast.Lt, ast.GtE)):
            l, r = _uncast(a.left), _uncast(a.comparators[0])
            if q.dotted(l) == T:
                limits.add(q.unparse(r))
            elif q.dotted(r) == T:
                limits.add(q.unparse(l))
    pred = limit_pred(lambda e: q.dotted(e) == T, lambda e: q.unparse(e) in limits)
    ok_e = atom_edges(cfg, pred)
    adds_orig = [getattr(s, "_orig", s) for s in adds]
    add_ids = {n.id for s in adds_orig for n in cfg.nodes_for(s)}
    for node, c in fwd:
        ck.ob(R, fi, c, bool(ok_e) and only_through(cfg, node, ok_e), "decompressed data is forwarded only after cumulative decompressed size <= limit held ('>'/'<=' comparison)")
        sub = reach_without(cfg, (), start=[n for n, _c in dec][0].id, follow_exc=False, stop=lambda n: n.id in add_ids)
        ck.ob(R, fi, c, node.id not in sub, "every decompressed piece is added to the running total before it is forwarded")
    pm = q.parent_map(fi.node)
    for st in q.walk_body(fi.node):
        if isinstance(st, (ast.Assign, ast.AnnAssign, ast.AugAssign)) and T in q.assigned_paths(st) and st not in adds_orig:
            ck.ob(R, fi, st, False, "the decompressed total is never reset while a message is being read")
    okr, n = leads_to_raise(cfg, _over_edges(cfg, pred), _is_input_error)
    ck.ob(R, fi, fi.node, okr and n > 0, "a body that inflates above the limit raises HTTPInputError", construct="decompressed total over limit -> raise")
    for st in q.walk_body(init.node):
        if isinstance(st, (ast.Assign, ast.AnnAssign)) and T in q.assigned_paths(st):
            ck.ob(R, init, st, isinstance(st.value, ast.Constant) and st.value.value == 0, "the decompressed total starts at 0")
    return limits


def check_fresh_limit(ck, LIVE, gz_limits):
    """The limit operand of the gzip comparison must read the connection's live field at use time."""
    R = "C04.fresh-limit"
    repo = ck.repo
    init = _F(ck, H1, "_GzipMessageDelegate.__init__")
    init_ps = [p for p in init.params() if p != "self"]
    live_attr = LIVE.split(".", 1)[1]
    # construction sites of the gzip delegate inside HTTP1Connection
    sites = []
    rr_norm = _F(ck, H1, "HTTP1Connection.read_response")
    for c in q.calls(rr_norm.node):
        if q.call_attr(c) == "_GzipMessageDelegate" and isinstance(c.func, ast.Name):
            sites.append((rr_norm, c))
    if not sites:
        for f in repo.methods(H1, "HTTP1Connection"):
            for c in q.calls(f.node):
                if q.call_attr(c) == "_GzipMessageDelegate" and isinstance(c.func, ast.Name):
                    sites.append((f, c))
    ck.floor(R, len(sites), 1, "_GzipMessageDelegate construction sites")

    def arg_for(c, pname):
        i = init_ps.index(pname)
        return q.arg(c, i, pname)

    for lim in sorted(gz_limits or ()):
        e = ast.parse(lim, mode="eval").body
        d = q.dotted(e)
        if d is None and isinstance(e, ast.Call) and not e.args and q.dotted(e.func):
            # self.<f>() : a callable handed over at construction
            fld = q.dotted(e.func)
            src = _field_source(init, fld)
            for f, c in sites:
                a = arg_for(c, src) if src in init_ps else None
                ok = isinstance(a, ast.Lambda) and q.dotted(a.body) == LIVE
                ck.ob(R, f, c, ok, "the gzip limit is read through a callable returning the connection's live %s" % LIVE)
            continue
        if d is None or not d.startswith("self."):
            raise AnalysisError("gzip size limit operand of unknown shape: %s" % lim)
        parts = d.split(".")
        if len(parts) == 3 and parts[2] == live_attr:
            # self.<conn>.<live field>
            src = _field_source(init, "self." + parts[1])
            for f, c in sites:
                a = arg_for(c, src) if src in init_ps else None
                ck.ob(R, f, c, a is not None and q.dotted(a) == "self", "the gzip delegate reads the limit from the connection object it was given")
            continue
        if len(parts) == 2:
            src = _field_source(init, d)
            others = [(g, st) for g in repo.methods(H1, "_GzipMessageDelegate") if g is not init for st in q.stores_to(g.node, d)]
            for f, c in sites:
                a = arg_for(c, src) if src in init_ps else None
                if a is None:
                    raise AnalysisError("cannot relate gzip limit field %s to a constructor argument at %s" % (d, f.site(c)))
                by_value = q.dotted(a) in (LIVE, "self.params.max_body_size") or isinstance(a, ast.Constant)
                refreshed = bool(others) and any(q.dotted(x.func) == "self._delegate.%s" % g.name or q.call_attr(x) == g.name for g, _st in others for ff in repo.methods(H1, "HTTP1Connection") if ff.name == "set_max_body_size" for x in q.calls(ff.node))
                ck.ob(R, f, c, (not by_value) or refreshed,
                      "the decompressed-size limit is not a by-value copy of %s taken before headers_received (set_max_body_size later changes only the connection's field)" % LIVE)
            continue
        raise AnalysisError("gzip size limit operand of unknown shape: %s" % lim)

    # the connection (and the override) is per request
    R2 = "C04.fresh-limit"
    loop = _F(ck, H1, "HTTP1ServerConnection._server_request_loop")
    pm = q.parent_map(loop.node)
    ctor = [c for c in q.calls(loop.node) if q.call_attr(c) == "HTTP1Connection"]
    ck.floor(R2, len(ctor), 1, "HTTP1Connection constructions in the serving loop")
    for c in ctor:
        ck.ob(R2, loop, c, any(isinstance(a, ast.While) for a in q.ancestors(pm, c)), "a fresh HTTP1Connection (hence a fresh body limit) is created for every request; a per-request override cannot leak")
    check_limit_init(ck, LIVE, R2)
    # nobody compares body sizes with the stale configuration value
    n = 0
    for f in repo.module(H1).funcs.values():
        for x in q.walk_body(f.node):
            if isinstance(x, ast.Compare) and any(q.dotted(_uncast(s)) == "self.params.max_body_size" for s in [x.left] + x.comparators) and not all(isinstance(o, (ast.Is, ast.IsNot)) for o in x.ops):
                ck.ob(R2, f, x, False, "body sizes are compared with the live %s, not with params.max_body_size (which ignores set_max_body_size)" % LIVE)
            n += 1
    return None


def check_limit_init(ck, LIVE, R):
    """HTTP1Connection.__init__ by abstract interpretation: the live limit is params.max_body_size whenever that is not
    None (0 is a legal limit: no truthiness fallback), else the stream's max_buffer_size."""
    from ..x_absint import Evaluator, Obj, UNK
    from ..x_http import self_modsets
    ci = _F(ck, H1, "HTTP1Connection.__init__")
    ps = [p for p in ci.params() if p != "self"]
    if len(ps) < 3:
        raise AnalysisError("HTTP1Connection.__init__: expected (stream, is_client, params, ...)")
    ms = self_modsets(ck.repo, H1, "HTTP1Connection")
    attr = LIVE.split(".", 1)[1]
    for configured in (None, 0, 500):
        ev = Evaluator(modset=lambda d: ms.get(d.split(".")[1]))
        env = {"self": Obj("self"), ps[0]: Obj("stream", max_buffer_size=9999), ps[1]: False,
               ps[2]: Obj("params", max_body_size=configured, body_timeout=None, no_keep_alive=False, max_header_size=65536, chunk_size=65536, header_timeout=None, decompress=False)}
        for p in ps[3:]:
            env[p] = None
        outs = [o for o in ev.run(ci.node, env) if o.kind != "raise"]
        if not outs:
            raise AnalysisError("HTTP1Connection.__init__ has no normal outcome")
        for o in outs:
            got = o.state.env["self"].attrs.get(attr, UNK)
            if got is UNK:
                raise AnalysisError("HTTP1Connection.__init__: initial %s not decidable by constant folding" % LIVE)
            want = 9999 if configured is None else configured
            ck.ob(R, ci, ci.node, got == want, "the connection's body limit starts as params.max_body_size whenever that is not None (0 is a legal limit, not 'unset'), else the stream's max_buffer_size [configured=%r -> %r]" % (configured, got),
                  construct="initial body limit for max_body_size=%r" % (configured,))


def _field_source(init, field):
    """constructor parameter from which ``field`` (``self.x``) is initialised"""
    ps = [p for p in init.params() if p != "self"]
    for st in q.walk_body(init.node):
        if isinstance(st, (ast.Assign, ast.AnnAssign)) and field in q.assigned_paths(st) and st.value is not None and q.dotted(st.value) in ps:
            return q.dotted(st.value)
    raise AnalysisError("%s is not initialised from a constructor parameter of %s" % (field, init.qualname))


def check_wiring(ck):
    R = "C04.params-wired"
    fi = _F(ck, HS, "HTTPServer.initialize")
    calls = [c for c in q.calls(fi.node) if q.call_attr(c) == "HTTP1ConnectionParameters"]
    ck.floor(R, len(calls), 1, "HTTP1ConnectionParameters constructions in HTTPServer.initialize")
    want = {"max_header_size": "max_header_size", "max_body_size": "max_body_size", "chunk_size": "chunk_size", "decompress": "decompress_request"}
    for c in calls:
        for k, src in want.items():
            v = q.kwarg(c, k)
            ck.ob(R, fi, c, v is not None and q.dotted(v) == src, "HTTPServer passes its %s as HTTP1ConnectionParameters.%s" % (src, k), construct="%s=%s" % (k, src))
    tcp = [c for c in q.calls(fi.node) if q.dotted(c.func) == "TCPServer.__init__"]
    ck.floor(R, len(tcp), 1, "TCPServer.__init__ calls in HTTPServer.initialize")
    for c in tcp:
        v = q.kwarg(c, "max_buffer_size")
        ck.ob(R, fi, c, v is not None and q.dotted(v) == "max_buffer_size", "HTTPServer passes its max_buffer_size to the stream factory (TCPServer)", construct="max_buffer_size=max_buffer_size")
    hs = _F(ck, HS, "HTTPServer.handle_stream")
    cc = [c for c in q.calls(hs.node) if q.call_attr(c) == "HTTP1ServerConnection"]
    ck.floor(R, len(cc), 1, "HTTP1ServerConnection constructions")
    for c in cc:
        ck.ob(R, hs, c, any(q.dotted(a) == "self.conn_params" for a in list(c.args) + [k.value for k in c.keywords]), "every accepted connection uses the server's configured limits")
    p = _F(ck, H1, "HTTP1ConnectionParameters.__init__")
    for attr in ("max_body_size",):
        sts = q.stores_to(p.node, "self." + attr)
        ck.floor(R, len(sts), 1, "assignment of params.%s" % attr)
        for st in sts:
            ck.ob(R, p, st, q.dotted(st.value) == attr, "params.%s stores the configured value unchanged" % attr)
    lp = _F(ck, H1, "HTTP1ServerConnection._server_request_loop")
    for c in [c for c in q.calls(lp.node) if q.call_attr(c) == "HTTP1Connection"]:
        ck.ob(R, lp, c, any(q.dotted(a) == "self.params" for a in list(c.args) + [k.value for k in c.keywords]), "each request connection is created with the configured parameters")
    rr = _F(ck, H1, "HTTP1Connection.read_response")
    wraps = [n for n, c in rr.cfg.find(lambda x: isinstance(x, ast.Call) and q.call_attr(x) == "_GzipMessageDelegate")]
    dec = atom_edges(rr.cfg, lambda a: True if q.dotted(a) == "self.params.decompress" else None)
    nod = atom_edges(rr.cfg, lambda a: False if q.dotted(a) == "self.params.decompress" else None)
    ck.floor(R, len(wraps), 1, "gzip wrapping sites in read_response")
    reads = [n for n, c in rr.cfg.find(lambda x: isinstance(x, ast.Call) and q.call_attr(x) == "_read_message")]
    wrap_ids = {n.id for n in wraps}
    for n in reads:
        r = reach_without(rr.cfg, nod, stop=lambda x: x.id in wrap_ids)
        ck.ob(R, rr, n.ast, n.id not in r, "with decompress on, the message is read through the size-limiting gzip delegate")


def run(ck):
    from ..x_http import GuardedCheck
    ck = GuardedCheck(ck)
    ck.rule("C04.bounded-reads", "every stream read in http1connection.py carries an explicit bound; the header block is read within params.max_header_size")
    ck.rule("C04.max-bytes-enforced", "IOStream records max_bytes, _check_max_bytes enforces it on every delimiter/regex position and on the not-found path, and an unsatisfiable read closes the stream")
    ck.rule("C04.buffer-cap", "_read_to_buffer: after every append the buffer size is compared with max_buffer_size; over the cap it closes and raises")
    ck.rule("C04.content-length-limit", "the fixed-length reader runs only after Content-Length <= the live body limit; above it HTTPInputError")
    ck.rule("C04.chunked-total-limit", "chunk data is read/delivered only after the cumulative declared size <= the live body limit; above it HTTPInputError")
    ck.rule("C04.decompressed-limit", "inflated data is forwarded only after the cumulative decompressed size <= limit; decompress is bounded; above it HTTPInputError")
    ck.rule("C04.body-byte-count", "no more bytes are read and delivered than the admitted length: data reads are bounded by, and decrement by exactly len(received), the owed count")
    ck.rule("C04.fresh-limit", "limits are read from the connection's live field (written by set_max_body_size) at use time: no by-value copy taken before headers_received, no params.max_body_size comparisons, one connection per request")
    ck.rule("C04.params-wired", "HTTPServer's max_header_size/max_body_size/chunk_size/decompress_request reach HTTP1ConnectionParameters and every connection unchanged")
    LIVE = live_limit(ck)
    check_bounded_reads(ck)
    check_iostream(ck)
    check_content_length(ck, LIVE)
    check_chunked(ck, LIVE)
    gz = check_gzip(ck, LIVE)
    from . import c01 as _c01
    _c01.check_counted_reads(ck, _F(ck, H1, "HTTP1Connection._read_fixed_body"), set(), RP="C04")
    lens = {st.targets[0].id for st in q.walk_body(_F(ck, H1, "HTTP1Connection._read_chunked_body").node) if isinstance(st, ast.Assign) and isinstance(st.targets[0], ast.Name) and isinstance(st.value, ast.Call) and q.call_attr(st.value) in ("parse_hex_int", "int")}
    _c01.check_counted_reads(ck, _F(ck, H1, "HTTP1Connection._read_chunked_body"), lens, RP="C04")
    check_fresh_limit(ck, LIVE, gz)
    check_wiring(ck)



def _drop_close_in_cap(root):
    for node in ast.walk(root):
        if isinstance(node, ast.If) and "max_buffer_size" in ast.unparse(node.test):
            node.body = [st for st in node.body if ast.unparse(st) != "self.close()"]
            return True
    return False


def _hoist_conn(root):
    for node in ast.walk(root):
        if isinstance(node, ast.Try):
            for i, st in enumerate(node.body):
                if isinstance(st, ast.While):
                    for j, s2 in enumerate(st.body):
                        if isinstance(s2, ast.Assign) and "HTTP1Connection(" in ast.unparse(s2):
                            node.body.insert(i, st.body.pop(j))
                            return True
    return False


def _dec_under_if(root):
    """move `bytes_to_read -= len(chunk)` under the delivery condition"""
    for node in ast.walk(root):
        if isinstance(node, ast.While):
            for i, st in enumerate(node.body):
                if isinstance(st, ast.AugAssign) and isinstance(st.op, ast.Sub) and i + 1 < len(node.body) and isinstance(node.body[i + 1], ast.If):
                    node.body[i + 1].body.insert(0, node.body.pop(i))
                    return True
    return False


def _m(rel, qn, edit):
    return lambda repo: mutate(repo, rel, qn, edit)


def _u(n):
    return ast.unparse(n)


def _if_raise(test_contains):
    return lambda st: isinstance(st, ast.If) and test_contains in _u(st.test) and any(isinstance(x, ast.Raise) for x in st.body)


def _drop_kw(call_attr, kw):
    def pred(n):
        return isinstance(n, ast.Call) and q.call_attr(n) == call_attr and any(k.arg == kw for k in n.keywords)

    def new(n):
        n.keywords = [k for k in n.keywords if k.arg != kw]
        return n
    return replace_expr(pred, new)


def _move_check_after_data(root):
    """chunked reader: move the `total_size > limit` check to the end of the per-chunk loop body (after the data was read)"""
    for node in ast.walk(root):
        if isinstance(node, ast.While):
            for i, st in enumerate(node.body):
                if isinstance(st, ast.If) and "total_size" in _u(st.test):
                    node.body.append(node.body.pop(i))
                    return True
    return False


def _move_gzip_check_after_forward(root):
    for node in ast.walk(root):
        if isinstance(node, ast.If) and _u(node.test) == "decompressed":
            for i, st in enumerate(node.body):
                if isinstance(st, ast.If) and "_max_body_size" in _u(st.test):
                    node.body.append(node.body.pop(i))
                    return True
    return False


RCB = "HTTP1Connection._read_chunked_body"
GZ = "_GzipMessageDelegate.data_received"
MUTANTS = [
    ("header read without max_bytes", _m(H1, "HTTP1Connection._read_message", _drop_kw("read_until_regex", "max_bytes")), "C04.bounded-reads"),
    ("header read bounded by max_body_size instead of max_header_size", _m(H1, "HTTP1Connection._read_message", replace_expr(lambda n: isinstance(n, ast.Attribute) and _u(n) == "self.params.max_header_size", lambda n: parse_expr("self._max_body_size"))), "C04.bounded-reads"),
    ("chunk-size line read without max_bytes", _m(H1, RCB, _drop_kw("read_until", "max_bytes")), "C04.bounded-reads"),
    ("fixed body read asks for the whole Content-Length at once", _m(H1, "HTTP1Connection._read_fixed_body", replace_expr(lambda n: isinstance(n, ast.Call) and _u(n.func) == "min", lambda n: parse_expr("content_length"))), "C04.bounded-reads"),
    ("max_header_size may be None (no fallback)", _m(H1, "HTTP1ConnectionParameters.__init__", replace_expr(lambda n: isinstance(n, ast.BoolOp) and "max_header_size" in _u(n), lambda n: parse_expr("max_header_size"))), "C04.bounded-reads"),
    ("Content-Length limit check removed", _m(H1, "HTTP1Connection._read_body", remove_stmts(_if_raise("_max_body_size"))), "C04.content-length-limit"),
    ("Content-Length compared with the configured (stale) limit", _m(H1, "HTTP1Connection._read_body", replace_expr(lambda n: isinstance(n, ast.Attribute) and _u(n) == "self._max_body_size", lambda n: parse_expr("self.params.max_body_size"))), ("C04.content-length-limit", "C04.fresh-limit")),
    ("Content-Length equal to the limit refused (>=)", _m(H1, "HTTP1Connection._read_body", replace_expr(lambda n: isinstance(n, ast.Compare) and "_max_body_size" in _u(n), lambda n: ast.Compare(left=n.left, ops=[ast.GtE()], comparators=n.comparators))), "C04.content-length-limit"),
    ("Content-Length over the limit only logged", _m(H1, "HTTP1Connection._read_body", replace_stmt(lambda st: isinstance(st, ast.Raise) and "too long" in _u(st), lambda st: [parse_stmt('gen_log.warning("Content-Length too long")')])), "C04.content-length-limit"),
    ("chunked: total check moved after the chunk data was read", _m(H1, RCB, _move_check_after_data), "C04.chunked-total-limit"),
    ("chunked: limit applied per chunk, not cumulatively", _m(H1, RCB, replace_stmt(lambda st: isinstance(st, ast.AugAssign) and _u(st.target) == "total_size", lambda st: [parse_stmt("total_size = chunk_len")])), "C04.chunked-total-limit"),
    ("chunked: total check removed", _m(H1, RCB, remove_stmts(_if_raise("total_size"))), "C04.chunked-total-limit"),
    ("chunked: total compared with max_buffer_size", _m(H1, RCB, replace_expr(lambda n: isinstance(n, ast.Attribute) and _u(n) == "self._max_body_size", lambda n: parse_expr("self.stream.max_buffer_size"))), "C04.chunked-total-limit"),
    ("chunked: running total reset for every chunk", _m(H1, RCB, replace_stmt(lambda st: isinstance(st, ast.Assign) and _u(st) == "bytes_to_read = chunk_len", lambda st: [st, parse_stmt("total_size = 0")])), "C04.chunked-total-limit"),
    ("gzip: size check removed", _m(H1, GZ, remove_stmts(_if_raise("_decompressed_body_size"))), "C04.decompressed-limit"),
    ("gzip: size check after forwarding", _m(H1, GZ, _move_gzip_check_after_forward), "C04.decompressed-limit"),
    ("gzip: decompress without max_length", _m(H1, GZ, replace_expr(lambda n: isinstance(n, ast.Call) and q.call_attr(n) == "decompress", lambda n: ast.Call(func=n.func, args=n.args[:1], keywords=[]))), "C04.decompressed-limit"),
    ("gzip: limit counted per piece (total not accumulated)", _m(H1, GZ, replace_stmt(lambda st: isinstance(st, ast.AugAssign) and "_decompressed_body_size" in _u(st.target), lambda st: [parse_stmt("self._decompressed_body_size = len(decompressed)")])), "C04.decompressed-limit"),
    ("gzip: counts compressed input instead of output", _m(H1, GZ, replace_stmt(lambda st: isinstance(st, ast.AugAssign) and "_decompressed_body_size" in _u(st.target), lambda st: [parse_stmt("self._decompressed_body_size += len(compressed_data)")])), "C04.decompressed-limit"),
    ("gzip wrapper skipped when a body timeout is configured", _m(H1, "HTTP1Connection.read_response", replace_expr(lambda n: isinstance(n, ast.Attribute) and _u(n) == "self.params.decompress", lambda n: parse_expr("self.params.decompress and self._body_timeout is None"))), "C04.params-wired"),
    ("_read_to_buffer: cap check removed", _m(IO, "BaseIOStream._read_to_buffer", remove_stmts(_if_raise("max_buffer_size"))), "C04.buffer-cap"),
    ("_read_to_buffer: over the cap raises without closing", _m(IO, "BaseIOStream._read_to_buffer", remove_stmts(lambda st: _u(st) == "self.close()" , limit=1) if False else _drop_close_in_cap), "C04.buffer-cap"),
    ("_read_to_buffer: cap checked only for user-supplied buffers", _m(IO, "BaseIOStream._read_to_buffer", replace_expr(lambda n: isinstance(n, ast.Compare) and "max_buffer_size" in _u(n), lambda n: ast.BoolOp(op=ast.And(), values=[parse_expr("self._user_read_buffer"), n]))), "C04.buffer-cap"),
    ("_find_read_pos: regex match returned without _check_max_bytes", _m(IO, "BaseIOStream._find_read_pos", remove_stmts(lambda st: _u(st) == "self._check_max_bytes(self._read_regex, loc)")), "C04.max-bytes-enforced"),
    ("_find_read_pos: not-found path not checked (endless header block buffered)", _m(IO, "BaseIOStream._find_read_pos", remove_stmts(lambda st: _u(st) == "self._check_max_bytes(self._read_regex, self._read_buffer_size)")), "C04.max-bytes-enforced"),
    ("read_until_regex forgets to record max_bytes", _m(IO, "BaseIOStream.read_until_regex", remove_stmts(lambda st: isinstance(st, ast.Assign) and "_read_max_bytes" in _u(st))), "C04.max-bytes-enforced"),
    ("_check_max_bytes off by a factor (size > 2*max)", _m(IO, "BaseIOStream._check_max_bytes", replace_expr(lambda n: isinstance(n, ast.Compare) and _u(n) == "size > self._read_max_bytes", lambda n: parse_expr("size > 2 * self._read_max_bytes"))), "C04.max-bytes-enforced"),
    ("configured limit applied by truthiness (max_body_size=0 falls back to max_buffer_size)", _m(H1, "HTTP1Connection.__init__", replace_expr(lambda n: isinstance(n, ast.IfExp) and "max_body_size" in _u(n), lambda n: parse_expr("self.params.max_body_size or self.stream.max_buffer_size"))), "C04.fresh-limit"),
    ("fixed body: owed count decremented by less than received (more than Content-Length delivered)", _m(H1, "HTTP1Connection._read_fixed_body", replace_stmt(lambda st: isinstance(st, ast.AugAssign), lambda st: [parse_stmt("content_length -= len(body) // 2")])), "C04.body-byte-count"),
    ("chunk data: owed count not decremented on the diverted (write-finished) path", _m(H1, RCB, _dec_under_if), "C04.body-byte-count"),
    ("HTTPServer does not pass max_buffer_size to the streams", _m(HS, "HTTPServer.initialize", replace_expr(lambda n: isinstance(n, ast.keyword) and n.arg == "max_buffer_size", lambda n: ast.keyword(arg="max_buffer_size", value=ast.Constant(value=None)))), "C04.params-wired"),
    ("HTTPServer passes max_buffer_size as the body limit", _m(HS, "HTTPServer.initialize", replace_expr(lambda n: isinstance(n, ast.keyword) and n.arg == "max_body_size", lambda n: ast.keyword(arg="max_body_size", value=parse_expr("max_buffer_size")))), "C04.params-wired"),
    ("connection object (and a per-request override) reused across requests", _m(H1, "HTTP1ServerConnection._server_request_loop", _hoist_conn), "C04.fresh-limit"),
]
