"""C42 — Subprocess exit is reported once with the right status.

Decided statically (DESIGN.md §4 C42, families MPT / TS / TBL / SETTLE): registration order in
``set_exit_callback`` (handler installed and subprocess registered before the immediate poll), SIGCHLD wiring,
the poll-everything loop of ``_cleanup``, the reap discipline of ``_try_cleanup_process`` (WNOHANG, not-yet-exited
and no-such-child skipped, one pop, one scheduling of ``_set_returncode`` with the reaped status), the status
decoding of ``_set_returncode`` *evaluated* on the abstract exit classes {signal, exit 0, exit != 0}, take-and-clear
of the exit callback, and the branch table of ``wait_for_exit``'s callback.  Not decided: timing.
"""
from __future__ import annotations

import ast
import copy

from .. import q
from ..cfg import explore, must_facts, canon_fact, holds
from ..rules import call_sites, node_calls, require_before, check_take_and_clear, settle_sites, event_facts
from ..mutate import mutate, remove_stmts, replace_stmt, replace_expr, parse_stmt, parse_expr
from ..model import AnalysisError
from ..x_scope import own_nodes, strip_annotations
from ..x_flow import protected, resolve_local, concrete_paths, expand_locals

TECHNIQUE = "dominance on the CFG + path-sensitive typestate with abstract evaluation of the wait-status macros + take-and-clear / settle-discipline lint"
EXPLANATION = (
    "set_exit_callback: storing the callback, Subprocess.initialize() and the _waiting registration must dominate the immediate _try_cleanup_process(self.pid); "
    "initialize wires signal.SIGCHLD to cls._cleanup; _cleanup polls every registered pid over a copy; _try_cleanup_process is explored path-sensitively "
    "(pop/schedule counts, guards); _set_returncode's assignments to self.returncode are folded with the os.W* macros replaced by their value for each "
    "abstract exit class and compared with -signal / exit status; the exit callback is used only through take-and-clear; wait_for_exit's callback is "
    "explored on (ret == 0, raise_error) and must settle exactly once with the matching outcome via the *_unless_cancelled helpers."
)
NOT_DECIDED = "timing of SIGCHLD delivery relative to the event loop; several IOLoops; behaviour of os.waitpid; Windows branch (returncode = -1)"
LEVEL_NOTE = "assumption A-wait (POSIX status encoding) as in C41; sys.platform == 'win32' paths are pruned (the API is documented Unix-only)"

F = "tornado/process.py"
CLS = "Subprocess"


from ..x_waitstatus import STATUS, Evaluator

EXPECTED = {c: (-t if sg else ex) for c, (sg, t, ex) in STATUS.items()}
_EV = None


def _status_subst(e, status, cls):
    return _EV.subst(e, status, cls)


def _cls_recv(d):
    """'cls._x' / 'Subprocess._x' / 'self._x' -> '_x' for class-level attributes."""
    if d is None:
        return None
    parts = d.split(".")
    if len(parts) == 2 and parts[0] in ("cls", CLS, "self"):
        return parts[1]
    return None


def rule_register(ck):
    fi = ck.func(F, CLS + ".set_exit_callback")
    params = [p for p in fi.params() if p != "self"]
    if len(params) != 1:
        raise AnalysisError("set_exit_callback does not take exactly the callback")
    cb = params[0]
    polls = [(n, c) for n, c in fi.cfg.find(lambda x: isinstance(x, ast.Call) and q.call_attr(x) == "_try_cleanup_process")]
    known_calls = ("initialize", "_try_cleanup_process")
    foreign = [c for c in q.calls(fi.node) if q.call_attr(c) not in known_calls]
    if foreign and (not polls or not any(q.call_attr(c) == "initialize" for c in q.calls(fi.node))):
        raise AnalysisError("set_exit_callback delegates to %s: registration steps inside helpers are not followed" % q.unparse(foreign[0].func))
    ck.ob("C42.register-before-poll", fi, fi.node, len(polls) >= 1, "set_exit_callback polls the child immediately (a child that exited before registration gets no further SIGCHLD)", construct="immediate-poll")
    if not polls:
        return None
    is_poll = lambda n: any(n.id == p.id for p, _ in polls)
    # the attribute holding the callback
    stores = [st for st in own_nodes(fi.node) if isinstance(st, ast.Assign) and q.dotted(st.value) == cb and any(p.startswith("self.") for p in q.assigned_paths(st))]
    if len(stores) != 1:
        raise AnalysisError("set_exit_callback does not store its callback in exactly one attribute")
    cb_attr = [p for p in q.assigned_paths(stores[0]) if p.startswith("self.")][0]
    require_before(ck, "C42.register-before-poll", fi, is_poll, lambda n: n.kind == "stmt" and n.ast is stores[0], "the callback is stored before the immediate poll (else an already-dead child is reaped with no callback to run)")
    require_before(ck, "C42.register-before-poll", fi, is_poll, node_calls(CLS + ".initialize", "self.initialize", "cls.initialize"),
                   "the SIGCHLD handler is installed before the immediate poll (a child dying in between would never be noticed)")
    is_reg = lambda n: n.kind == "stmt" and isinstance(n.ast, ast.Assign) and any(p.endswith("[]") and _cls_recv(p[:-2]) == "_waiting" for p in q.assigned_paths(n.ast))
    require_before(ck, "C42.register-before-poll", fi, is_poll, is_reg, "the subprocess is in the waiting table before the immediate poll (the poll pops it from there)")
    # ... and each of the four steps happens on EVERY normal path of set_exit_callback (none is skipped by a fast path)
    ef = event_facts(fi, {"store": lambda n: n.kind == "stmt" and n.ast is stores[0], "init": node_calls(CLS + ".initialize", "self.initialize", "cls.initialize"), "reg": is_reg, "poll": is_poll},
                     cond_facts=False)
    at_exit = ef.get(fi.cfg.exit.id, frozenset())
    for k, what in (("store", "the callback is stored"), ("init", "the SIGCHLD handler is (idempotently) installed"), ("reg", "the subprocess is registered"),
                    ("poll", "the child is polled immediately (a child that already exited gets no further SIGCHLD)")):
        ck.ob("C42.register-before-poll", fi, fi.node, ("@" + k, True) in at_exit, "on every normal path of set_exit_callback %s" % what, construct="always-" + k)
    for n in fi.cfg.stmt_nodes(is_reg):
        t = n.ast.targets[0]
        ck.ob("C42.register-before-poll", fi, n.ast, isinstance(t, ast.Subscript) and q.dotted(t.slice) == "self.pid" and q.dotted(n.ast.value) == "self", "registered as _waiting[self.pid] = self")
    for n, c in polls:
        ck.ob("C42.register-before-poll", fi, c, len(c.args) == 1 and q.dotted(c.args[0]) == "self.pid", "the immediate poll is for this subprocess's pid")
    return cb_attr


def rule_wait_scope(ck):
    """Class 'operation applied to a wider scope than the resource owned': the class reaps only pids it was asked about.
    A wildcard wait (os.wait(), waitpid(-1/0, ..)) also reaps children whose Subprocess has not registered yet (or other
    code's children) and their status is lost for good."""
    n = 0
    for fi in ck.repo.methods(F, CLS):
        for c in q.calls(fi.node):
            d = q.dotted(c.func) or ""
            if d in ("os.wait", "os.wait3"):
                n += 1
                ck.ob("C42.reap", fi, c, False, "Subprocess never reaps with a wildcard wait (it would consume the exit status of children that are not registered yet)")
            elif d in ("os.waitpid", "os.wait4", "os.waitid"):
                n += 1
                a0 = c.args[0] if c.args else None
                try:
                    v = q.fold(a0, {}) if a0 is not None else None
                    wildcard = isinstance(v, int) and v <= 0
                except q.NotFoldable:
                    wildcard = False
                ck.ob("C42.reap", fi, c, not wildcard, "waitpid is asked about one specific pid, not about 'any child' (pid <= 0)", construct="waitpid-scope " + q.unparse(c))
    ck.floor("C42.reap", n, 1, "wait calls in Subprocess")


def rule_sigchld(ck):
    fi = ck.func(F, CLS + ".initialize")
    hs = call_sites(fi, ".add_signal_handler")
    ck.floor("C42.sigchld", len(hs), 1, "add_signal_handler sites")
    for n, c in hs:
        ok = len(c.args) >= 2 and q.dotted(c.args[0]) == "signal.SIGCHLD" and _cls_recv(q.dotted(c.args[1])) == "_cleanup"
        ck.ob("C42.sigchld", fi, c, ok, "SIGCHLD is routed to the poll-all handler _cleanup on the event loop")
    facts = must_facts(fi.cfg)
    for n, c in hs:
        flags = [t for t, pol in facts[n.id] if not pol and _cls_recv(t) is not None]
        ck.ob("C42.sigchld", fi, c, len(flags) == 1, "the handler is installed on the not-yet-initialised path (guard: %s is false)" % (flags[0] if flags else "<none>"), construct="installed-when-uninitialised")
        reach = fi.cfg.reachable()
        ck.ob("C42.sigchld", fi, c, n.id in reach, "the installation is reachable")
    cl = ck.func(F, CLS + "._cleanup")
    fors = [n for n in own_nodes(cl.node) if isinstance(n, ast.For)]
    if not fors:
        # a comprehension evaluated for its effect / `for` spelled as list(map(...)) is the same loop
        for st_ in cl.node.body:
            v_ = st_.value if isinstance(st_, (ast.Expr, ast.Assign)) else None
            if isinstance(v_, (ast.ListComp, ast.SetComp)) and len(v_.generators) == 1 and not v_.generators[0].ifs and isinstance(v_.generators[0].target, ast.Name):
                g_ = v_.generators[0]
                fors.append(ast.copy_location(ast.For(target=g_.target, iter=g_.iter, body=[ast.copy_location(ast.Expr(value=v_.elt), st_)], orelse=[]), st_))
    if len(fors) != 1 or not isinstance(fors[0].target, ast.Name):
        raise AnalysisError("_cleanup: expected one loop over the waiting pids")
    lp = fors[0]
    it = resolve_local(cl, lp.iter)
    copied = isinstance(it, ast.Call) and isinstance(it.func, ast.Name) and it.func.id in ("list", "tuple", "sorted") and len(it.args) == 1
    src = it.args[0] if copied else it
    if isinstance(src, ast.Call) and isinstance(src.func, ast.Attribute) and src.func.attr == "keys" and not src.args:
        src = src.func.value
    ck.ob("C42.cleanup-all", cl, it, _cls_recv(q.dotted(src)) == "_waiting", "_cleanup walks every registered pid (SIGCHLD coalesces: one signal may stand for several exits)")
    ck.ob("C42.cleanup-all", cl, it, copied, "the walk is over a copy (each successful poll pops from the table)", construct="copy " + q.unparse(it))
    calls = [c for st in lp.body for c in q.calls(st) if q.call_attr(c) == "_try_cleanup_process"]
    ok = len(calls) == 1 and len(calls[0].args) == 1 and q.dotted(calls[0].args[0]) == lp.target.id and any(isinstance(st, ast.Expr) and st.value is calls[0] for st in lp.body)
    ck.ob("C42.cleanup-all", cl, lp, ok and not any(isinstance(x, (ast.Break, ast.Return)) for st in lp.body for x in q.walk_local(st)), "every pid is polled, unconditionally, without early exit", construct="poll-each")


def rule_try_cleanup(ck):
    fi = ck.func(F, CLS + "._try_cleanup_process")
    params = [p for p in fi.params() if p not in ("cls", "self")]
    if len(params) != 1:
        raise AnalysisError("_try_cleanup_process does not take exactly the pid")
    pidp = params[0]
    cfg = fi.cfg
    wp = [n for n in cfg.stmt_nodes(lambda n: n.kind == "stmt" and isinstance(n.ast, ast.Assign) and q.is_call(n.ast.value, "os.waitpid"))]
    if len(wp) != 1:
        raise AnalysisError("expected one `ret_pid, status = os.waitpid(...)` in _try_cleanup_process")
    wpn = wp[0]
    tgt_ = wpn.ast.targets[0]
    if isinstance(tgt_, ast.Name):
        # result kept in a temporary and unpacked later (`reaped = os.waitpid(..)` ... `ret_pid, status = reaped`)
        unp = [n_ for n_ in own_nodes(fi.node) if isinstance(n_, ast.Assign) and isinstance(n_.targets[0], ast.Tuple) and q.dotted(n_.value) == tgt_.id]
        if len(unp) != 1:
            raise AnalysisError("the waitpid result %s is not unpacked exactly once" % tgt_.id)
        tgt_ = unp[0].targets[0]
    if not (isinstance(tgt_, ast.Tuple) and len(tgt_.elts) == 2 and all(isinstance(e, ast.Name) for e in tgt_.elts)):
        raise AnalysisError("expected one `ret_pid, status = os.waitpid(...)` in _try_cleanup_process")
    rp, status = (e.id for e in tgt_.elts)
    c = wpn.ast.value
    ck.ob("C42.reap", fi, c, len(c.args) == 2 and q.dotted(c.args[0]) == pidp and q.dotted(c.args[1]) == "os.WNOHANG", "waitpid polls the given pid without blocking the event loop (os.WNOHANG)")
    pm = q.parent_map(fi.node)
    h = protected(pm, c, "ChildProcessError")
    ck.ob("C42.reap", fi, c, h is not None, "ChildProcessError (already reaped / not our child) is tolerated", construct="ChildProcessError-handled " + q.unparse(c))
    pops = [(n, x) for n, x in cfg.find(lambda x: isinstance(x, ast.Call) and q.call_attr(x) == "pop" and _cls_recv(q.receiver(x)) == "_waiting")]
    dels = [(n, x) for n, x in cfg.find(lambda x: isinstance(x, ast.Delete) and any(isinstance(t, ast.Subscript) and _cls_recv(q.dotted(t.value)) == "_waiting" for t in x.targets))]
    if dels:
        raise AnalysisError("_try_cleanup_process removes the entry with `del`: unknown idiom")
    ck.floor("C42.reap", len(pops), 1, "_waiting.pop sites")
    popped = set()
    for n, x in pops:
        ck.ob("C42.reap", fi, x, len(x.args) == 1 and q.dotted(x.args[0]) == pidp, "the entry removed is the polled pid's")
        st = n.ast
        if isinstance(st, ast.Assign) and len(st.targets) == 1 and isinstance(st.targets[0], ast.Name) and st.value is x:
            popped.add(st.targets[0].id)
    sched = [(n, x) for n, x in cfg.find(lambda x: isinstance(x, ast.Call) and any(isinstance(a, ast.Attribute) and a.attr == "_set_returncode" for a in x.args))]
    for n, x in sched:
        fn = x.args[0]
        rest = [q.dotted(a) for a in x.args[1:]]
        ok = q.call_attr(x) in ("add_callback", "add_callback_from_signal", "call_soon", "call_soon_threadsafe") and isinstance(fn, ast.Attribute) and q.dotted(fn.value) in popped and rest == [status]
        ck.ob("C42.reap", fi, x, ok, "_set_returncode of the popped subprocess is scheduled with the status waitpid returned")
        recv_e = resolve_local(fi, x.func.value) if isinstance(x.func, ast.Attribute) else None
        recv_d = q.dotted(recv_e) if recv_e is not None else None
        if recv_d is None:
            raise AnalysisError("_try_cleanup_process: the loop the callback is scheduled on (%s) is not traceable" % q.unparse(x.func)[:60])
        ck.ob("C42.reap", fi, x, recv_d.split(".")[0] in popped and recv_d.endswith(".io_loop"), "scheduled on the subprocess's own IOLoop", construct="own-loop")
    pop_ids = {}
    for n, _x in pops:
        pop_ids[n.id] = pop_ids.get(n.id, 0) + 1
    sch_ids = {}
    for n, _x in sched:
        sch_ids[n.id] = sch_ids.get(n.id, 0) + 1
    # abstract outcome of waitpid: ret_pid == 0 (still running) or ret_pid == pid (exited); ChildProcessError = no such child
    ENV = {"running": {rp: 0, pidp: 4711}, "exited": {rp: 4711, pidp: 4711}}
    BOTH = frozenset(ENV)

    def tr(n, v):
        a, b, k = v
        return (min(a + pop_ids.get(n.id, 0), 2), min(b + sch_ids.get(n.id, 0), 2), k)

    def edge(n, kind, v):
        a, b, k = v
        if kind == "exc" and n.id == wpn.id:
            return (a, b, frozenset(["nochild"]))
        if n.id == wpn.id:
            return (a, b, BOTH)
        test_ = expand_locals(fi, n.ast, keep={rp, pidp}) if n.kind == "test" else None
        if n.kind == "test" and kind in ("true", "false") and k == frozenset(["nochild"]) and rp in q.names_in(test_):
            # waitpid raised: the result variable still holds what it was initialised with before the call
            priors = [st_.value for st_ in own_nodes(fi.node) if isinstance(st_, ast.Assign) and len(st_.targets) == 1 and q.dotted(st_.targets[0]) == rp and isinstance(st_.value, ast.Constant)]
            if len(priors) != 1:
                raise AnalysisError("_try_cleanup_process tests %s after waitpid raised, but its value on that path is not a single constant initialiser" % rp)
            try:
                truth = bool(q.fold(test_, {rp: priors[0].value, pidp: 4711}))
            except q.NotFoldable as e:
                raise AnalysisError("test %s on the waitpid result cannot be evaluated (%s)" % (q.unparse(test_), e))
            return v if truth == (kind == "true") else None
        if n.kind == "test" and kind in ("true", "false") and rp in q.names_in(test_) and k is not None and k <= BOTH:
            try:
                keep = frozenset(c for c in k if bool(q.fold(test_, ENV[c])) == (kind == "true"))
            except q.NotFoldable as e:
                raise AnalysisError("test %s on the waitpid result cannot be evaluated (%s)" % (q.unparse(n.ast), e))
            if not keep:
                return None
            return (a, b, keep)
        return v

    seen = explore(cfg, (0, 0, None), tr, lambda t: False, edge_transfer=edge, follow_exc=True, exc_effect=False)
    for n, x in pops:
        ks = {v[2] for _f, v in seen.get(n.id, ())}
        ck.ob("C42.reap", fi, x, bool(ks) and all(k == frozenset(["exited"]) for k in ks), "the entry is removed only when waitpid reported an exit (ret_pid != 0); a still-running child stays registered")
    states = {v for _f, v in seen.get(cfg.exit.id, ())}
    for a, b, k in sorted(states, key=lambda s: (s[0], s[1], sorted(s[2] or ()))):
        kk = "/".join(sorted(k)) if k else "before-waitpid"
        if k == frozenset(["exited"]):
            ck.ob("C42.reap", fi, fi.node, a == 1 and b == 1, "child exited: exactly one pop and one scheduled _set_returncode (pop=%d, scheduled=%d)" % (a, b), construct="exited pop=%d sched=%d" % (a, b))
        else:
            ck.ob("C42.reap", fi, fi.node, a == 0 and b == 0, "child possibly still running / no such child (%s): nothing is removed or scheduled (pop=%d, scheduled=%d)" % (kk, a, b), construct="%s pop=%d sched=%d" % (kk, a, b))
    ck.ob("C42.reap", fi, fi.node, any(k == frozenset(["exited"]) for _a, _b, k in states), "there is a path on which an exited child is reaped", construct="exited-path-exists")
    ck.floor("C42.reap", len(sched), 1, "_set_returncode scheduling sites")


def _take_and_clear(ck, rule, fi, attr, what):
    """Take-and-clear of ``attr`` in either spelling: `a = self.x; self.x = None` or the tuple swap `a, self.x = self.x, None`.
    Every call of the taken value goes through the local alias with the attribute already cleared.  Returns (#uses, aliases)."""
    aliases = set()
    clear_ids = set()
    for n in fi.cfg.stmt_nodes(lambda n: n.kind == "stmt" and isinstance(n.ast, ast.Assign)):
        st = n.ast
        pairs = []
        for t in st.targets:
            if isinstance(t, ast.Tuple) and isinstance(st.value, ast.Tuple) and len(t.elts) == len(st.value.elts):
                pairs.extend(zip(t.elts, st.value.elts))
            else:
                pairs.append((t, st.value))
        for t, v in pairs:
            if isinstance(t, ast.Name) and q.dotted(v) == attr:
                aliases.add(t.id)
            if q.dotted(t) == attr and isinstance(v, ast.Constant) and v.value is None:
                clear_ids.add(n.id)
    is_clear = lambda n: n.id in clear_ids
    is_set = lambda n: n.kind == "stmt" and isinstance(n.ast, (ast.Assign, ast.AnnAssign)) and attr in q.assigned_paths(n.ast) and n.id not in clear_ids
    ef = event_facts(fi, {"cleared": is_clear}, {"cleared": is_set}, cond_facts=False)
    k = 0
    for node, c in fi.cfg.find(lambda x: isinstance(x, ast.Call) and q.dotted(x.func) in aliases | {attr}):
        k += 1
        d = q.dotted(c.func)
        ck.ob(rule, fi, c, d in aliases and ("@cleared", True) in ef[node.id], what)
    return k, aliases


def rule_decode(ck, cb_attr):
    global _EV
    _EV = Evaluator(ck.repo, F, CLS)
    fi = ck.func(F, CLS + "._set_returncode")
    params = [p for p in fi.params() if p != "self"]
    if len(params) != 1:
        raise AnalysisError("_set_returncode does not take exactly the status")
    status = params[0]
    cfg = fi.cfg
    is_rc = lambda n: n.kind == "stmt" and isinstance(n.ast, (ast.Assign, ast.AnnAssign)) and "self.returncode" in q.assigned_paths(n.ast)
    if not fi.cfg.stmt_nodes(is_rc):
        raise AnalysisError("_set_returncode does not assign self.returncode itself (moved into a helper?): decoding is not followed")
    # per abstract wait status: fold the function (locals included) and read the value stored in self.returncode
    import copy as _copy

    def make_subst(c):
        def sub(e):
            e2 = _EV.subst(e, status, c)

            class T(ast.NodeTransformer):
                def visit_Compare(self, node):
                    if q.unparse(node) in ("sys.platform == 'win32'", "'win32' == sys.platform"):
                        return ast.Constant(value=False)
                    if q.unparse(node) in ("sys.platform != 'win32'",):
                        return ast.Constant(value=True)
                    return self.generic_visit(node)

            return T().visit(e2)
        return sub

    covered = set()
    for c in sorted(EXPECTED):
        sub = make_subst(c)

        def event(n, env, sub=sub):
            if is_rc(n):
                try:
                    return "rc=%r" % (q.fold(sub(n.ast.value), env),)
                except q.NotFoldable as e:
                    raise AnalysisError("returncode expression %s cannot be evaluated for wait status %s (%s)" % (q.unparse(n.ast.value), c, e))
            return None

        outs = concrete_paths(fi, {}, event, subst=sub, event_env=True)
        vals = sorted({t[-1] for _k, t in outs if t and t[-1].startswith("rc=")} | {"none" for _k, t in outs if not any(x.startswith("rc=") for x in t) and _k == "return"})
        if len(vals) != 1:
            raise AnalysisError("_set_returncode: the stored return code for wait status %s is not determined by folding (%s)" % (c, vals))
        what = "killed by signal %d -> returncode == %d" % (STATUS[c][1], EXPECTED[c]) if STATUS[c][0] else "exit status %d -> returncode == %d" % (STATUS[c][2], EXPECTED[c])
        ck.ob("C42.status-decoding", fi, fi.node, vals[0] == "rc=%r" % (EXPECTED[c],), what + " (stored: %s)" % vals[0], construct="%s -> %s" % (c, vals[0]))
        covered.add(c)
    # callback: take-and-clear, called with the decoded code, after decoding
    decode_fi = fi
    if not any(isinstance(x, ast.Attribute) and q.dotted(x) == cb_attr for x in q.walk_body(fi.node)):
        # the callback part lives in a private helper called from _set_returncode: analyse it there, and require the
        # decoding to dominate the call of that helper
        hs = []
        for node_, c_ in fi.cfg.find(lambda x: isinstance(x, ast.Call) and isinstance(x.func, ast.Attribute) and q.dotted(x.func.value) == "self" and ck.repo.has_func(F, CLS + "." + x.func.attr)):
            h_ = ck.repo.func(F, CLS + "." + c_.func.attr)
            if any(isinstance(x, ast.Attribute) and q.dotted(x) == cb_attr for x in q.walk_body(h_.node)):
                hs.append((node_, c_, h_))
        if len(hs) != 1 or hs[0][1].args or hs[0][1].keywords:
            raise AnalysisError("_set_returncode neither uses %s nor calls exactly one argument-less helper that does" % cb_attr)
        hn, hcall, fi = hs[0]
        ck.use(fi)
        efd = event_facts(decode_fi, {"rc": is_rc}, cond_facts=False)
        ck.ob("C42.callback-once", decode_fi, hcall, ("@rc", True) in efd[hn.id], "the return code is decoded on every path before the callback helper runs", construct="decoded-before " + q.unparse(hcall))
        cfg = fi.cfg
    k, aliases = _take_and_clear(ck, "C42.callback-once", fi, cb_attr, "the exit callback is taken into a local and the attribute cleared before it is invoked (a re-entrant or repeated _set_returncode cannot run it twice)")
    ck.floor("C42.callback-once", k, 1, "uses of the exit callback")
    cbcalls = [(n, c) for n, c in cfg.find(lambda x: isinstance(x, ast.Call) and q.dotted(x.func) in aliases | {cb_attr})]
    ef = event_facts(fi, {"rc": is_rc}, cond_facts=False)
    for n, c in cbcalls:
        rc_locals = {q.dotted(n_.ast.value) for n_ in decode_fi.cfg.stmt_nodes(is_rc) if isinstance(n_.ast.value, ast.Name)}
        ck.ob("C42.callback-once", fi, c, len(c.args) == 1 and (q.dotted(c.args[0]) == "self.returncode" or (fi is decode_fi and q.dotted(c.args[0]) in rc_locals)) and not c.keywords,
              "the callback receives the decoded return code")
        if fi is decode_fi:
            ck.ob("C42.callback-once", fi, c, ("@rc", True) in ef[n.id], "the return code is decoded on every path before the callback runs", construct="decoded-before " + q.unparse(c))
    ids = {n.id for n, _c in cbcalls}
    tracked = {cb_attr, cb_attr + " is None"} | set(aliases) | {a_ + " is None" for a_ in aliases}
    seen2 = explore(cfg, 0, lambda n, v: min(v + (1 if n.id in ids else 0), 2), lambda t: t in tracked, follow_exc=False)
    for facts_, cnt in sorted(seen2.get(cfg.exit.id, ()), key=repr):
        unset = any(((t_, False) in facts_) if not t_.endswith(" is None") else ((t_, True) in facts_) for t_ in tracked)
        ck.ob("C42.callback-once", fi, fi.node, cnt == 1 or (cnt == 0 and unset), "a registered exit callback runs exactly once per _set_returncode (count=%d%s)" % (cnt, ", none registered" if unset else ""),
              construct="callback count=%d unset=%s" % (cnt, unset))
    # the attribute is written only by registration and the clear
    for m in ck.repo.methods(F, CLS):
        for st in q.stores_to(m.node, cb_attr):
            ok = m.name in ("__init__", "set_exit_callback", "_set_returncode", fi.name)
            ck.ob("C42.callback-once", m, st, ok, "only __init__, set_exit_callback and the take-and-clear write %s" % cb_attr)
    # _set_returncode is only reached through the scheduled call in _try_cleanup_process
    for m in ck.repo.module(F).funcs.values():
        for n in own_nodes(m.node):
            if isinstance(n, ast.Attribute) and n.attr == "_set_returncode":
                ck.ob("C42.callback-once", m, n, m.qualname == CLS + "._try_cleanup_process", "_set_returncode is reached only from the reap path (after the single pop)")


def rule_wait_for_exit(ck):
    fi = ck.func(F, CLS + ".wait_for_exit")
    outer_params = [p for p in fi.params() if p != "self"]
    if len(outer_params) != 1:
        raise AnalysisError("wait_for_exit lost its raise_error parameter")
    flag_outer = outer_params[0]
    # future created locally, handed to the callback, returned
    futs = [p for st in own_nodes(fi.node) if isinstance(st, (ast.Assign, ast.AnnAssign)) and isinstance(st.value, ast.Call) and q.call_attr(st.value) in ("Future", "create_future") for p in q.assigned_paths(st)]
    if len(futs) != 1:
        raise AnalysisError("wait_for_exit does not create exactly one Future")
    fut_outer = futs[0]
    rets = [n for n in own_nodes(fi.node) if isinstance(n, ast.Return)]
    ck.ob("C42.wait-for-exit", fi, rets[0] if rets else fi.node, len(rets) == 1 and q.dotted(rets[0].value) == fut_outer, "wait_for_exit returns the future its callback settles")
    regs = [c for c in q.find_calls(fi.node, "self.set_exit_callback") if len(c.args) == 1]
    if not regs and not any(isinstance(c, ast.Call) and isinstance(c.func, ast.Attribute) and q.dotted(c.func.value) == "self" for c in q.calls(fi.node)):
        # fully visible function without any self call: positively nothing registers a callback
        ck.ob("C42.wait-for-exit", fi, fi.node, False, "wait_for_exit registers a settling callback through set_exit_callback (none is registered: the future is never settled)", construct="callback-registered")
        return
    if len(regs) != 1:
        raise AnalysisError("wait_for_exit does not register exactly one callback through set_exit_callback")
    handed = resolve_local(fi, regs[0].args[0])
    # the callback: a nested def, or a lambda / functools.partial that forwards to a (static/class/instance) method
    # of the class with the future and raise_error bound: the method is analysed exactly like the closure would be
    cb = ret = flag = fut = None

    def method_of(fexpr):
        d = q.dotted(fexpr)
        if isinstance(fexpr, ast.Name) and ck.repo.has_func(F, fexpr.id):
            return ck.repo.func(F, fexpr.id)  # a module-level function standing in for the closure
        if d and "." in d and d.split(".")[0] in ("self", "cls", CLS) and ck.repo.has_func(F, CLS + "." + d.split(".")[-1]):
            return ck.repo.func(F, CLS + "." + d.split(".")[-1])
        return None

    def bind(m, args, free_name=None):
        """Map the method's parameters to (ret, flag, fut) from the argument expressions; unbound remainder = ret."""
        mp = [p for p in m.params() if p not in ("self", "cls")]
        if len(args) > len(mp):
            raise AnalysisError("callback forwarding to %s passes too many arguments" % m.qualname)
        r = f = fu = None
        for pn, a in zip(mp, args):
            d = q.dotted(a)
            if d == flag_outer:
                f = pn
            elif d == fut_outer:
                fu = pn
            elif free_name is not None and d == free_name:
                r = pn
            else:
                raise AnalysisError("callback forwarding to %s binds %s to something other than the future / raise_error / the return code" % (m.qualname, pn))
        rest = mp[len(args):]
        if r is None and len(rest) == 1:
            r = rest[0]
        return r, f, fu

    if isinstance(handed, ast.Name):
        nested = [n for n in ck.repo.nested(fi) if n.name == handed.id]
        if len(nested) != 1:
            raise AnalysisError("wait_for_exit: the registered callback %s is not a nested function" % handed.id)
        cb = ck.use(nested[0])
        ps = cb.params()
        if len(ps) != 1:
            raise AnalysisError("wait_for_exit callback does not take exactly the return code")
        ret, flag, fut = ps[0], flag_outer, fut_outer
    elif isinstance(handed, ast.Lambda) and isinstance(handed.body, ast.Call) and len(handed.args.args) == 1 and not handed.body.keywords:
        m = method_of(handed.body.func)
        if m is None:
            raise AnalysisError("wait_for_exit: lambda callback does not forward to a function/method of this module")
        cb = ck.use(m)
        ret, flag, fut = bind(m, handed.body.args, free_name=handed.args.args[0].arg)
    elif isinstance(handed, ast.Call) and q.call_attr(handed) == "partial" and handed.args and not handed.keywords:
        m = method_of(handed.args[0])
        if m is None:
            raise AnalysisError("wait_for_exit: partial callback does not forward to a function/method of this module")
        cb = ck.use(m)
        ret, flag, fut = bind(m, handed.args[1:])
    else:
        raise AnalysisError("wait_for_exit: callback of unknown shape (%s)" % q.unparse(handed)[:60])
    if None in (ret, flag, fut):
        raise AnalysisError("wait_for_exit: cannot bind return code / raise_error / future in the callback %s" % cb.qualname)
    ck.ob("C42.wait-for-exit", fi, regs[0], True, "the settling callback (%s) is registered through set_exit_callback" % cb.qualname, construct="callback-registered")
    ss = settle_sites(cb)
    ck.floor("C42.wait-for-exit", len(ss), 2, "settle sites in the callback")
    for node, c, p, kind in ss:
        ck.ob("C42.settle", cb, c, p == fut and kind == "safe", "the future is settled through *_unless_cancelled (a caller that gave up waiting must not make the SIGCHLD path raise)")
    res_ids, exc_ids = {}, {}
    for node, c, p, kind in ss:
        nm = q.call_attr(c)
        is_exc = "exception" in nm or "exc_info" in nm
        (exc_ids if is_exc else res_ids)[node.id] = c
        payload = c.args[1] if kind == "safe" and len(c.args) > 1 else (c.args[0] if kind == "raw" and c.args else None)
        if payload is not None:
            payload = resolve_local(cb, payload)
        if is_exc:
            if isinstance(payload, ast.Name):
                raise AnalysisError("wait_for_exit callback: the exception object %s is not traceable to its construction" % payload.id)
            ok = isinstance(payload, ast.Call) and q.call_attr(payload) == "CalledProcessError" and payload.args and q.dotted(payload.args[0]) == ret
            ck.ob("C42.wait-for-exit", cb, c, ok, "the error outcome is CalledProcessError carrying the return code")
        else:
            ck.ob("C42.wait-for-exit", cb, c, payload is not None and q.dotted(payload) == ret, "the result outcome is the return code itself")
    # branch table by finite-domain evaluation of the callback: (return code, raise_error) -> the one settlement made
    def event(n):
        if n.id in exc_ids:
            return "error"
        if n.id in res_ids:
            return "result"
        return None

    rows = 0
    for rc in (0, 1, 2, 255, -9, -15):
        for flagv in (True, False):
            paths = concrete_paths(cb, {ret: rc, flag: flagv}, event)
            traces = sorted({t for kind, t in paths if kind == "return"})
            if len(traces) != 1:
                raise AnalysisError("wait_for_exit callback: outcome for (%s=%r, %s=%r) is not determined by folding its conditions (%d different paths)" % (ret, rc, flag, flagv, len(traces)))
            want = ("error",) if (rc != 0 and flagv) else ("result",)
            rows += 1
            ck.ob("C42.wait-for-exit", cb, cb.node, traces[0] == want,
                  "return code %r with raise_error=%r settles the future exactly once with %s (found: %s)" % (rc, flagv, "CalledProcessError" if want == ("error",) else "the code as result", list(traces[0]) or "nothing"),
                  construct="code=%r raise_error=%r -> %s" % (rc, flagv, ",".join(traces[0]) or "none"))
    ck.floor("C42.wait-for-exit", rows, 12, "rows of the outcome table")


def run(ck):
    ck.repo = strip_annotations(ck.repo, F)
    ck.rule("C42.register-before-poll", "set_exit_callback stores the callback, installs the SIGCHLD handler and registers the subprocess before polling it immediately")
    ck.rule("C42.sigchld", "initialize routes signal.SIGCHLD to _cleanup")
    ck.rule("C42.cleanup-all", "_cleanup polls every registered pid over a copy of the table")
    ck.rule("C42.reap", "_try_cleanup_process: non-blocking waitpid, ChildProcessError tolerated, still-running child left registered, exactly one pop and one scheduled _set_returncode(status) for an exited child")
    ck.rule("C42.status-decoding", "self.returncode is -signal for signalled children and the exit status otherwise (evaluated on abstract exit classes)")
    ck.rule("C42.callback-once", "the exit callback is consumed by take-and-clear, invoked once with the decoded return code, and _set_returncode is reached only from the reap path")
    ck.rule("C42.wait-for-exit", "wait_for_exit's callback settles the returned future exactly once: CalledProcessError(ret) iff ret != 0 and raise_error, else result ret")
    ck.rule("C42.settle", "the wait_for_exit future is settled only through the *_unless_cancelled helpers")
    rule_wait_scope(ck)
    cb_attr = rule_register(ck)
    if cb_attr is None:
        cb_attr = "self._exit_callback"
    rule_sigchld(ck)
    rule_try_cleanup(ck)
    rule_decode(ck, cb_attr)
    rule_wait_for_exit(ck)
    ck.assume("A-wait: os.WEXITSTATUS(status) == 0 and not os.WIFEXITED(status) for a signal-terminated status (POSIX wait encoding)")


# ---------------------------------------------------------------------------
# mutants


def _m(qn, edit):
    return lambda repo: mutate(repo, F, CLS + "." + qn, edit)


def _src(n):
    return ast.unparse(n)


def _swap_adjacent(pa, pb):
    def edit(root):
        for node in ast.walk(root):
            body = getattr(node, "body", None)
            if isinstance(body, list):
                for i in range(len(body) - 1):
                    if pa(body[i]) and pb(body[i + 1]):
                        body[i], body[i + 1] = body[i + 1], body[i]
                        return True
        return False
    return edit


def _poll_before_register(root):
    b = root.body
    i = [k for k, st in enumerate(b) if "_try_cleanup_process" in _src(st)]
    j = [k for k, st in enumerate(b) if "_waiting[" in _src(st)]
    if not i or not j:
        return False
    b[i[0]], b[j[0]] = b[j[0]], b[i[0]]
    return True


def _poll_only_first(root):
    b = root.body
    keep = [st for st in b if not (isinstance(st, ast.Expr) and isinstance(st.value, ast.Call) and ("initialize" in _src(st) or "_try_cleanup_process" in _src(st)))]
    if len(keep) == len(b):
        return False
    keep.append(parse_stmt("if not Subprocess._initialized:\n    Subprocess.initialize()\n    Subprocess._try_cleanup_process(self.pid)"))
    root.body = keep
    return True


def _init_last(root):
    b = root.body
    i = [k for k, st in enumerate(b) if isinstance(st, ast.Expr) and isinstance(st.value, ast.Call) and "initialize" in _src(st)]
    if not i:
        return False
    st = b.pop(i[0])
    b.append(st)
    return True


MUTANTS = [
    ("poll before the subprocess is registered", _m("set_exit_callback", _poll_before_register), "C42.register-before-poll"),
    ("SIGCHLD handler installed after the immediate poll", _m("set_exit_callback", _init_last), "C42.register-before-poll"),
    ("seeded C42-adv2: immediate poll only when the handler was not yet installed", _m("set_exit_callback", lambda root: _poll_only_first(root)), "C42.register-before-poll"),
    ("no immediate poll on registration", _m("set_exit_callback", remove_stmts(lambda st: "_try_cleanup_process" in _src(st))), "C42.register-before-poll"),
    ("exit callback invoked without clearing it", _m("_set_returncode", remove_stmts(lambda st: _src(st) == "self._exit_callback = None")), "C42.callback-once"),
    ("seeded C42-adv1: _cleanup stops after the first reaped child", _m("_cleanup", replace_stmt(lambda st: isinstance(st, ast.Expr) and "_try_cleanup_process" in _src(st), lambda st: [parse_stmt("if cls._try_cleanup_process(pid):\n    break")])), "C42.cleanup-all"),
    ("seeded C42-adv5: status decoded by hand, low byte taken as the signal number (core flag included)", _m("_set_returncode", lambda root: _hand_decode(root)), "C42.status-decoding"),
    ("exit status masked to 7 bits", _m("_set_returncode", replace_expr(lambda n: isinstance(n, ast.Call) and _src(n) == "os.WEXITSTATUS(status)", lambda n: parse_expr("os.WEXITSTATUS(status) & 127"))), "C42.status-decoding"),
    ("positive signal number", _m("_set_returncode", replace_expr(lambda n: isinstance(n, ast.UnaryOp) and isinstance(n.op, ast.USub) and "WTERMSIG" in _src(n), lambda n: n.operand)), "C42.status-decoding"),
    ("WIFEXITED taken for WIFSIGNALED", _m("_set_returncode", replace_expr(lambda n: isinstance(n, ast.Call) and _src(n) == "os.WIFSIGNALED(status)", lambda n: parse_expr("os.WIFEXITED(status)"))), "C42.status-decoding"),
    ("_cleanup polls only while iterating the live table", _m("_cleanup", replace_expr(lambda n: isinstance(n, ast.Call) and isinstance(n.func, ast.Name) and n.func.id == "list", lambda n: n.args[0])), "C42.cleanup-all"),
    ("_cleanup stops after the first pid", _m("_cleanup", replace_stmt(lambda st: isinstance(st, ast.Expr) and "_try_cleanup_process" in _src(st), lambda st: [st, ast.Break()])), "C42.cleanup-all"),
    ("poll with a wildcard pid", _m("_try_cleanup_process", replace_expr(lambda n: isinstance(n, ast.Call) and _src(n.func) == "os.waitpid", lambda n: parse_expr("os.waitpid(-1, os.WNOHANG)"))), "C42.reap"),
    ("blocking waitpid", _m("_try_cleanup_process", replace_expr(lambda n: isinstance(n, ast.Attribute) and n.attr == "WNOHANG", lambda n: ast.Constant(value=0))), "C42.reap"),
    ("still-running child is unregistered", _m("_try_cleanup_process", remove_stmts(lambda st: isinstance(st, ast.If) and "ret_pid == 0" in _src(st.test))), "C42.reap"),
    ("_set_returncode scheduled with the pid instead of the status", _m("_try_cleanup_process", replace_expr(lambda n: isinstance(n, ast.Name) and n.id == "status" and isinstance(n.ctx, ast.Load), lambda n: ast.Name(id="ret_pid", ctx=ast.Load()))), "C42.reap"),
    ("ChildProcessError escapes the poll", _m("_try_cleanup_process", replace_stmt(lambda st: isinstance(st, ast.Try), lambda st: list(st.body))), "C42.reap"),
    ("wait_for_exit registers no callback (future never settled)", _m("wait_for_exit", remove_stmts(lambda st: isinstance(st, ast.Expr) and isinstance(st.value, ast.Call) and "set_exit_callback" in _src(st))), "C42.wait-for-exit"),
    ("seeded C42-adv4: signal deaths no longer raise (ret > 0)", _m("wait_for_exit", replace_expr(lambda n: isinstance(n, ast.Compare) and _src(n) == "ret != 0", lambda n: parse_expr("ret > 0"))), "C42.wait-for-exit"),
    ("wait_for_exit raises whenever raise_error is set or status is non-zero", _m("wait_for_exit", replace_expr(lambda n: isinstance(n, ast.BoolOp) and isinstance(n.op, ast.And) and "raise_error" in _src(n), lambda n: ast.BoolOp(op=ast.Or(), values=n.values))), "C42.wait-for-exit"),
    ("wait_for_exit ignores raise_error", _m("wait_for_exit", replace_expr(lambda n: isinstance(n, ast.BoolOp) and "raise_error" in _src(n), lambda n: n.values[0])), "C42.wait-for-exit"),
    ("wait_for_exit settles with raw set_result", _m("wait_for_exit", replace_expr(lambda n: isinstance(n, ast.Call) and _src(n.func) == "future_set_result_unless_cancelled", lambda n: parse_expr("future.set_result(ret)"))), "C42.settle"),
    ("initialize() guard inverted: handler never installed", _m("initialize", replace_expr(lambda n: isinstance(n, ast.Attribute) and n.attr == "_initialized" and isinstance(n.ctx, ast.Load), lambda n: parse_expr("not cls._initialized"))), "C42.sigchld"),
    ("SIGCHLD routed to a single-pid poll", _m("initialize", replace_expr(lambda n: isinstance(n, ast.Attribute) and n.attr == "_cleanup", lambda n: parse_expr("cls._try_cleanup_process"))), "C42.sigchld"),
    ("callback gets the raw wait status", _m("_set_returncode", replace_expr(lambda n: isinstance(n, ast.Call) and _src(n) == "callback(self.returncode)", lambda n: parse_expr("callback(status)"))), "C42.callback-once"),
]


def _hand_decode(root):
    for n in ast.walk(root):
        if isinstance(n, ast.If) and _src(n.test) == "os.WIFSIGNALED(status)":
            for par in ast.walk(root):
                for fld in ("body", "orelse"):
                    blk = getattr(par, fld, None)
                    if isinstance(blk, list) and n in blk:
                        i = blk.index(n)
                        blk[i:i + 1] = [parse_stmt("signum = status & 0xFF"), parse_stmt("self.returncode = -signum if signum else status >> 8")]
                        return True
    return False
