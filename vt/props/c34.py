"""C34 — conditions and events wake exactly the right waiters.

Decided statically (DESIGN.md §4 C34): a per-iteration typestate over
``Condition.notify`` (a popped waiter is counted against ``n`` and collected iff
it is not done; nothing else is skipped; popping happens only while ``n`` is
non-zero), FIFO-only use of the waiter queue, the wake-up loop resolving every
collected waiter with True, ``notify_all`` = ``notify(len(waiters))``, the
timeout callback of ``Condition.wait`` resolving a live waiter with False;
``Event.set/clear/wait`` exit-state typestates (value stored, all waiters woken
under a ``done()`` guard; immediate completion only when set; registration plus
self-removal; timeout wrapper plus cancellation of the inner future) and the
settle discipline of ``gen.with_timeout``.  Not decided: the schedule
quantifier (thin clause set, see DESIGN.md §5).
"""
from __future__ import annotations

import ast

from .. import q
from ..cfg import must_facts, holds, canon_fact
from ..rules import settle_sites, check_settles
from ..mutate import mutate, remove_stmts, replace_expr, replace_stmt, parse_stmt, parse_expr
from ..model import AnalysisError
from ..x_syncnorm import normalized

NORM_MODULES = ("tornado/locks.py", "tornado/queues.py", "tornado/gen.py", "tornado/concurrent.py", "tornado/ioloop.py", "tornado/platform/asyncio.py")
from ..x_sync import callable_cfg, check_outcome_reads, in_cycle, check_none_tests, own_walk, guard_models, aug_delta, node_counts, method_call_on, exit_states, lambda_or_func_body_calls, own_find, own_settle_sites
from .c33 import wrong_timer_api, check_fifo, check_gc, check_timeout_cb, _is_grant, _grant_target, _grant_value, _timeout_param, _drop_done_test, _rename_attr

TECHNIQUE = "typestate over the CFG (wake-up accounting), settle-discipline and who-may-touch lint"
EXPLANATION = (
    "Per-iteration typestate of Condition.notify (popped -> counted & collected iff not done), guard of the pop folded over n, "
    "classification of every use of Condition._waiters (append/popleft only), wake-up loop resolves exactly the collected waiters with True; "
    "Condition.wait exit states (one append, timer iff timeout) and its timeout callback (False, once, under not done()); "
    "Event.set/clear/wait exit-state typestates; SETTLE rule at every settle; gen.with_timeout arms one timer whose callback fails only a pending result."
)
NOT_DECIDED = (
    "the quantifier over schedules (orderings of notify / timer expiry / set / clear against a sequential model); that asyncio runs done-callbacks "
    "(self-removal, timer removal) before the object is observed again; exact deadline arithmetic of the timers"
)
LEVEL_NOTE = "thin clause set: necessary code-shape conditions only"

L = "tornado/locks.py"
G = "tornado/gen.py"
WAIT = "self._waiters"
COND_FAMILY = ("_TimeoutGarbageCollector", "Condition")


def _names(e):
    return {n.id for n in ast.walk(e) if isinstance(n, ast.Name)}


def _wake_pass(ck, rule, fi, lp, ss, x, what):
    """One pass of loop ``lp``: the element ``x`` is settled (sites ``ss``) exactly
    once when nothing says it is finished, and not at all under a done()/cancelled() fact."""
    from ..cfg import explore
    sc = node_counts(fi, lambda y: any(y is s[1] for s in ss))
    donef, canf = "%s.done()" % x, "%s.cancelled()" % x
    seen = explore(fi.cfg, None, lambda n, v: 0 if n.id == lp.id else (None if v is None else min(2, v + sc.get(n.id, 0))), lambda t: t in (donef, canf), follow_exc=False)
    back = [(f, v) for f, v in seen.get(lp.id, ()) if v is not None]
    for f, v in sorted(back, key=repr):
        live = (donef, True) not in f and (canf, True) not in f
        ck.ob(rule, fi, lp.ast.iter, v == (1 if live else 0), "%s (live=%s settles=%d)" % (what, live, v), construct="wake pass live=%s settles=%d" % (live, v))
    return len(back)


def _leaves_loop(loop):
    """A break (of this loop) or return inside the loop body."""
    def walk(stmts, depth):
        for st in stmts:
            for n in q.walk_local(st):
                if isinstance(n, ast.Return):
                    return True
            if isinstance(st, ast.Break) and depth == 0:
                return True
            if isinstance(st, (ast.For, ast.While, ast.AsyncFor)):
                if walk(st.body, depth + 1) or walk(st.orelse, depth):
                    return True
            else:
                for fld in ("body", "orelse", "finalbody"):
                    sub = getattr(st, fld, None)
                    if isinstance(sub, list) and sub and isinstance(sub[0], ast.stmt) and walk(sub, depth):
                        return True
                for h in getattr(st, "handlers", []) or []:
                    if walk(h.body, depth):
                        return True
        return False
    return walk(loop.body, 0)


# ---------------------------------------------------------------------------
# Condition


def check_cond_wait(ck):
    fi = ck.func(L, "Condition.wait")
    tparam = _timeout_param(fi)
    enqs = own_find(fi, lambda x: method_call_on(x, WAIT, "append", "appendleft", "insert"))
    tmo = own_find(fi, lambda x: isinstance(x, ast.Call) and q.call_attr(x) == "add_timeout")
    ck.floor("C34.cond-wait", len(enqs), 1, "enqueue sites in Condition.wait")
    ec = node_counts(fi, lambda x: any(x is c for _, c in enqs))
    tc = node_counts(fi, lambda x: any(x is c for _, c in tmo))
    sc = node_counts(fi, lambda x: any(x is s[1] for s in own_settle_sites(fi)))
    tfact = "%s is None" % tparam
    normal, _ = exit_states(fi.cfg, (0, 0, 0), lambda n, v: (min(2, v[0] + ec.get(n.id, 0)), min(2, v[1] + tc.get(n.id, 0)), min(2, v[2] + sc.get(n.id, 0))), track=lambda t: t == tfact)
    ck.floor("C34.cond-wait", len(normal), 2, "normal exit states of Condition.wait")
    for facts, (e, t, s) in normal:
        ck.ob("C34.cond-wait", fi, fi.node, e == 1 and s == 0, "wait queues its fresh waiter exactly once and does not settle it itself (enqueued=%d settled=%d)" % (e, s), construct="exit enqueued=%d settled=%d" % (e, s))
        if (tfact, True) in facts:
            ck.ob("C34.cond-timeout", fi, fi.node, t == 0, "no timer without a timeout (timers=%d)" % t, construct="exit no-timeout timers=%d" % t)
        else:
            if not tmo and wrong_timer_api(ck, "C34.cond-timeout", fi, tparam):
                continue
            if not tmo and any(tparam in {q.dotted(a) for a in c.args} for c in q.calls(fi.node)):
                raise AnalysisError("%s: timeout handed to a helper; registration idiom unknown" % fi.site())
            ck.ob("C34.cond-timeout", fi, fi.node, t == 1, "a wait with a timeout arms exactly one timer (timers=%d)" % t, construct="exit timeout timers=%d" % t)
    names = {q.dotted(c.args[0]) if c.args else None for _, c in enqs}
    rets = [r for r in own_walk(fi.node) if isinstance(r, ast.Return)]
    names |= {q.dotted(r.value) if r.value is not None else None for r in rets}
    one = len(names) == 1 and None not in names and bool(rets)
    waiter = next(iter(names)) if one else None
    fresh = one and any(isinstance(getattr(st, "value", None), ast.Call) and q.call_attr(st.value) in ("Future", "_create_future") for st in q.stores_to(fi.node, waiter))
    ck.ob("C34.cond-wait", fi, fi.node, bool(fresh), "the future queued and returned by wait is one fresh local (%s)" % sorted(map(str, names)), construct="waiter identity")
    if waiter:
        check_timeout_cb(ck, fi, waiter, tmo, tparam, R="C34.cond-timeout", RS="C34.settle", expect="false", val=None, safe_ok=False)


def check_notify(ck):
    fi = ck.func(L, "Condition.notify")
    cfg = fi.cfg
    ps = [p for p in fi.params() if p != "self"]
    if len(ps) != 1:
        raise AnalysisError("%s: expected one parameter (n)" % fi.site())
    # the counter: the parameter itself, or a local initialised from it (`remaining = n`) that is the one decremented
    nvar = ps[0]
    dec_names = set()
    for st in own_walk(fi.node):
        if isinstance(st, ast.AugAssign) and isinstance(st.op, ast.Sub) and isinstance(st.target, ast.Name):
            dec_names.add(st.target.id)
        elif isinstance(st, ast.Assign) and len(st.targets) == 1 and isinstance(st.targets[0], ast.Name) and isinstance(st.value, ast.BinOp) and isinstance(st.value.op, ast.Sub) and q.dotted(st.value.left) == st.targets[0].id:
            dec_names.add(st.targets[0].id)
    copies = {nm for nm in dec_names if nm != ps[0] and any(isinstance(st, ast.Assign) and q.dotted(st.value) == ps[0] for st in q.stores_to(fi.node, nm))}
    if len(copies) == 1 and ps[0] not in dec_names:
        nvar = next(iter(copies))
    elif copies:
        raise AnalysisError("%s: several counters derived from %s" % (fi.site(), ps[0]))
    counter_inits = [st for st in q.stores_to(fi.node, nvar) if isinstance(st, ast.Assign) and q.dotted(st.value) == ps[0]] if nvar != ps[0] else []
    pops = own_find(fi, lambda x: method_call_on(x, WAIT, "popleft", "pop"))
    ck.floor("C34.notify-ts", len(pops), 1, "waiter removal sites in notify")
    popvars = set()
    for n, c in pops:
        if n.kind == "stmt" and isinstance(n.ast, ast.Assign) and n.ast.value is c and len(n.ast.targets) == 1 and isinstance(n.ast.targets[0], ast.Name):
            popvars.add(n.ast.targets[0].id)
        else:
            raise AnalysisError("%s: popped waiter not bound to a local" % fi.site(c))
    if len(popvars) != 1:
        raise AnalysisError("%s: several popped-waiter locals" % fi.site())
    w = next(iter(popvars))
    # the local list the live waiters are collected in
    collects = own_find(fi, lambda x: isinstance(x, ast.Call) and isinstance(x.func, ast.Attribute) and x.func.attr == "append" and isinstance(x.func.value, ast.Name) and len(x.args) == 1 and q.dotted(x.args[0]) == w)
    ck.floor("C34.notify-ts", len(collects), 1, "sites collecting the popped waiter")
    lists = {c.func.value.id for _, c in collects}
    if len(lists) != 1:
        raise AnalysisError("%s: live waiters collected into several lists" % fi.site())
    lst = next(iter(lists))
    decs = {}
    for n in cfg.stmt_nodes(lambda n: n.kind == "stmt"):
        if any(n.ast is st for st in counter_inits):
            continue
        d = aug_delta(n.ast, nvar)
        if d is not None:
            decs[n.id] = d
    pop_ids = {n.id for n, _ in pops}
    col_ids = node_counts(fi, lambda x: any(x is c for _, c in collects))
    donefact = "%s.done()" % w

    # value: (pending, counted, collected, bad)
    def close(v):
        pending, counted, collected, bad = v
        if pending or counted != collected:
            bad = True
        return (False, 0, 0, bad)

    def transfer(n, v):
        if n.id in pop_ids:
            _p, _c, _k, bad = close(v)
            return (True, 0, 0, bad)
        pending, counted, collected, bad = v
        if n.id in decs:
            if decs[n.id] != -1:
                bad = True
            counted = min(2, counted + 1)
        if n.id in col_ids:
            collected = min(2, collected + col_ids[n.id])
            pending = False
        return (pending, counted, collected, bad)

    def edge(n, kind, v):
        pending, counted, collected, bad = v
        if n.kind == "test" and kind in ("true", "false"):
            t, pol = canon_fact(n.ast, kind == "true")
            if t == donefact and pol:
                pending = False
        return (pending, counted, collected, bad)

    normal, _ = exit_states(cfg, (False, 0, 0, False), transfer, edge_transfer=edge)
    ck.floor("C34.notify-ts", len(normal), 1, "normal exit states of notify")
    for _f, v in normal:
        bad = close(v)[3]
        ck.ob("C34.notify-ts", fi, fi.node, not bad,
              "every popped waiter is either done (skipped, not counted) or counted once against n and collected once; nothing else is dropped",
              construct="exit notify accounting bad=%s" % bad)
    facts = must_facts(cfg)
    for n, c in pops:
        ms = guard_models(facts[n.id], [nvar], range(0, 4))
        ck.ob("C34.notify-ts", fi, c, all(v != 0 for (v,) in ms) and holds(facts[n.id], WAIT, True), "a waiter is popped only while n is non-zero and the queue is non-empty (guard admits n in %s)" % sorted(v for (v,) in ms))
    for n, c in pops:
        ck.ob("C34.notify-ts", fi, c, in_cycle(cfg, n), "waiters are popped in a loop that continues until n is used up or the queue is empty (notify(n) wakes min(n, live waiters), not at most one)")
    for n, c in collects:
        ck.ob("C34.notify-ts", fi, c, holds(facts[n.id], donefact, False), "only a waiter that is not done() is collected for wake-up")
    # (that n is consumed only by such a waiter follows from the per-iteration typestate: counted == collected)
    # wake-up loop: every collected waiter resolved True, on every normal path
    loops = [n for n in cfg.stmt_nodes(lambda n: n.kind == "for") if isinstance(n.ast.iter, ast.Name) and n.ast.iter.id == lst and isinstance(n.ast.target, ast.Name)]
    ck.ob("C34.notify-wake", fi, fi.node, len(loops) == 1, "one loop walks the collected waiters (%s)" % lst, construct="wake loop count=%d" % len(loops))
    for lp in loops:
        x = lp.ast.target.id
        ck.ob("C34.notify-wake", fi, lp.ast.iter, cfg.postdominates(lp, cfg.entry), "the wake-up loop is reached on every normal path of notify")
        ss = [s for s in own_settle_sites(fi) if any(s[1] is y for st in lp.ast.body for y in ast.walk(st))]
        ck.ob("C34.notify-wake", fi, lp.ast.iter, len(ss) >= 1, "the wake-up loop settles its element")
        _wake_pass(ck, "C34.notify-wake", fi, lp, ss, x, "one pass of the wake-up loop resolves a collected waiter exactly once")
        ck.ob("C34.notify-wake", fi, lp.ast.iter, not _leaves_loop(lp.ast), "the wake-up loop visits every collected waiter (no break/return inside)")
        for s in ss:
            v = _grant_value(s[1]) if _is_grant(s[1]) else None
            ck.ob("C34.notify-wake", fi, s[1], v is not None and q.is_const(v, True) and s[2] == x, "a notified waiter resolves to True")
    # the collected list is not otherwise modified
    other = [c for c in q.calls(fi.node) if isinstance(c.func, ast.Attribute) and q.dotted(c.func.value) == lst and c.func.attr not in ("append",)]
    ck.ob("C34.notify-ts", fi, fi.node, not other and len(q.stores_to(fi.node, lst)) == 1, "the list of waiters to wake is only appended to", construct="wake list ops")
    n = check_settles(ck, "C34.settle", fi, allow_safe_unguarded=True)
    ck.floor("C34.settle", n, 1, "settle sites in notify")
    ck.note("notify: *_unless_cancelled accepted at the wake-up site because the collected waiters were tested not done() and there is no suspension point or callback run between collection and wake-up")
    susp = [n for n in cfg.stmt_nodes(lambda n: n.suspends)]
    ck.ob("C34.notify-ts", fi, fi.node, not susp, "notify has no suspension point between counting and waking", construct="suspension in notify")

    dflt = fi.node.args.defaults
    ck.ob("C34.notify-wake", fi, fi.node, len(dflt) == 1 and q.is_const(dflt[0], 1), "notify() without argument wakes one waiter (default n = 1)", construct="notify default n")
    na = ck.func(L, "Condition.notify_all")
    cs = [c for c in q.calls(na.node) if method_call_on(c, "self", "notify")]
    ok = len(cs) == 1 and len(cs[0].args) == 1 and q.is_call(cs[0].args[0], "len") and q.dotted(cs[0].args[0].args[0]) == WAIT
    ck.ob("C34.notify-wake", na, na.node, ok, "notify_all is notify(len(self._waiters)) (an upper bound of the live waiters)", construct="notify_all delegation")


# ---------------------------------------------------------------------------
# Event

EV = "self._value"


def _stores_const(fi, path, value):
    return {n.id for n in fi.cfg.stmt_nodes(lambda n: n.kind == "stmt" and isinstance(n.ast, (ast.Assign, ast.AnnAssign)) and path in q.assigned_paths(n.ast) and q.is_const(n.ast.value, value))}


def check_event(ck):
    st_ = ck.func(L, "Event.set")
    cl = ck.func(L, "Event.clear")
    wt = ck.func(L, "Event.wait")
    # --- set
    cfg = st_.cfg
    sto = _stores_const(st_, EV, True)
    other = [s for s in q.stores_to(st_.node, EV) if not q.is_const(getattr(s, "value", None), True)]
    ck.ob("C34.event-set", st_, st_.node, not other, "Event.set only ever stores True", construct="set stores")
    loops = [n for n in cfg.stmt_nodes(lambda n: n.kind == "for") if q.dotted(n.ast.iter) == WAIT and isinstance(n.ast.target, ast.Name)]
    lp_ids = {n.id for n in loops}
    normal, _ = exit_states(cfg, (0, 0), lambda n, v: (min(2, v[0] + (n.id in sto)), 1 if n.id in lp_ids else v[1]), track=lambda t: t == EV)
    ck.floor("C34.event-set", len(normal), 1, "normal exit states of Event.set")
    for facts, (s, l) in normal:
        already = (EV, True) in facts
        ok = (s == 1 and l == 1) or (s == 0 and l == 0 and already)
        ck.ob("C34.event-set", st_, st_.node, ok, "set stores True and walks all waiters, or does nothing only because the event was already set (stored=%d walked=%d already=%s)" % (s, l, already),
              construct="exit stored=%d walked=%d already=%s" % (s, l, already))
    for lp in loops:
        x = lp.ast.target.id
        ss = [s for s in own_settle_sites(st_) if any(s[1] is y for b in lp.ast.body for y in ast.walk(b))]
        ck.ob("C34.event-set", st_, lp.ast.iter, len(ss) >= 1 and all(s[2] == x and _is_grant(s[1]) for s in ss), "every registered waiter is completed (successfully) by set")
        ck.ob("C34.event-set", st_, lp.ast.iter, not _leaves_loop(lp.ast), "the wake loop visits every registered waiter (no break/return inside)")
        _wake_pass(ck, "C34.event-set", st_, lp, ss, x, "one pass of the wake loop completes a live waiter once and leaves a finished one alone")
    n = check_settles(ck, "C34.settle", st_, allow_safe_unguarded=False)
    ck.floor("C34.settle", n, 1, "settle sites in Event.set")
    # --- clear
    ok = len(q.stores_to(cl.node, EV)) >= 1 and all(q.is_const(getattr(s, "value", None), False) for s in q.stores_to(cl.node, EV))
    pd = all(cl.cfg.postdominates(n, cl.cfg.entry) for n in cl.cfg.stmt_nodes(lambda n: n.id in _stores_const(cl, EV, False)))
    ck.ob("C34.event-clear", cl, cl.node, ok and pd and bool(_stores_const(cl, EV, False)), "clear stores False on every path", construct="clear stores False")
    ck.ob("C34.event-clear", cl, cl.node, not own_settle_sites(cl) and not any(q.dotted(n) == WAIT for n in ast.walk(cl.node)), "clear neither settles nor forgets waiters", construct="clear touches waiters")
    # writers of _value
    for fi in ck.repo.methods(L, "Event"):
        if fi.name in ("set", "clear", "__init__"):
            continue
        for s in q.stores_to(fi.node, EV):
            ck.ob("C34.event-clear", fi, s, False, "Event._value is written only by __init__/set/clear")
    # --- wait
    check_event_wait(ck, wt)


def check_event_wait(ck, fi):
    cfg = fi.cfg
    tparam = _timeout_param(fi)
    adds = own_find(fi, lambda x: method_call_on(x, WAIT, "add", "append"))
    ck.floor("C34.event-wait", len(adds), 1, "waiter registration sites in Event.wait")
    futs = {q.dotted(c.args[0]) for _, c in adds if c.args}
    if len(futs) != 1 or None in futs:
        raise AnalysisError("%s: cannot identify the waiter future" % fi.site())
    fut = next(iter(futs))
    sets = [s for s in own_settle_sites(fi)]
    wraps = own_find(fi, lambda x: isinstance(x, ast.Call) and q.call_attr(x) == "with_timeout")
    # done-callback registrations, classified by what the callback does
    removal, cancel = [], []
    for n, c in own_find(fi, lambda x: isinstance(x, ast.Call) and isinstance(x.func, ast.Attribute) and x.func.attr == "add_done_callback" and len(x.args) == 1):
        body = lambda_or_func_body_calls(ck.repo, fi, c.args[0])
        recv = q.dotted(c.func.value)
        if any(method_call_on(b, WAIT, "remove", "discard") for b in body):
            removal.append((n, c, recv, body))
        elif any(isinstance(b.func, ast.Attribute) and b.func.attr == "cancel" for b in body):
            cancel.append((n, c, recv, body))
        else:
            raise AnalysisError("%s: unrecognised done-callback" % fi.site(c))
    wrapvars = set()
    for n, c in wraps:
        if n.kind == "stmt" and isinstance(n.ast, ast.Assign) and n.ast.value is c and isinstance(n.ast.targets[0], ast.Name):
            wrapvars.add(n.ast.targets[0].id)
        elif n.kind == "stmt" and isinstance(n.ast, ast.Return) and n.ast.value is c:
            wrapvars.add("<returned>")
        elif n.kind == "stmt" and isinstance(n.ast, ast.Expr) and isinstance(n.ast.value, ast.Call) and isinstance(n.ast.value.func, ast.Attribute) and n.ast.value.func.value is c:
            wrapvars.add("<used in place>")  # e.g. with_timeout(...).add_done_callback(...): wrapped but not kept, so it cannot be what is returned
        else:
            raise AnalysisError("%s: with_timeout result in unknown position" % fi.site(c))
        a0, a1 = q.arg(c, 0, "timeout"), q.arg(c, 1, "future")
        ck.ob("C34.event-wait", fi, c, isinstance(a0, ast.Name) and a0.id == tparam and q.dotted(a1) == fut, "the timeout wrapper is with_timeout(timeout, <waiter>)")
    for n, c, recv, body in removal:
        rm = [b for b in body if method_call_on(b, WAIT, "remove", "discard")]
        lam = c.args[0]
        argn = lam.args.args[0].arg if isinstance(lam, ast.Lambda) and lam.args.args else None
        ck.ob("C34.event-wait", fi, c, recv == fut and all(len(b.args) == 1 and q.dotted(b.args[0]) in (fut, argn) for b in rm), "the waiter removes itself from the waiter set when it finishes (no residue)")
    for n, c, recv, body in cancel:
        cs = [b for b in body if isinstance(b.func, ast.Attribute) and b.func.attr == "cancel"]
        on_wrapper = recv in wrapvars or (recv is None and isinstance(c.func.value, ast.Call) and q.call_attr(c.func.value) == "with_timeout")
        # whenever the wrapper finishes — timed out, cancelled by the caller, or completed — a still pending inner waiter is cancelled
        ccfg = callable_cfg(ck.repo, fi, c.args[0])
        if ccfg is None:
            raise AnalysisError("%s: cancellation hook in an unrecognised shape" % fi.site(c))
        from ..cfg import _node_roots
        def _cn(nd):
            if nd.ast is None or nd.kind not in ("stmt", "test") or isinstance(nd.ast, q.ScopeNode):
                return 0
            return sum(1 for r_ in _node_roots(nd) for y in q.walk_local(r_) if method_call_on(y, fut, "cancel"))
        donef_ = "%s.done()" % fut
        st_, _e = exit_states(ccfg, 0, lambda nd, v: min(2, v + _cn(nd)), track=lambda t: t == donef_, follow_exc=False)
        for f_, k_ in st_:
            live_ = (donef_, True) not in f_
            ck.ob("C34.event-wait", fi, c, k_ >= 1 if live_ else True,
                  "whatever way the timeout wrapper finishes (timeout, caller's cancellation, completion), a still pending inner waiter is cancelled so that it leaves the waiter set (pending=%s cancels=%d)" % (live_, k_),
                  construct="cancel hook pending=%s cancels=%d" % (live_, k_))
        ck.ob("C34.event-wait", fi, c, on_wrapper and all(q.dotted(b.func.value) == fut for b in cs), "when the timeout wrapper finishes it cancels the inner waiter (so it leaves the set)")

    def cnt(sites):
        return node_counts(fi, lambda x: any(x is s for s in sites))

    c_set, c_add, c_rm, c_wr, c_ca = cnt([s[1] for s in sets]), cnt([c for _, c in adds]), cnt([r[1] for r in removal]), cnt([c for _, c in wraps]), cnt([r[1] for r in cancel])
    ret_of = {}
    for n in cfg.stmt_nodes(lambda n: n.kind == "stmt" and isinstance(n.ast, ast.Return)):
        v = n.ast.value
        ret_of[n.id] = "<returned>" if any(v is c for _, c in wraps) else (q.dotted(v) if v is not None else None)

    def transfer(n, v):
        s, a, r, w, c, ret, ev, tn = v
        g = lambda d: d.get(n.id, 0)
        return (min(2, s + g(c_set)), min(2, a + g(c_add)), min(2, r + g(c_rm)), min(2, w + g(c_wr)), min(2, c + g(c_ca)), ret_of.get(n.id, ret), ev, tn)

    # a single exit through a result variable (`result = fut ... result = timeout_fut ... return result`): which future a
    # plain local currently stands for is carried along each path and substituted at the return
    _base_transfer = transfer

    def transfer(n, v):  # noqa: F811
        inner_, binds = v
        inner_ = _base_transfer(n, inner_)
        if n.kind == "stmt" and isinstance(n.ast, ast.Assign) and len(n.ast.targets) == 1 and isinstance(n.ast.targets[0], ast.Name):
            d_ = dict(binds)
            tgt_ = n.ast.targets[0].id
            if isinstance(n.ast.value, ast.Name) and tgt_ not in (fut,) and tgt_ not in wrapvars:
                d_[tgt_] = d_.get(n.ast.value.id, n.ast.value.id)
            else:
                d_.pop(tgt_, None)
            binds = frozenset(d_.items())
        if n.kind == "stmt" and isinstance(n.ast, ast.Return) and isinstance(n.ast.value, ast.Name) and n.ast.value.id in dict(binds):
            inner_ = inner_[:5] + (dict(binds)[n.ast.value.id],) + inner_[6:]
        return (inner_, binds)

    tfact = "%s is None" % tparam

    def edge(n, kind, v):
        # the branch decisions are carried in the value: facts about `timeout` are
        # (rightly) forgotten by the engine once timeout is passed to a call
        s, a, r, w, c, ret, ev, tn = v
        if n.kind == "test" and kind in ("true", "false"):
            t, pol = canon_fact(n.ast, kind == "true")
            if t == EV:
                if ev is not None and ev != pol:
                    return None
                ev = pol
            if t == tfact:
                if tn is not None and tn != pol:
                    return None
                tn = pol
            elif t == tparam:
                # a truthiness test of the timeout (reported by C34.none-test): the falsy branch is the code's "no timeout" path
                tn = not pol
        return (s, a, r, w, c, ret, ev, tn)

    if q.stores_to(fi.node, EV) or q.stores_to(fi.node, tparam):
        raise AnalysisError("%s: wait rebinds the event value or its timeout" % fi.site())
    _base_edge = edge

    def edge(n, kind, v):  # noqa: F811
        inner_ = _base_edge(n, kind, v[0])
        return None if inner_ is None else (inner_, v[1])

    normal, _ = exit_states(cfg, ((0, 0, 0, 0, 0, None, None, None), frozenset()), transfer, edge_transfer=edge)
    normal = sorted({(f_, v_[0]) for f_, v_ in normal}, key=repr)
    ck.floor("C34.event-wait", len(normal), 3, "normal exit states of Event.wait")
    for _facts, (s, a, r, w, c, ret, ev, tn) in normal:
        facts = {(EV, ev)} | {(tfact, tn)}
        desc = "settled=%d registered=%d self-removal=%d wrapped=%d cancel-hook=%d returns=%s" % (s, a, r, w, c, ret)
        if (EV, True) in facts:
            ok = (s, a, w) == (1, 0, 0) and ret == fut
            ck.ob("C34.event-wait", fi, fi.node, ok, "wait on a set event returns an already completed future and registers nothing (%s)" % desc, construct="exit set " + desc)
        elif (EV, False) in facts:
            if (tfact, True) in facts:
                ok = (s, a, r, w) == (0, 1, 1, 0) and ret == fut
                ck.ob("C34.event-wait", fi, fi.node, ok, "wait on a clear event without timeout registers the pending waiter with its self-removal and returns it (%s)" % desc, construct="exit clear/no-timeout " + desc)
            elif (tfact, False) in facts:
                ok = (s, a, r, w, c) == (0, 1, 1, 1, 1) and ret in wrapvars
                ck.ob("C34.event-wait", fi, fi.node, ok, "wait with a timeout registers the waiter, wraps it in with_timeout, hooks the cancellation and returns the wrapper (%s)" % desc, construct="exit clear/timeout " + desc)
            elif s:
                ck.ob("C34.event-wait", fi, fi.node, False, "wait on a clear event must not complete its future immediately (%s)" % desc, construct="exit clear/settled " + desc)
            else:
                raise AnalysisError("%s: exit state does not decide `timeout is None`" % fi.site())
        else:
            raise AnalysisError("%s: exit state does not decide the event value" % fi.site())
    facts = must_facts(cfg)
    for node, c, p, kind in sets:
        ck.ob("C34.event-wait", fi, c, p == fut and _is_grant(c) and holds(facts[node.id], EV, True), "wait completes its future immediately only when the event is set")
    check_settles(ck, "C34.settle", fi, allow_safe_unguarded=False)
    # the registered waiter is fresh
    fresh = any(isinstance(getattr(st, "value", None), ast.Call) and q.call_attr(st.value) in ("Future", "_create_future") for st in q.stores_to(fi.node, fut))
    ck.ob("C34.event-wait", fi, fi.node, fresh, "the waiter is a fresh Future", construct="waiter fresh")


# ---------------------------------------------------------------------------
# gen.with_timeout (the part C34 relies on)


def check_with_timeout(ck, R="C34.with-timeout", RS="C34.settle"):
    fi = ck.func(G, "with_timeout")
    ps = fi.params()
    if len(ps) < 2:
        raise AnalysisError("%s: unexpected signature" % fi.site())
    tparam, fparam = ps[0], ps[1]
    cfg = fi.cfg
    chains = own_find(fi, lambda x: q.is_call(x, "chain_future"))
    tmo = own_find(fi, lambda x: isinstance(x, ast.Call) and q.call_attr(x) == "add_timeout")
    rets = [r for r in own_walk(fi.node) if isinstance(r, ast.Return)]
    ck.floor(R, len(tmo), 1, "add_timeout calls in with_timeout")
    results = {q.dotted(r.value) if r.value is not None else None for r in rets}
    if len(results) != 1 or None in results:
        raise AnalysisError("%s: cannot identify the result future" % fi.site())
    res = next(iter(results))
    fresh = any(isinstance(getattr(st, "value", None), ast.Call) and q.call_attr(st.value) in ("Future", "_create_future") for st in q.stores_to(fi.node, res))
    ck.ob(R, fi, fi.node, fresh, "with_timeout returns a fresh future", construct="result fresh")
    # the converted input
    conv = [st for st in own_walk(fi.node) if isinstance(st, ast.Assign) and q.is_call(st.value, "convert_yielded") and q.dotted(q.arg(st.value, 0)) == fparam]
    if len(conv) != 1:
        raise AnalysisError("%s: input conversion not recognised" % fi.site())
    src = sorted(q.assigned_paths(conv[0]))[0]
    cc = node_counts(fi, lambda x: any(x is c for _, c in chains))
    tc = node_counts(fi, lambda x: any(x is c for _, c in tmo))
    normal, _ = exit_states(cfg, (0, 0), lambda n, v: (min(2, v[0] + cc.get(n.id, 0)), min(2, v[1] + tc.get(n.id, 0))))
    for _f, (c, t) in normal:
        ck.ob(R, fi, fi.node, c == 1 and t == 1, "every normal path chains input -> result once and arms one timer (chains=%d timers=%d)" % (c, t), construct="exit chains=%d timers=%d" % (c, t))
    for n, c in chains:
        ck.ob(R, fi, c, q.dotted(q.arg(c, 0)) == src and q.dotted(q.arg(c, 1)) == res, "the input's outcome is copied into the result (chain_future(input, result))")
    nested = {nf.name: nf for nf in ck.repo.nested(fi) if nf.parent is fi}
    for n, c in tmo:
        a0, a1 = q.arg(c, 0, "deadline"), q.arg(c, 1, "callback")
        ck.ob(R, fi, c, isinstance(a0, ast.Name) and a0.id == tparam, "the timer is armed with the caller's timeout")
        if not (isinstance(a1, ast.Name) and a1.id in nested):
            raise AnalysisError("%s: timeout callback not a nested function" % fi.site(c))
        cb = ck.use(nested[a1.id])
        ss = settle_sites(cb)
        fails = [s for s in ss if isinstance(s[1].func, ast.Attribute) and s[1].func.attr == "set_exception" or q.call_attr(s[1]) in ("future_set_exception_unless_cancelled",)]
        ck.ob(R, cb, cb.node, len(fails) >= 1 and all(s[2] == res for s in ss) and len(fails) == len(ss), "the timeout callback can only fail the result future", construct="timeout_callback settles result")
        for f in fails:
            ex = f[1].args[-1] if f[1].args else None
            ck.ob(R, cb, f[1], isinstance(ex, ast.Call) and (q.dotted(ex.func) or "").split(".")[-1] == "TimeoutError", "the result fails with TimeoutError")
        fc = node_counts(cb, lambda x: any(x is f[1] for f in fails))
        donef = "%s.done()" % res
        st, _ = exit_states(cb.cfg, 0, lambda nd, v: min(2, v + fc.get(nd.id, 0)), track=lambda t: t == donef)
        for facts, k in st:
            live = (donef, True) not in facts
            ck.ob(R, cb, cb.node, k == (1 if live else 0), "timer expiry fails a pending result exactly once and leaves a finished one alone (pending=%s settles=%d)" % (live, k), construct="timeout_callback exit pending=%s settles=%d" % (live, k))
        check_settles(ck, RS, cb, allow_safe_unguarded=False)
    return fi, src, res


def check_timer_removed(ck, rule, fi):
    """`finished waits leave no residue`: the timer armed by ``fi`` is removed by a done-callback on the waited-for future,
    and that callback reaches remove_timeout on every path (a condition such as `result.done() or ...` skips it exactly
    when the wait finished normally).  Whole function and its callables are scanned: no remove_timeout at all is a violation."""
    from ..cfg import _node_roots
    regs = own_find(fi, lambda x: isinstance(x, ast.Call) and q.call_attr(x) in ("add_done_callback", "future_add_done_callback", "add_future") and x.args)
    n = 0
    for nd, c in regs:
        cbe = c.args[-1]
        ccfg = callable_cfg(ck.repo, fi, cbe)
        if ccfg is None:
            continue

        def cnt(node):
            if node.ast is None or node.kind not in ("stmt", "test") or isinstance(node.ast, q.ScopeNode):
                return 0
            return sum(1 for r_ in _node_roots(node) for y in q.walk_local(r_) if isinstance(y, ast.Call) and q.call_attr(y) == "remove_timeout")

        if not any(cnt(x) for x in ccfg.nodes):
            continue
        n += 1
        st_, _e = exit_states(ccfg, 0, lambda node, v: min(2, v + cnt(node)), follow_exc=False)
        for _f, k in st_:
            ck.ob(rule, fi, c, k >= 1, "the done-callback removes the timer on every path, whatever the outcome (removals on this path=%d)" % k, construct="timer removal paths removals=%d" % k)
    arms = own_find(fi, lambda x: isinstance(x, ast.Call) and q.call_attr(x) == "add_timeout")
    if arms:
        ck.ob(rule, fi, fi.node, n >= 1, "a timer armed for the wait is removed when the waited-for future finishes (no timer residue)", construct="timer removal registered=%d" % n)
    return n


def run(ck):
    ck._orig_repo = getattr(ck, "_orig_repo", None) or ck.repo
    ck.repo = normalized(ck.repo, NORM_MODULES, only=('tornado/locks.py', 'tornado/gen.py'))  # alias / named-boolean / temporary / setter-helper normalisation (vt/x_syncnorm.py)
    ck.rule("C34.cond-wait", "Condition.wait queues one fresh future at the tail, returns it, never settles it itself")
    ck.rule("C34.cond-timeout", "Condition.wait arms one timer iff a timeout was given; its callback resolves a live waiter with False exactly once, never True")
    ck.rule("C34.notify-ts", "Condition.notify pops only while n != 0 and the queue is non-empty; a popped waiter is skipped only if done(), otherwise counted once against n and collected once")
    ck.rule("C34.notify-wake", "every collected waiter is resolved with True on every normal path; notify_all = notify(len(waiters))")
    ck.rule("C34.fifo", "Condition's waiter queue is modified only by append (tail) and popleft (head)")
    ck.rule("C34.gc-live", "_garbage_collect keeps exactly the not-done waiters in order")
    ck.rule("C34.settle", "every settle of a waiter future is under `not F.done()` or on a fresh future (the *_unless_cancelled form only where not-done is established)")
    ck.rule("C34.event-set", "Event.set stores True and completes every live registered waiter once, or does nothing only when already set")
    ck.rule("C34.event-clear", "Event.clear only stores False; _value has no other writer")
    ck.rule("C34.event-wait", "Event.wait: immediate completion only when set; otherwise register + self-removal; with a timeout, wrap in with_timeout(timeout, waiter), cancel the inner waiter when the wrapper finishes, return the wrapper")
    ck.rule("C34.none-test", "the timeout of Condition.wait / Event.wait is compared with None by identity (timeout=0 is a legal, immediate timeout)")
    ck.rule("C34.cancel-aware", "any result()/exception() read of a waiter future in Condition/Event is cancel-aware")
    ck.rule("C34.with-timeout", "gen.with_timeout chains input->result once, arms one timer with the timeout; the timer callback fails only a pending result, with TimeoutError")

    n = 0
    for qn in ("Condition.wait", "Event.wait"):
        f_ = ck.func(L, qn)
        n += check_none_tests(ck, "C34.none-test", f_, only=[_timeout_param(f_)])
    ck.floor("C34.none-test", n, 2, "tests of the timeout in Condition.wait / Event.wait")
    check_cond_wait(ck)
    check_notify(ck)
    check_fifo(ck, R="C34.fifo", family=COND_FAMILY)
    check_gc(ck, R="C34.gc-live", val=None)
    check_event(ck)
    wt_, _s, _r = check_with_timeout(ck)
    k_ = check_timer_removed(ck, "C34.with-timeout", wt_) + check_timer_removed(ck, "C34.cond-timeout", ck.func(L, "Condition.wait"))
    ck.floor("C34.with-timeout", k_, 2, "timer-removal callbacks (with_timeout, Condition.wait)")
    for cls in COND_FAMILY + ("Event",):
        for f_ in ck.repo.methods(L, cls):
            if isinstance(f_.node, q.FuncNode):
                check_outcome_reads(ck, "C34.cancel-aware", f_)


# ---------------------------------------------------------------------------


def _in(qn, edit, rel=L):
    return lambda repo: mutate(repo, rel, qn, edit)


def _move_dec_out_of_guard(root):
    """count every popped waiter, live or not: move `n -= 1` before the done() test"""
    for node in ast.walk(root):
        if isinstance(node, ast.While):
            for i, st in enumerate(node.body):
                if isinstance(st, ast.If) and "done()" in ast.unparse(st.test):
                    for j, s2 in enumerate(st.body):
                        if isinstance(s2, ast.AugAssign):
                            del st.body[j]
                            node.body.insert(i, s2)
                            return True
    return False


MUTANTS = [
    ("with_timeout removes its timer only when the result is still pending (`result.done() or remove_timeout`; seeded C34-adv6)", _in("with_timeout", replace_expr(lambda n: isinstance(n, ast.Lambda) and "remove_timeout" in ast.unparse(n), lambda n: ast.Lambda(args=n.args, body=ast.BoolOp(op=ast.Or(), values=[parse_expr("result.done()"), n.body])), limit=1), rel=G), "C34.with-timeout"),
    ("Condition.wait never removes its timer", _in("Condition.wait", remove_stmts(lambda st: isinstance(st, ast.Expr) and "remove_timeout" in ast.unparse(st))), "C34.cond-timeout"),
    ("Condition.wait arms call_later(timeout) after converting timedeltas (seeded C34-adv5)", _in("Condition.wait", lambda root: _to_call_later(root)), "C34.cond-timeout"),
    ("Event.wait without timeout never unregisters its waiter (self-removal moved below the early return; seeded C34-adv4)", _in("Event.wait", lambda root: _move_removal_down(root)), "C34.event-wait"),
    ("a cancelled timed Event.wait leaves its waiter registered (hook acts only on a failed, not cancelled wrapper; seeded C34-adv3)", _in("Event.wait", replace_expr(lambda n: isinstance(n, ast.Lambda) and "cancel()" in ast.unparse(n), lambda n: parse_expr("lambda tf: fut.cancel() if (not tf.cancelled() and tf.exception() is not None) else None"))), "C34.event-wait"),
    ("notify(n) wakes at most one waiter (while -> if)", _in("Condition.notify", lambda root: _while_to_if(root)), "C34.notify-ts"),
    ("notify() defaults to waking nobody (n=0)", _in("Condition.notify", lambda root: _set_default(root, 0)), "C34.notify-wake"),
    ("Condition.wait(timeout=0) waits forever (`if timeout:`, seeded C34-adv1)", _in("Condition.wait", replace_expr(lambda n: isinstance(n, ast.Compare) and isinstance(n.ops[0], ast.IsNot) and ast.unparse(n.left) == "timeout", lambda n: n.left)), ("C34.none-test", "C34.cond-timeout")),
    ("Event.wait(timeout=0) waits forever (`if not timeout:`)", _in("Event.wait", replace_expr(lambda n: isinstance(n, ast.Compare) and isinstance(n.ops[0], ast.Is) and ast.unparse(n.left) == "timeout", lambda n: ast.UnaryOp(op=ast.Not(), operand=n.left))), ("C34.none-test", "C34.event-wait")),
    ("notify counts timed-out waiters against n", _in("Condition.notify", _move_dec_out_of_guard), "C34.notify-ts"),
    ("notify wakes a popped waiter without the done() test", _in("Condition.notify", _drop_done_test), ("C34.notify-ts", "C34.settle")),
    ("notify wakes the newest waiter (pop)", _in("Condition.notify", _rename_attr("popleft", "pop")), "C34.fifo"),
    ("notify forgets to consume n (wakes everybody)", _in("Condition.notify", remove_stmts(lambda st: isinstance(st, ast.AugAssign))), "C34.notify-ts"),
    ("notify ignores n when popping (while self._waiters)", _in("Condition.notify", replace_expr(lambda n: isinstance(n, ast.BoolOp) and isinstance(n.op, ast.And), lambda n: n.values[1])), "C34.notify-ts"),
    ("notified waiters resolve False", _in("Condition.notify", replace_expr(lambda n: isinstance(n, ast.Constant) and n.value is True, lambda n: ast.Constant(value=False))), "C34.notify-wake"),
    ("notify_all notifies one", _in("Condition.notify_all", replace_expr(lambda n: q.is_call(n, "len"), lambda n: ast.Constant(value=1))), "C34.notify-wake"),
    ("Condition timeout resolves True", _in("Condition.wait.<locals>.on_timeout", replace_expr(lambda n: isinstance(n, ast.Constant) and n.value is False, lambda n: ast.Constant(value=True))), "C34.cond-timeout"),
    ("Condition timeout fires on a notified waiter (guard removed)", _in("Condition.wait.<locals>.on_timeout", _drop_done_test), ("C34.settle", "C34.cond-timeout")),
    ("Condition.wait queues at the head", _in("Condition.wait", _rename_attr("append", "appendleft")), "C34.fifo"),
    ("Event.set forgets to store the value", _in("Event.set", remove_stmts(lambda st: isinstance(st, ast.Assign) and "_value" in ast.unparse(st))), "C34.event-set"),
    ("Event.set completes finished waiters again (guard removed)", _in("Event.set", _drop_done_test), ("C34.settle", "C34.event-set")),
    ("Event.set wakes only the first waiter", _in("Event.set", replace_stmt(lambda st: isinstance(st, ast.If) and "done()" in ast.unparse(st.test), lambda st: [st, ast.Break()])), "C34.event-set"),
    ("Event.clear also drops the waiters", _in("Event.clear", replace_stmt(lambda st: isinstance(st, ast.Assign), lambda st: [st, parse_stmt("self._waiters = set()")])), "C34.event-clear"),
    ("Event.wait leaves the waiter in the set (no self-removal)", _in("Event.wait", remove_stmts(lambda st: "_waiters.remove" in ast.unparse(st))), "C34.event-wait"),
    ("Event.wait does not cancel the inner waiter after a timeout", _in("Event.wait", remove_stmts(lambda st: isinstance(st, ast.Expr) and "cancel()" in ast.unparse(st))), "C34.event-wait"),
    ("Event.wait with timeout returns the unwrapped waiter", _in("Event.wait", replace_stmt(lambda st: isinstance(st, ast.Return) and "timeout_fut" in ast.unparse(st), lambda st: [parse_stmt("return fut")])), "C34.event-wait"),
    ("Event.wait completes immediately although clear", _in("Event.wait", replace_expr(lambda n: isinstance(n, ast.Attribute) and q.dotted(n) == "self._value" and isinstance(n.ctx, ast.Load), lambda n: parse_expr("not self._value"))), "C34.event-wait"),
    ("with_timeout fails an already finished result (guard removed)", _in("with_timeout.<locals>.timeout_callback", _drop_done_test, rel=G), ("C34.settle", "C34.with-timeout")),
    ("with_timeout chains the wrong way round", _in("with_timeout", replace_expr(lambda n: q.is_call(n, "chain_future"), lambda n: ast.Call(func=n.func, args=[n.args[1], n.args[0]], keywords=[])), rel=G), "C34.with-timeout"),
]


def _set_default(root, v):
    if root.args.defaults:
        root.args.defaults[0] = ast.Constant(value=v)
        return True
    return False


def _while_to_if(root):
    for node in ast.walk(root):
        for fld in ("body", "orelse"):
            body = getattr(node, fld, None)
            if isinstance(body, list):
                for i, st in enumerate(body):
                    if isinstance(st, ast.While) and not st.orelse and not any(isinstance(x, (ast.Break, ast.Continue)) for x in ast.walk(st)):
                        body[i] = ast.If(test=st.test, body=st.body, orelse=[])
                        return True
    return False


def _move_removal_down(root):
    body = root.body
    for i, st in enumerate(body):
        if isinstance(st, ast.Expr) and "_waiters.remove" in ast.unparse(st):
            for j in range(i + 1, len(body)):
                if isinstance(body[j], ast.If) and "timeout is None" in ast.unparse(body[j].test):
                    body.insert(j + 1, body.pop(i)) if False else None
                    rem = body.pop(i)
                    # after the early return of the `timeout is None` branch: into the else branch / after the if
                    target = body[j - 1]
                    if target.orelse:
                        target.orelse.insert(0, rem)
                    else:
                        body.insert(j, rem)
                    return True
    return False


def _to_call_later(root):
    for node in ast.walk(root):
        body = getattr(node, "body", None)
        if isinstance(body, list):
            for i, st in enumerate(body):
                if isinstance(st, ast.Assign) and isinstance(st.value, ast.Call) and q.call_attr(st.value) == "add_timeout":
                    st.value.func.attr = "call_later"
                    body.insert(i, parse_stmt("if isinstance(timeout, datetime.timedelta):\n    timeout = timeout.total_seconds()"))
                    return True
    return False
