"""C45 — LogFormatter.format never fails on the message and indents every newline.

Decided statically (DESIGN.md §4 C45, families MPT / EXC): every value returned by ``LogFormatter.format`` is the
result of ``<text>.replace("\\n", "\\n" + indentation)`` applied *after* the last modification of the text; the message
extraction (``record.getMessage()`` and its conversion) sits in a ``try`` whose handler catches ``Exception`` and
``record.message`` is assigned on every path (normal and exceptional) before the format string is applied;
``_safe_unicode``, which is also called outside that ``try``, guards its decode and falls back to ``repr``.
Not decided: custom format strings / date formats that raise in ``%``-formatting, ``formatException``.
"""
from __future__ import annotations

import ast

from .. import q
from ..cfg import must_facts, holds
from ..rules import event_facts, call_sites
from ..mutate import mutate, remove_stmts, replace_stmt, replace_expr, parse_stmt, parse_expr
from ..model import AnalysisError
from ..x_scope import own_nodes, strip_annotations
from ..x_flow import protected

TECHNIQUE = "must-pass-through (dominance with kills) on the CFG of format() + local exception-protection lint"
EXPLANATION = (
    "All return statements of LogFormatter.format are enumerated; each must return an indenting replace call or a local that was last assigned from one "
    "(event fact killed by any later assignment); the replace arguments are evaluated ('\\n' -> '\\n' + non-empty blanks, no count). The getMessage() call and "
    "the message conversion are located and must be protected by a handler catching Exception; an event fact shows record.message is assigned on every path "
    "(including the exception edge into the handler) before the format string is applied. _safe_unicode's decode is checked to be guarded with a repr fallback."
)
NOT_DECIDED = "custom fmt/datefmt strings that make `self._fmt % record.__dict__` or formatTime raise; exceptions from formatException; repr() of hostile objects in the fallback message"

F = "tornado/log.py"
FN = "LogFormatter.format"


def _indenting_replace(e):
    """e is `<x>.replace("\\n", "\\n<blanks>")` with exactly two positional arguments."""
    if not (isinstance(e, ast.Call) and isinstance(e.func, ast.Attribute) and e.func.attr == "replace" and len(e.args) == 2 and not e.keywords):
        return False
    a, b = e.args
    if not (q.is_const(a, "\n") and isinstance(b, ast.Constant) and isinstance(b.value, str)):
        return False
    rest = b.value[1:]
    return b.value.startswith("\n") and len(rest) >= 1 and rest.strip(" \t") == ""


def _indenting(e):
    return _indenting_replace(e) or _indenting_join(e)


def _indenting_join(e):
    """e is `("\n" + blanks).join(<x>.split("\n"))` / `.splitlines()`: every line break is re-created with indentation."""
    if not (isinstance(e, ast.Call) and isinstance(e.func, ast.Attribute) and e.func.attr == "join" and isinstance(e.func.value, ast.Constant) and isinstance(e.func.value.value, str) and len(e.args) == 1):
        return False
    sep = e.func.value.value
    if not (sep.startswith("\n") and len(sep) > 1 and sep[1:].strip(" \t") == ""):
        return False
    a = e.args[0]
    return isinstance(a, ast.Call) and isinstance(a.func, ast.Attribute) and ((a.func.attr == "split" and len(a.args) == 1 and q.is_const(a.args[0], "\n")) or (a.func.attr == "splitlines" and not a.args))


def _helper_of(ck, call):
    """Same-class method / same-module function called by ``call`` (None if not resolvable)."""
    f = call.func
    if isinstance(f, ast.Attribute) and q.dotted(f.value) in ("self", "cls", "LogFormatter") and ck.repo.has_func(F, "LogFormatter." + f.attr):
        return ck.repo.func(F, "LogFormatter." + f.attr)
    if isinstance(f, ast.Name) and ck.repo.has_func(F, f.id):
        return ck.repo.func(F, f.id)
    return None


def _indenting_value(ck, e, depth=0):
    """True: the expression is indented text; False: positively not; None: goes through code that is not understood."""
    if _indenting(e):
        return True
    if isinstance(e, ast.Call):
        h = _helper_of(ck, e)
        if h is not None and depth < 2:
            rets = [r for r in own_nodes(h.node) if isinstance(r, ast.Return)]
            if not rets:
                return None
            vals = [_indenting_value(ck, r.value, depth + 1) if r.value is not None else False for r in rets]
            if all(v is True for v in vals):
                return True
            return None
        f = e.func
        if isinstance(f, ast.Attribute) and q.dotted(f.value) in ("self", "cls"):
            return None  # an unknown method of the formatter
        return False
    if isinstance(e, ast.Name):
        return None
    return False


def rule_indent(ck, fi):
    cfg = fi.cfg
    rets = cfg.stmt_nodes(lambda n: n.kind == "stmt" and isinstance(n.ast, ast.Return))
    ck.floor("C45.indent-return", len(rets), 1, "return statements in format")

    def gen(n):
        if n.kind == "stmt" and isinstance(n.ast, (ast.Assign, ast.AnnAssign)) and n.ast.value is not None and _indenting_value(ck, n.ast.value) is True:
            return [("@indented:" + p, True) for p in q.assigned_paths(n.ast)]
        return []

    def kill(n, f):
        if not f[0].startswith("@indented:"):
            return False
        p = f[0][len("@indented:"):]
        if n.kind in ("stmt", "for", "with") and isinstance(n.ast, ast.AST):
            if n.kind == "stmt" and p in q.assigned_paths(n.ast) and not gen(n):
                return True
            if n.kind == "for" and p in q.names_in(n.ast.target):
                return True
            # in-place mutation is impossible for str; a method call on the name does not change it
        return False

    facts = must_facts(cfg, gen_node=gen, kill_node=kill, cond_facts=False)
    cfacts = must_facts(cfg)
    for r in rets:
        v = r.ast.value
        ok = False
        if v is not None and _indenting_value(ck, v) is True:
            ok = True
        elif isinstance(v, ast.Name) and ("@indented:" + v.id, True) in facts[r.id]:
            ok = True
        elif isinstance(v, ast.Name) and holds(cfacts[r.id], "'\\n' in %s" % v.id, False):
            ok = True  # fast path: the text is known to contain no newline at all
        if not ok:
            # a VIOLATION needs positive evidence: the value must be traceable to expressions that are known not to indent
            from ..x_flow import protected, _defs_of
            probe = [v] if not isinstance(v, ast.Name) else [d for _st, _pos, d in _defs_of(fi.node, v.id)]
            if v is None or any(_indenting_value(ck, x) is None and not isinstance(x, ast.Name) for x in probe):
                raise AnalysisError("format(): the returned text goes through code that is not understood (%s)" % (q.unparse(r.ast)[:80]))
        ck.ob("C45.indent-return", fi, r.ast, ok,
              "the returned text is the result of .replace('\\n', '\\n' + indentation) with nothing appended afterwards (a newline in message or traceback cannot start a new entry)")
    if cfg.pred[cfg.exit.id]:
        for p, kind in cfg.pred[cfg.exit.id]:
            pn = cfg.nodes[p]
            if not (pn.kind == "stmt" and isinstance(pn.ast, ast.Return)):
                ck.ob("C45.indent-return", fi, fi.node, False, "format() returns a string on every path (no fall-through returning None)", construct="fallthrough")


def _msg_store_pred(rec):
    msg_attr = rec + ".message"
    return lambda n: n.kind == "stmt" and isinstance(n.ast, (ast.Assign, ast.AnnAssign)) and msg_attr in q.assigned_paths(n.ast)


def _check_extraction(ck, h, rec):
    """Obligations on the function that contains record.getMessage() (format itself or a private helper of it)."""
    pm = q.parent_map(h.node)
    gm = [c for c in q.find_calls(h.node, rec + ".getMessage")]
    for c in gm:
        hd = protected(pm, c, "Exception")
        ck.ob("C45.message-guard", h, c, hd is not None, "record.getMessage() (applies caller-supplied args to the caller-supplied format) runs under a handler that catches Exception")
    is_msg = _msg_store_pred(rec)
    stores = h.cfg.stmt_nodes(is_msg)
    for s_ in stores:
        from ..x_flow import resolve_local
        v = resolve_local(h, s_.ast.value)
        in_handler = any(isinstance(a, ast.ExceptHandler) for a in q.ancestors(pm, s_.ast))
        if in_handler:
            const_format = isinstance(v, ast.Call) and isinstance(v.func, ast.Attribute) and v.func.attr == "format" and isinstance(v.func.value, ast.Constant) and isinstance(v.func.value.value, str)
            if isinstance(v, (ast.Name, ast.Call, ast.Attribute)) and not const_format:
                raise AnalysisError("format(): the fallback message %s is not built in place (not followed)" % q.unparse(v)[:60])
            ok = const_format or isinstance(v, (ast.JoinedStr, ast.Constant)) or (isinstance(v, ast.BinOp) and isinstance(v.op, ast.Mod) and isinstance(v.left, ast.Constant))
            ck.ob("C45.message-set", h, s_.ast, ok, "the fallback message is built by plain string formatting of reprs (nothing that re-applies the caller's format)")
        else:
            calls = [c for c in q.calls(s_.ast) if q.call_attr(c) not in ("_safe_unicode", "str", "repr")]
            ok = protected(pm, s_.ast.value, "Exception") is not None if calls else True  # _safe_unicode/str/repr of a str cannot raise (C45.safe-unicode)
            ck.ob("C45.message-guard", h, s_.ast, ok, "the conversion of the extracted message runs under the same kind of handler")
    return len(gm), len(stores)


def rule_message(ck, fi):
    cfg = fi.cfg
    params = [p for p in fi.params() if p != "self"]
    if len(params) != 1:
        raise AnalysisError("format() does not take exactly the record")
    rec = params[0]
    pm = q.parent_map(fi.node)
    # helpers of the class that are handed the record (one level): they may hold the extraction
    helpers = {}
    for node, c in cfg.find(lambda x: isinstance(x, ast.Call) and isinstance(x.func, ast.Attribute) and q.dotted(x.func.value) == "self" and any(q.dotted(a) == rec for a in x.args)):
        qn = "LogFormatter." + c.func.attr
        if ck.repo.has_func(F, qn) and not c.keywords:
            h = ck.repo.func(F, qn)
            hp = [p for p in h.params() if p != "self"]
            if len(hp) == len(c.args):
                hrec = hp[[q.dotted(a) for a in c.args].index(rec)]
                helpers[node.id] = (h, hrec)
    n_gm, n_st = _check_extraction(ck, fi, rec)
    summaries = {}
    for nid, (h, hrec) in helpers.items():
        g2, s2 = _check_extraction(ck, ck.use(h), hrec)
        n_gm += g2
        n_st += s2
        ef_h = event_facts(h, {"msg": _msg_store_pred(hrec)}, cond_facts=False)
        summaries[nid] = ("@msg", True) in ef_h.get(h.cfg.exit.id, frozenset())
    ck.floor("C45.message-guard", n_gm, 1, "record.getMessage() calls")
    ck.floor("C45.message-set", n_st, 1, "assignments of record.message")
    is_msg_here = _msg_store_pred(rec)
    is_msg = lambda n: is_msg_here(n) or summaries.get(n.id, False)
    # record.message assigned on every path before the format string is applied
    uses = [n for n in cfg.stmt_nodes(lambda n: n.kind == "stmt") if any(isinstance(x, ast.BinOp) and isinstance(x.op, ast.Mod) and q.dotted(x.left) == "self._fmt" for x in q.walk_local(n.ast))]
    if not uses:
        # any use of record.__dict__ / self._style.format(record)
        uses = [n for n in cfg.stmt_nodes(lambda n: n.kind == "stmt") if any(isinstance(x, ast.Attribute) and x.attr == "__dict__" and q.dotted(x.value) == rec for x in q.walk_local(n.ast))
                and not any(isinstance(a, ast.ExceptHandler) for a in q.ancestors(pm, n.ast))]
    ck.floor("C45.message-set", len(uses), 1, "applications of the format string")
    ef = event_facts(fi, {"msg": is_msg}, cond_facts=False)
    for u in uses:
        ck.ob("C45.message-set", fi, u.ast, ("@msg", True) in ef[u.id], "record.message is assigned on every path (normal and via the handler) before the format string is applied")


def rule_safe_unicode(ck, fi):
    su = ck.func(F, "_safe_unicode")
    params = su.params()
    if len(params) != 1:
        raise AnalysisError("_safe_unicode does not take exactly one value")
    pm = q.parent_map(su.node)
    # call sites of _safe_unicode in format that are not under an Exception handler rely on it never raising
    fpm = q.parent_map(fi.node)
    outside = [c for c in q.find_calls(fi.node, "_safe_unicode", local=False) if protected(fpm, c, "Exception") is None]
    ck.note("_safe_unicode call sites in format() outside an Exception handler: %d" % len(outside))
    dec = [c for c in q.calls(su.node) if q.call_attr(c) in ("_unicode", "to_unicode", "decode", "str")]
    ck.floor("C45.safe-unicode", len(dec), 1, "decoding calls in _safe_unicode")
    for c in dec:
        if q.call_attr(c) == "str" and len(c.args) == 1:
            continue
        ck.ob("C45.safe-unicode", su, c, protected(pm, c, "UnicodeDecodeError") is not None, "decoding bytes in _safe_unicode is guarded against UnicodeDecodeError (non-UTF-8 bytes must still be logged)")
    from ..x_flow import _defs_of
    TEXT_CALLS = ("_unicode", "to_unicode", "repr", "str", "ascii", "decode")
    for r in own_nodes(su.node):
        if isinstance(r, ast.Return):
            # the returned expression, or - for a local - every expression bound to it
            cands = [(r.value, r)]
            if isinstance(r.value, ast.Name):
                ds = _defs_of(su.node, r.value.id)
                if not ds or any(pos is not None for _st, pos, _v in ds):
                    raise AnalysisError("_safe_unicode returns a local that is not bound by simple assignments")
                cands = [(v_, st_) for st_, _pos, v_ in ds]
                placeholders = [(v_, st_) for v_, st_ in cands if isinstance(v_, ast.Constant) and v_.value is None]
                if placeholders and len(placeholders) < len(cands):
                    # `result = None` placeholder: harmless iff a text value is assigned on every path to the return
                    rn_ = r.value.id
                    is_txt = lambda n: n.kind == "stmt" and isinstance(n.ast, ast.Assign) and rn_ in q.assigned_paths(n.ast) and isinstance(n.ast.value, ast.Call) and q.call_attr(n.ast.value) in TEXT_CALLS
                    is_other = lambda n: n.kind == "stmt" and isinstance(n.ast, (ast.Assign, ast.AugAssign)) and rn_ in q.assigned_paths(n.ast) and not is_txt(n)
                    ef_ = event_facts(su, {"txt": is_txt}, {"txt": is_other}, cond_facts=False)
                    rnodes = su.cfg.nodes_for(r)
                    if rnodes and all(("@txt", True) in ef_[n_.id] for n_ in rnodes):
                        cands = [c_ for c_ in cands if c_ not in placeholders]
            for v, where in cands:
                ok = isinstance(v, ast.Call) and q.call_attr(v) in TEXT_CALLS
                if not ok and isinstance(v, ast.Call):
                    raise AnalysisError("_safe_unicode returns the result of %s, which is not followed" % q.unparse(v.func))
                ck.ob("C45.safe-unicode", su, where, ok, "_safe_unicode returns text (decoded, or repr as the fallback)")
                if any(isinstance(a, ast.ExceptHandler) for a in q.ancestors(pm, where)):
                    ck.ob("C45.safe-unicode", su, where, isinstance(v, ast.Call) and q.call_attr(v) in ("repr", "ascii"), "the fallback cannot fail for bytes (repr)", construct="fallback " + q.unparse(where))


def run(ck):
    ck.repo = strip_annotations(ck.repo, F)
    ck.rule("C45.indent-return", "every return of LogFormatter.format is `<text>.replace('\\n', '\\n' + blanks)` taken after the last modification of the text")
    ck.rule("C45.message-guard", "record.getMessage() and the message conversion run inside try/except Exception")
    ck.rule("C45.message-set", "record.message is assigned on every path before the format string is applied; the fallback does not re-apply the caller's format")
    ck.rule("C45.safe-unicode", "_safe_unicode guards its decode against UnicodeDecodeError and falls back to repr")
    fi = ck.func(F, FN)
    rule_indent(ck, fi)
    rule_message(ck, fi)
    rule_safe_unicode(ck, fi)


# ---------------------------------------------------------------------------
# mutants


def _m(edit, qn=FN):
    return lambda repo: mutate(repo, F, qn, edit)


def _src(n):
    return ast.unparse(n)


def _replace_before_traceback(root):
    b = root.body
    idx = [i for i, st in enumerate(b) if isinstance(st, ast.If) and _src(st.test) == "record.exc_text"]
    if not idx or not isinstance(b[-1], ast.Return):
        return False
    b.insert(idx[0], parse_stmt("formatted = formatted.replace('\\n', '\\n    ')"))
    b[-1] = parse_stmt("return formatted")
    return True


def _getmessage_outside_try(root):
    for i, st in enumerate(root.body):
        if isinstance(st, ast.Try) and "getMessage" in _src(st):
            first = st.body.pop(0)
            root.body.insert(i, first)
            return True
    return False


MUTANTS = [
    ("seeded C45-adv1: handler narrowed to (TypeError, ValueError)", _m(replace_expr(lambda n: isinstance(n, ast.ExceptHandler), lambda n: ast.ExceptHandler(type=parse_expr("(TypeError, ValueError)"), name=n.name, body=n.body))), "C45.message-guard"),
    ("fast path returns early when the *message* has no newline (traceback still appended later is skipped / unindented)", _m(replace_stmt(lambda st: isinstance(st, ast.Assign) and _src(st).startswith("formatted = self._fmt"), lambda st: [st, parse_stmt("if '\\n' not in record.message and not record.exc_info:\n    return formatted")])), "C45.indent-return"),
    ("return the text without indenting newlines", _m(replace_stmt(lambda st: isinstance(st, ast.Return), lambda st: [parse_stmt("return formatted")])), "C45.indent-return"),
    ("handler narrowed to TypeError", _m(replace_expr(lambda n: isinstance(n, ast.ExceptHandler), lambda n: ast.ExceptHandler(type=ast.Name(id="TypeError", ctx=ast.Load()), name=n.name, body=n.body))), "C45.message-guard"),
    ("newlines indented before the traceback is appended", _m(_replace_before_traceback), "C45.indent-return"),
    ("empty indentation", _m(replace_expr(lambda n: isinstance(n, ast.Constant) and n.value == "\n    ", lambda n: ast.Constant(value="\n"))), "C45.indent-return"),
    ("only the first newline is indented", _m(replace_expr(lambda n: isinstance(n, ast.Call) and isinstance(n.func, ast.Attribute) and n.func.attr == "replace", lambda n: ast.Call(func=n.func, args=n.args + [ast.Constant(value=1)], keywords=[]))), "C45.indent-return"),
    ("fallback handler does not set record.message", _m(replace_expr(lambda n: isinstance(n, ast.ExceptHandler), lambda n: ast.ExceptHandler(type=n.type, name=None, body=[ast.Pass()]))), "C45.message-set"),
    ("getMessage() moved out of the try", _m(_getmessage_outside_try), "C45.message-guard"),
    ("early return for records without exception text", _m(replace_stmt(lambda st: isinstance(st, ast.If) and _src(st.test) == "record.exc_text", lambda st: [parse_stmt("if not record.exc_text:\n    return formatted"), st])), "C45.indent-return"),
    ("_safe_unicode without the repr fallback", _m(replace_stmt(lambda st: isinstance(st, ast.Try), lambda st: list(st.body)), "_safe_unicode"), "C45.safe-unicode"),
    ("traceback appended after the indenting replace", _m(replace_stmt(lambda st: isinstance(st, ast.Return), lambda st: [parse_stmt("return formatted.replace('\\n', '\\n    ') + (record.exc_text or '')")])), "C45.indent-return"),
    ("fallback re-applies the caller's format", _m(replace_expr(lambda n: isinstance(n, ast.JoinedStr), lambda n: parse_expr("record.msg % record.__dict__"))), "C45.message-set"),
]
