"""C41 — fork_processes: the supervisor restarts exactly the failed workers.

Decided statically (DESIGN.md §4 C41, families TS / MPT / TBL): a path-sensitive typestate over every
CFG path of ``fork_processes`` whose abstract value is (possible exit classes of the reaped status,
popped?, #counter increments, budget tested?, #restarts, child-result pending?).  The status predicates
(``os.WIFSIGNALED``, ``os.WEXITSTATUS`` ...) are *evaluated* on the three abstract exit classes
{signal, exit 0, exit != 0} by constant folding, so equivalent rewrites of the if/elif chain are accepted.
The budget test is folded over k-th abnormal exit x max_restarts.  ``start_child`` is checked for the
child/parent branch contract.  Not decided: concrete exit histories, fork/wait behaviour of the OS.
"""
from __future__ import annotations

import ast
import copy

from .. import q
from ..cfg import explore, must_facts, canon_fact, holds
from ..rules import call_sites
from ..mutate import mutate, remove_stmts, replace_stmt, replace_expr, parse_stmt, parse_expr
from ..model import AnalysisError
from ..x_scope import own_nodes, strip_annotations
from ..x_flow import check_default_only_for_none, protected, unique_def, expanded_facts, expand_locals

TECHNIQUE = "path-sensitive typestate on the CFG with abstract evaluation of the wait-status predicates and exhaustive folding of the budget test"
EXPLANATION = (
    "fork_processes is explored path-sensitively: at os.wait() the status is one of the abstract statuses {signal 1/9/15, exit 0/1/2/255}; each branch condition that mentions "
    "the status is folded for every class and prunes the set; the restart call must be reached with the popped id, only for abnormal classes, "
    "after exactly one counter increment and the budget test, and every abnormal path must restart or raise before the next wait; a forked child "
    "(non-None result of start_child) must return that result before any other supervisor action; sys.exit is guarded by `not children`; "
    "start_child's child branch publishes the module-global task id and returns it, the parent branch records pid -> id and returns None."
)
NOT_DECIDED = "concrete histories of exits (the model-checking part); that os.fork/os.wait behave as documented; stopped/continued wait statuses; cpu_count default"
LEVEL_NOTE = "assumption A-wait: for a signal-terminated status os.WEXITSTATUS() is 0 and os.WIFEXITED() is false (POSIX encoding)"

F = "tornado/process.py"
FN = "fork_processes"
from ..x_waitstatus import STATUS, Evaluator

CLASSES = tuple(STATUS)
ABNORMAL = frozenset(c for c in STATUS if c != "exit0")
_EV = None


def _eval_on_class(e, status, cls):
    return bool(_EV.fold(e, status, cls))


class Anchors:
    pass


def resolve(ck):
    global _EV
    _EV = Evaluator(ck.repo, F, scopes=[FN])
    A = Anchors()
    fi = ck.func(F, FN)
    A.fi = fi
    params = fi.params()
    if len(params) < 2:
        raise AnalysisError("fork_processes lost its (num_processes, max_restarts) parameters")
    A.np, A.maxr = params[0], params[1]
    nested = ck.repo.nested(fi)
    starters = [n for n in nested if q.find_calls(n.node, "os.fork")]
    A.start_bound = {}   # parameters of the starter pre-bound by functools.partial -> expression in fork_processes
    A.start_call = None  # the name the starter is called by inside fork_processes
    if len(starters) == 1:
        A.start = ck.use(starters[0])
        A.start_call = A.start.name
    elif not starters:
        # `start_child = functools.partial(_start_child, children)`: a module-level function as the closure
        cands = []
        for nm in q.local_names(fi.node):
            d = unique_def(fi, nm)
            if isinstance(d, ast.Call) and q.call_attr(d) == "partial" and d.args and isinstance(d.args[0], ast.Name) and ck.repo.has_func(F, d.args[0].id) and not d.keywords:
                h = ck.repo.func(F, d.args[0].id)
                if q.find_calls(h.node, "os.fork"):
                    cands.append((nm, h, d))
        if len(cands) != 1:
            raise AnalysisError("expected exactly one nested function (or functools.partial of a module function) calling os.fork in fork_processes, found %d" % len(cands))
        nm, h, d = cands[0]
        A.start = ck.use(h)
        A.start_call = nm
        A.start_bound = dict(zip(h.params(), d.args[1:]))
    else:
        raise AnalysisError("expected exactly one nested function calling os.fork in fork_processes, found %d" % len(starters))
    # os.wait() unpacking
    waits = [n for n in fi.cfg.stmt_nodes(lambda n: n.kind == "stmt" and isinstance(n.ast, ast.Assign) and q.is_call(n.ast.value, "os.wait"))]
    if len(waits) != 1 or not (isinstance(waits[0].ast.targets[0], ast.Tuple) and len(waits[0].ast.targets[0].elts) == 2 and all(isinstance(e, ast.Name) for e in waits[0].ast.targets[0].elts)):
        raise AnalysisError("expected one `pid, status = os.wait()` in fork_processes")
    A.wait = waits[0]
    A.pid, A.status = (e.id for e in waits[0].ast.targets[0].elts)
    # the children map: the dict start_child's parent branch subscript-stores into
    maps = {p[:-2] for n in q.walk_body(A.start.node) if isinstance(n, ast.Assign) for p in q.assigned_paths(n) if p.endswith("[]")}
    if len(maps) != 1:
        raise AnalysisError("start_child does not record the child in exactly one map (%r)" % sorted(maps))
    A.children_in_start = maps.pop()
    A.children = A.children_in_start
    if A.children_in_start in A.start_bound:
        A.children = q.dotted(A.start_bound[A.children_in_start])
        if A.children is None:
            raise AnalysisError("the children map bound into the starter is not a local name")
    # supervisor loop = the While containing the wait
    pm = q.parent_map(fi.node)
    A.pm = pm
    loops = [a for a in q.ancestors(pm, waits[0].ast) if isinstance(a, ast.While)]
    if not loops:
        raise AnalysisError("os.wait() is not inside a while loop")
    A.loop = loops[0]
    # start_child call sites
    A.calls = call_sites(fi, A.start_call)
    ck.floor("C41.restart-iff-abnormal", len(A.calls), 2, "start_child call sites (initial loop, restart)")
    return A


def _bound_name(node):
    """Name the call result is bound to when node is `<name> = call(...)`, else None."""
    st = node.ast
    if isinstance(st, ast.Assign) and len(st.targets) == 1 and isinstance(st.targets[0], ast.Name) and isinstance(st.value, ast.Call):
        return st.targets[0].id
    if isinstance(st, ast.AnnAssign) and isinstance(st.target, ast.Name) and isinstance(st.value, ast.Call):
        return st.target.id
    return None


def supervisor_typestate(ck, A):
    fi = A.fi
    cfg = fi.cfg
    call_nodes = {n.id: c for n, c in A.calls}
    in_loop = lambda astn: any(a is A.loop for a in q.ancestors(A.pm, astn))
    restart_ids = {nid for nid, c in call_nodes.items() if in_loop(c)}
    initial_ids = set(call_nodes) - restart_ids
    if not restart_ids or not initial_ids:
        raise AnalysisError("could not separate initial start from restart call sites of %s" % A.start_call)
    # pop of the reaped pid
    pops = {}
    for n in cfg.stmt_nodes(lambda n: n.kind == "stmt"):
        for c in q.calls(n.ast):
            if q.is_call(c, A.children + ".pop") and c.args and q.dotted(c.args[0]) == A.pid:
                if len(c.args) == 2 and not q.is_const(c.args[1], None):
                    raise AnalysisError("children.pop(pid, <non-None default>): unknown idiom for the unknown-pid rule")
                if len(c.args) > 2:
                    raise AnalysisError("children.pop with more than two arguments")
                bn = _bound_name(n)
                if bn is None:
                    raise AnalysisError("result of %s.pop(%s) is not bound to a name" % (A.children, A.pid))
                pops[n.id] = bn
    if len(pops) != 1:
        raise AnalysisError("expected exactly one `%s.pop(%s)` in the supervisor loop, found %d" % (A.children, A.pid, len(pops)))
    popped_name = next(iter(pops.values()))
    # the budget test: an atomic test mentioning max_restarts
    btests = [n for n in cfg.stmt_nodes(lambda n: n.kind == "test" and A.maxr in q.names_in(n.ast)) if in_loop(n.ast)]
    if len(btests) != 1:
        raise AnalysisError("expected exactly one test against %s in the supervisor loop, found %d" % (A.maxr, len(btests)))
    btest = btests[0]
    counters = q.names_in(btest.ast) - {A.maxr}
    keyed = [sb for sb in ast.walk(btest.ast) if isinstance(sb, ast.Subscript) and (q.names_in(sb.slice) & {popped_name, A.pid})]
    if keyed:
        # positively established: the quantity compared with the budget is looked up per worker / per pid
        ck.ob("C41.budget", fi, btest.ast, False, "max_restarts bounds the TOTAL number of restarts: the counter compared with it is one number, not an entry per task id / pid (%s)" % q.unparse(keyed[0]),
              construct="budget-per-entity " + q.normalize_construct(btest.ast, q.local_names(fi.node)))
        return popped_name
    if len(counters) != 1:
        raise AnalysisError("budget test %s does not compare one counter with %s" % (q.unparse(btest.ast), A.maxr))
    counter = counters.pop()
    # counter initialised to 0 before the loop, incremented by 1 in the loop
    inits = [st for st in q.stores_to(fi.node, counter) if isinstance(st, (ast.Assign, ast.AnnAssign)) and not in_loop(st)]
    ck.ob("C41.budget", fi, inits[0] if inits else fi.node, len(inits) == 1 and q.is_const(inits[0].value, 0), "the restart counter %s starts at 0 before the supervisor loop" % counter,
          construct=None if inits else "counter-initialised")
    incs = {n.id for n in cfg.stmt_nodes(lambda n: n.kind == "stmt" and isinstance(n.ast, ast.AugAssign) and q.dotted(n.ast.target) == counter and isinstance(n.ast.op, ast.Add) and q.is_const(n.ast.value, 1))}
    other_w = [st for st in q.stores_to(fi.node, counter) if in_loop(st) and not (isinstance(st, ast.AugAssign) and isinstance(st.op, ast.Add) and q.is_const(st.value, 1))]
    if other_w:
        raise AnalysisError("restart counter %s is written in an unknown way inside the loop" % counter)
    loop_head = [n for n in cfg.nodes if n.kind == "join" and n.ast is A.loop and n.label == " while"]
    if len(loop_head) != 1:
        raise AnalysisError("supervisor loop head not found in the CFG")
    loop_head = loop_head[0]
    exits = {n.id for n, _c in call_sites(fi, "sys.exit")}

    res = {}  # (rule, node id, construct, what) -> ok

    def rec(rule, node, ok, what, construct=None):
        k = (rule, node.id, construct, what)
        res[k] = res.get(k, True) and ok

    INIT = (None, False, 0, False, 0, None, 0)  # classes, popped, counted, checked, restarted, pending child, counted_before_check

    def end_of_iteration(node, val):
        classes, popped, counted, checked, restarted, pending, _cb = val
        if classes is None or not popped:
            return
        abnormal = bool(set(classes) & ABNORMAL)
        if abnormal:
            rec("C41.restart-iff-abnormal", A.wait, restarted == 1,
                "a worker whose reaped status may be abnormal (%s) is restarted exactly once before the next wait (or the supervisor raises)" % "/".join(sorted(classes)),
                construct="abnormal-exit restarted=%d classes=%s" % (restarted, "/".join(sorted(classes))))
        else:
            rec("C41.restart-iff-abnormal", A.wait, restarted == 0, "a worker that exited normally is not restarted", construct="normal-exit restarted=%d" % restarted)

    def transfer(n, val):
        classes, popped, counted, checked, restarted, pending, cb = val
        supervisor_step = n.id in call_nodes or n.id == A.wait.id or n.id in exits or n.kind == "for" or n.id == loop_head.id
        if pending is not None and supervisor_step:
            rec("C41.child-returns", n, False, "a forked child (start_child result not None) returns its task id before any further fork/wait/exit of the supervisor",
                construct="child-continues-to " + q.normalize_construct(n.ast if n.kind != "for" and n.kind != "join" else n.ast.iter if n.kind == "for" else n.ast.test, q.local_names(fi.node)).split("\n")[0][:80])
            pending = None
        if n.id == loop_head.id or n.id in exits:
            end_of_iteration(n, val)
            if n.id == loop_head.id:
                return (classes, False, 0, False, 0, None, 0) if classes is not None else val[:5] + (None, 0)
        if n.id == A.wait.id:
            return (frozenset(CLASSES), False, 0, False, 0, None, 0)
        if n.id in pops:
            popped = True
        if n.id in incs:
            counted = min(counted + 1, 2)
        if n.id == btest.id:
            checked = True
            cb = counted
        if n.kind == "stmt" and isinstance(n.ast, ast.Return):
            if pending is not None:
                v = q.dotted(n.ast.value) if n.ast.value is not None else None
                rec("C41.child-returns", n, v is not None and v in pending[1], "the child returns the task id start_child gave it")
            return None
        if n.id in call_nodes:
            c = call_nodes[n.id]
            arg = q.dotted(c.args[0]) if len(c.args) == 1 else None
            if n.id in restart_ids:
                rec("C41.restart-same-id", n, popped and arg == popped_name, "the restart uses the id popped for the reaped pid (%s)" % popped_name)
                rec("C41.restart-iff-abnormal", n, classes is not None and "exit0" not in classes, "start_child in the loop is reached only for signalled / non-zero exits (classes here: %s)" % ("/".join(sorted(classes)) if classes else "?"),
                    construct="restart-on " + ("/".join(sorted(classes)) if classes else "?"))
                rec("C41.budget", n, checked, "the budget test dominates the restart")
                rec("C41.budget", n, counted == 1, "each restart is counted exactly once before it happens (increments on this path: %d)" % counted, construct="counted=%d %s" % (counted, q.unparse(c)))
                restarted = min(restarted + 1, 2)
            bn = _bound_name(n)
            pending = (bn or "<unbound>", frozenset([bn or "<unbound>"] + ([arg] if arg else [])))
        return (classes, popped, counted, checked, restarted, pending, cb)

    def edge(n, kind, val):
        if val is None:
            return None
        classes, popped, counted, checked, restarted, pending, cb = val
        if n.kind == "test" and kind in ("true", "false"):
            want = kind == "true"
            if pending is not None:
                t, pol = canon_fact(n.ast, want)
                if t == "%s is None" % pending[0]:
                    if pol:
                        pending = None  # parent
                    # else: child, stays pending until the return
            test_ = expand_locals(fi, n.ast, keep={A.status, A.pid})
            if classes is not None and A.status in q.names_in(test_):
                try:
                    keep = frozenset(c for c in classes if _eval_on_class(test_, A.status, c) == want)
                except q.NotFoldable as e:
                    raise AnalysisError("status predicate %s cannot be evaluated on the abstract exit classes (%s)" % (q.unparse(test_), e))
                if not keep:
                    return None
                classes = keep
        return (classes, popped, counted, checked, restarted, pending, cb)

    explore(cfg, INIT, transfer, lambda t: False, edge_transfer=edge, follow_exc=True, exc_effect=False)

    nodes = {n.id: n for n in cfg.nodes}
    cnt = {}
    for (rule, nid, construct, what), ok in sorted(res.items(), key=lambda kv: (kv[0][0], kv[0][1], str(kv[0][2]), kv[0][3])):
        n = nodes[nid]
        astn = n.ast if n.kind in ("stmt", "test") else (n.ast.iter if n.kind == "for" else fi.node)
        ck.ob(rule, fi, astn, ok, what, construct=construct)
        cnt[rule] = cnt.get(rule, 0) + 1
    ck.floor("C41.restart-iff-abnormal", cnt.get("C41.restart-iff-abnormal", 0), 3, "restart/exit-class obligations")
    ck.floor("C41.restart-same-id", cnt.get("C41.restart-same-id", 0), 1, "restart sites")
    ck.floor("C41.budget", cnt.get("C41.budget", 0), 2, "budget obligations at the restart site")

    # the child check must have been exercised: every start_child result is tested against None and returned
    facts = must_facts(cfg)
    rets = 0
    bound = {(_bound_name(n)) for n, _c in A.calls}
    for n in cfg.stmt_nodes(lambda n: n.kind == "stmt" and isinstance(n.ast, ast.Return)):
        v = q.dotted(n.ast.value) if n.ast.value is not None else None
        if v in bound:
            rets += 1
            ck.ob("C41.child-returns", fi, n.ast, holds(facts[n.id], "%s is None" % v, False), "`return %s` is taken only when start_child returned a task id (child process)" % v)
        else:
            ck.ob("C41.child-returns", fi, n.ast, False, "fork_processes returns only a task id obtained from start_child (the parent never returns normally)")
    ck.floor("C41.child-returns", rets, 1, "child return sites")

    # budget semantics by exhaustive folding: the k-th abnormal exit raises iff k > max_restarts
    # counter value at the test on the k-th abnormal exit = (k - 1) + increments before the test on this iteration
    dom = cfg.dominators()
    inc_before = 1 if any(i in dom.get(btest.id, set()) for i in incs) else 0
    rows = []
    try:
        for m in range(0, 6):
            for k in range(1, 8):
                rows.append((k, m, bool(q.fold(btest.ast, {counter: (k - 1) + inc_before, A.maxr: m})), k > m))
    except q.NotFoldable as e:
        raise AnalysisError("budget test %s is not foldable over (counter, %s): %s" % (q.unparse(btest.ast), A.maxr, e))
    # the test's truth value that means "exceeded": the one taken for k=7, m=0 (far beyond any budget)
    far = [r for r in rows if r[0] == 7 and r[1] == 0][0][2]
    bad = [(k, m) for k, m, val, exceeded in rows if (val == far) != exceeded]
    ck.ob("C41.budget", fi, btest.ast, not bad,
          "the supervisor gives up exactly when the k-th abnormal exit has k > %s (folded for k=1..7, %s=0..5%s)" % (A.maxr, A.maxr, "; first disagreement at k=%d, budget=%d" % bad[0] if bad else ""),
          construct="budget-table " + q.unparse(btest.ast))
    # the exceeded edge leads straight to a raise
    tgt = [cfg.nodes[s] for s, kind in cfg.succ[btest.id] if kind == ("true" if far else "false")]
    ck.ob("C41.budget", fi, btest.ast, len(tgt) == 1 and tgt[0].kind == "stmt" and isinstance(tgt[0].ast, ast.Raise), "when the budget is exceeded the supervisor raises (fails) instead of restarting",
          construct="exceeded-raises " + q.unparse(btest.ast))
    return popped_name


def rule_initial_loop(ck, A):
    fi = A.fi
    cnt = 0
    for node, c in A.calls:
        if any(a is A.loop for a in q.ancestors(A.pm, c)):
            continue
        cnt += 1
        fors = [a for a in q.ancestors(A.pm, c) if isinstance(a, ast.For)]
        if not fors:
            ck.ob("C41.initial-start", fi, c, False, "the initial start_child call sits in a loop over the task ids")
            continue
        lp = fors[0]
        it = lp.iter
        ok_range = isinstance(it, ast.Call) and q.dotted(it.func) == "range" and len(it.args) == 1 and not it.keywords and q.dotted(it.args[0]) == A.np
        ck.ob("C41.initial-start", fi, it, ok_range, "task ids are exactly range(%s): 0..n-1, each once" % A.np)
        st = q.enclosing_stmt(A.pm, c)
        direct = any(st is s for s in lp.body) and not lp.orelse
        ck.ob("C41.initial-start", fi, c, direct and isinstance(lp.target, ast.Name) and len(c.args) == 1 and q.dotted(c.args[0]) == lp.target.id,
              "each iteration starts exactly one child, unconditionally, with the loop's id")
        # num_processes is only re-bound before the loop (default), not between loop and use
        for w in q.stores_to(fi.node, A.np):
            ck.ob("C41.initial-start", fi, w, w.lineno < lp.lineno and not any(isinstance(a, (ast.For, ast.While)) for a in q.ancestors(A.pm, w)), "%s is fixed before the start loop" % A.np)
    ck.floor("C41.initial-start", cnt, 1, "initial start sites")


def rule_unknown_pid(ck, A):
    fi = A.fi
    facts = must_facts(fi.cfg)
    cnt = 0
    for n in fi.cfg.stmt_nodes(lambda n: n.kind == "stmt"):
        for c in q.calls(n.ast):
            if q.is_call(c, A.children + ".pop") or any(isinstance(s, ast.Subscript) and q.dotted(s.value) == A.children and isinstance(s.ctx, (ast.Load, ast.Del)) for s in ast.walk(n.ast)):
                cnt += 1
                if q.is_call(c, A.children + ".pop") and len(c.args) == 2:
                    # pop(pid, None): an unknown pid yields None, which must leave the iteration before any accounting:
                    # at every counter update and every start_child call of the loop the popped value is known not to be None
                    bn_ = _bound_name(n)
                    in_loop_ = lambda a_: any(x is A.loop for x in q.ancestors(A.pm, a_))
                    acct = [m_ for m_ in fi.cfg.stmt_nodes(lambda m_: m_.kind == "stmt" and in_loop_(m_.ast) and m_.id != n.id and (
                        isinstance(m_.ast, ast.AugAssign) or any(isinstance(x, ast.Call) and q.call_attr(x) == A.start_call for x in q.walk_local(m_.ast))))]
                    if bn_ is None or not acct:
                        raise AnalysisError("children.pop(pid, None): result not bound / no accounting site found")
                    bad_ = [m_ for m_ in acct if ("%s is None" % bn_, False) not in expanded_facts(fi, facts[m_.id])]
                    ck.ob("C41.unknown-pid", fi, n.ast, not bad_,
                          "pids that are not our workers are skipped before any accounting: after `%s = %s.pop(%s, None)` every counter update / restart is reached only with `%s is not None`%s" % (
                              bn_, A.children, A.pid, bn_, ("; reached unguarded: " + q.unparse(bad_[0].ast)[:50]) if bad_ else ""),
                          construct="pop-default-none " + ("unguarded" if bad_ else "guarded"))
                    break
                hd = protected(A.pm, c, "KeyError") if q.is_call(c, A.children + ".pop") else None
                skips = isinstance(hd, ast.ExceptHandler) and bool(hd.body) and isinstance(hd.body[-1], (ast.Continue, ast.Return, ast.Raise)) and not any(
                    isinstance(x, ast.Call) and q.call_attr(x) == A.start_call for st_ in hd.body for x in ast.walk(st_))
                ck.ob("C41.unknown-pid", fi, n.ast, ("%s in %s" % (A.pid, A.children), True) in expanded_facts(fi, facts[n.id]) or skips,
                      "pids that are not our workers are skipped: the lookup of the reaped pid is guarded by `%s in %s` (or its KeyError leaves the iteration)" % (A.pid, A.children))
                break
    ck.floor("C41.unknown-pid", cnt, 1, "lookups of the reaped pid")
    # the loop runs while there are children; success exit only when none is left
    t = A.loop.test
    try:
        loop_ok = bool(q.fold(t, {A.children: (1,)})) and bool(q.fold(t, {A.children: (1, 2)})) and not bool(q.fold(t, {A.children: ()}))
    except q.NotFoldable as e:
        raise AnalysisError("supervisor loop test %s not foldable over the children map (%s)" % (q.unparse(t), e))
    ck.ob("C41.exit-when-empty", fi, t, loop_ok, "the supervisor loop runs exactly while the children map is non-empty", construct="loop-test " + q.unparse(t))
    ex = call_sites(fi, "sys.exit")
    for node, c in ex:
        conds = []
        for t, pol in facts[node.id]:
            if t.startswith("@"):
                continue
            try:
                te = ast.parse(t, mode="eval").body
            except SyntaxError:
                continue
            if q.names_in(te) - {"len", "bool"} == {A.children}:
                conds.append((te, pol))

        def consistent(val):
            try:
                return all(bool(q.fold(te, {A.children: val})) == pol for te, pol in conds)
            except q.NotFoldable:
                return True

        only_empty = bool(conds) and consistent(()) and not consistent((1,)) and not consistent((1, 2))
        ck.ob("C41.exit-when-empty", fi, c, only_empty, "sys.exit is reached only with no child left (all exited normally or were replaced)")
        a0 = c.args[0] if c.args else None
        ck.ob("C41.exit-when-empty", fi, c, a0 is None or q.is_const(a0, 0) or q.is_const(a0, None), "the success exit reports status 0", construct="exit-status " + q.unparse(c))
    ck.floor("C41.exit-when-empty", len(ex), 1, "sys.exit sites")
    # nobody else removes entries from the map
    for st in own_nodes(fi.node):
        if isinstance(st, ast.Call) and isinstance(st.func, ast.Attribute) and q.dotted(st.func.value) == A.children and st.func.attr in ("clear", "popitem", "update", "setdefault"):
            ck.ob("C41.exit-when-empty", fi, st, False, "the children map is changed only by start_child (add) and the reaped-pid pop (remove)")
        if isinstance(st, (ast.Assign, ast.Delete)) and any(p in (A.children, A.children + "[]") for p in q.assigned_paths(st)):
            inloop = any(a is A.loop for a in q.ancestors(A.pm, st))
            ck.ob("C41.exit-when-empty", fi, st, not inloop and isinstance(st, ast.Assign) and isinstance(st.value, ast.Dict) and not st.value.keys, "the children map is created empty before any fork and never re-bound in the loop")


def rule_start_child(ck, A):
    sc = A.start
    params = [p for p in sc.params() if p not in A.start_bound]
    if len(params) != 1:
        raise AnalysisError("start_child does not take exactly the task id")
    idp = params[0]
    forks = [n for n in sc.cfg.stmt_nodes(lambda n: n.kind == "stmt" and isinstance(n.ast, ast.Assign) and q.is_call(n.ast.value, "os.fork"))]
    if len(forks) != 1 or _bound_name(forks[0]) is None:
        raise AnalysisError("expected one `pid = os.fork()` in start_child")
    pidn = _bound_name(forks[0])
    # the global published by task_id()
    tid = ck.use(getattr(ck, "_raw_repo", ck.repo).func(F, "task_id"))  # un-normalised: the global must not be constant-folded away
    rets = [n for n in q.walk_body(tid.node) if isinstance(n, ast.Return)]
    if len(rets) != 1 or not isinstance(rets[0].value, ast.Name):
        raise AnalysisError("task_id() does not return a module global")
    g = rets[0].value.id
    ck.repo.const(F, g)
    declared = any(isinstance(n, ast.Global) and g in n.names for n in q.walk_body(sc.node))
    assigns_g = any(isinstance(n, (ast.Assign, ast.AnnAssign)) and g in q.assigned_paths(n) for n in q.walk_body(sc.node))
    if not declared and not assigns_g:
        # the id may be published through a helper: a VIOLATION needs the assignment to be visibly local-only
        others = [c for c in q.calls(sc.node) if q.dotted(c.func) not in ("os.fork", "_reseed_random")]
        if others:
            raise AnalysisError("start_child neither assigns %s nor declares it global, but calls %s: publication through a helper is not followed" % (g, q.unparse(others[0].func)))
    ck.ob("C41.task-id", sc, sc.node, declared, "start_child declares `global %s` (otherwise the assignment is a dead local and task_id() stays None in the worker)" % g, construct="global " + g)
    is_pub = lambda n: n.kind == "stmt" and isinstance(n.ast, ast.Assign) and g in q.assigned_paths(n.ast) and q.dotted(n.ast.value) == idp
    is_rec = lambda n: n.kind == "stmt" and isinstance(n.ast, ast.Assign) and (A.children_in_start + "[]") in q.assigned_paths(n.ast)

    # a result variable (`result = None ... result = i ... return result`): what kind of value each plain local holds
    def kind_of(e):
        if e is None or q.is_const(e, None):
            return "none"
        if q.dotted(e) == idp:
            return "id"
        return "?"

    def tr(n, v):
        pub, recd, loc = v
        if is_pub(n):
            pub = True
        if n.kind == "stmt" and isinstance(n.ast, ast.Assign) and g in q.assigned_paths(n.ast) and not is_pub(n):
            pub = False
        if is_rec(n):
            recd = True
        if n.kind == "stmt" and isinstance(n.ast, ast.Assign) and len(n.ast.targets) == 1 and isinstance(n.ast.targets[0], ast.Name) and n.ast.targets[0].id not in (g, pidn):
            d_ = dict(loc)
            d_[n.ast.targets[0].id] = kind_of(n.ast.value)
            loc = tuple(sorted(d_.items()))
        return (pub, recd, loc)

    def ret_kind(ret, loc):
        v_ = ret.value
        if isinstance(v_, ast.Name) and v_.id != idp and v_.id in dict(loc):
            return dict(loc)[v_.id]
        return kind_of(v_)

    seen = explore(sc.cfg, (False, False, ()), tr, lambda t: t == "%s == 0" % pidn, follow_exc=False)
    cfg = sc.cfg
    nret = 0
    for n in cfg.stmt_nodes(lambda n: n.kind == "stmt" and isinstance(n.ast, ast.Return)):
        for facts, (pub, recd, loc) in sorted(seen.get(n.id, ()), key=repr):
            nret += 1
            child = ("%s == 0" % pidn, True) in facts
            parent = ("%s == 0" % pidn, False) in facts
            if child:
                ck.ob("C41.task-id", sc, n.ast, pub and not recd, "child branch: the module-global task id is set to the given id before returning, and the child does not touch the parent's table", construct="child-publishes " + q.unparse(n.ast))
                ck.ob("C41.task-id", sc, n.ast, ret_kind(n.ast, loc) == "id", "child branch returns its task id", construct="child-returns " + q.unparse(n.ast))
            elif parent:
                ck.ob("C41.task-id", sc, n.ast, recd and not pub, "parent branch: records pid -> id before returning and does not claim a task id itself", construct="parent-records " + q.unparse(n.ast))
                ck.ob("C41.task-id", sc, n.ast, ret_kind(n.ast, loc) == "none", "parent branch returns None", construct="parent-returns " + q.unparse(n.ast))
            else:
                ck.ob("C41.task-id", sc, n.ast, False, "every return of start_child is on the child (pid == 0) or the parent branch", construct="unclassified-return " + q.unparse(n.ast))
    if cfg.pred[cfg.exit.id]:
        fall = [s for s in seen.get(cfg.exit.id, ())]
        # falling off the end returns None: only acceptable on the parent branch with the record made
        for p, kind in cfg.pred[cfg.exit.id]:
            pn = cfg.nodes[p]
            if not (pn.kind == "stmt" and isinstance(pn.ast, ast.Return)):
                for facts, (pub, recd, _loc) in seen.get(pn.id, ()):
                    ok = ("%s == 0" % pidn, False) in facts and (recd or is_rec(pn))
                    ck.ob("C41.task-id", sc, pn.ast if isinstance(pn.ast, ast.AST) else sc.node, ok, "implicit `return None` only on the parent branch after recording the child", construct="fallthrough")
                    nret += 1
    ck.floor("C41.task-id", nret, 2, "return states of start_child")
    # the record maps the forked pid to the id
    for n in sc.cfg.stmt_nodes(is_rec):
        st = n.ast
        t = st.targets[0]
        ck.ob("C41.task-id", sc, st, isinstance(t, ast.Subscript) and q.dotted(t.slice) == pidn and q.dotted(st.value) == idp, "the parent records children[<forked pid>] = <task id>")


def rule_defaults(ck, A):
    """Class 'truthiness test where 0 is a legal value': the defaults of the numeric parameters replace None only."""
    fi = A.fi
    cfg = fi.cfg
    in_loop = lambda astn: any(a is A.loop for a in q.ancestors(A.pm, astn))
    is_btest = lambda n: n.kind == "test" and A.maxr in q.names_in(n.ast) and in_loop(n.ast)
    k = check_default_only_for_none(ck, "C41.defaults", fi, A.maxr, [0, 1, 2, 3, 7, 100], is_btest,
                                    "restart budget (0 = never restart is a legal budget)")
    is_start_loop = lambda n: n.kind == "for" and isinstance(n.ast.iter, ast.Call) and q.dotted(n.ast.iter.func) == "range" and any(q.dotted(a) == A.np for a in n.ast.iter.args)
    k += check_default_only_for_none(ck, "C41.defaults", fi, A.np, [1, 2, 3, 8], is_start_loop, "number of workers")
    ck.floor("C41.defaults", k, 8, "parameter values propagated")


def run(ck):
    ck._raw_repo = ck.repo
    ck.repo = strip_annotations(ck.repo, F)
    ck.rule("C41.defaults", "defaults of max_restarts / num_processes replace only None (resp. documented non-positive counts): every legal caller value, including 0 restarts, reaches its use unchanged")
    ck.rule("C41.initial-start", "each id in range(num_processes) is started exactly once, unconditionally")
    ck.rule("C41.restart-iff-abnormal", "start_child in the supervisor loop is reached only for signalled / non-zero statuses, and every such status is restarted once (or the supervisor raises) before the next wait")
    ck.rule("C41.restart-same-id", "the restart passes the id popped for the reaped pid")
    ck.rule("C41.budget", "the counter starts at 0, is incremented once per restart, the budget test dominates the restart, raises exactly when the k-th abnormal exit has k > max_restarts")
    ck.rule("C41.unknown-pid", "the lookup of a reaped pid is guarded by membership in the children map")
    ck.rule("C41.exit-when-empty", "sys.exit(0) is reached only when the children map is empty; the map is only changed by start_child and the reaped-pid pop")
    ck.rule("C41.child-returns", "a forked child returns its task id immediately; the parent never returns normally")
    ck.rule("C41.task-id", "start_child: the child branch sets the module-global task id (declared global) and returns it; the parent branch records pid -> id and returns None")
    A = resolve(ck)
    rule_initial_loop(ck, A)
    rule_defaults(ck, A)
    supervisor_typestate(ck, A)
    rule_unknown_pid(ck, A)
    rule_start_child(ck, A)
    ck.assume("A-wait: os.WEXITSTATUS(status) == 0 and not os.WIFEXITED(status) for a signal-terminated status (POSIX wait encoding)")


# ---------------------------------------------------------------------------
# mutants


def _m(edit, qn=FN):
    return lambda repo: mutate(repo, F, qn, edit)


def _src(n):
    return ast.unparse(n)


def _sup_loop(root):
    return [n for n in ast.walk(root) if isinstance(n, ast.While) and "os.wait" in _src(n)][0]


def _drop_normal_continue(root):
    lp = _sup_loop(root)
    for n in ast.walk(lp):
        if isinstance(n, ast.If) and n.orelse and isinstance(n.orelse[-1], ast.Continue) and "exited normally" in _src(n):
            n.orelse.pop()
            return True
    return False


def _signal_not_restarted(root):
    lp = _sup_loop(root)
    for n in ast.walk(lp):
        if isinstance(n, ast.If) and _src(n.test) == "os.WIFSIGNALED(status)":
            n.body.append(ast.Continue())
            return True
    return False


def _restart_before_budget(root):
    lp = _sup_loop(root)
    b = lp.body
    i_if = [i for i, st in enumerate(b) if isinstance(st, ast.If) and "max_restarts" in _src(st.test)]
    i_rs = [i for i, st in enumerate(b) if isinstance(st, ast.Assign) and "start_child" in _src(st)]
    if not i_if or not i_rs:
        return False
    chk = b.pop(i_if[0])
    b.append(chk)
    return True


def _count_only_signals(root):
    lp = _sup_loop(root)
    b = lp.body
    inc = [st for st in b if isinstance(st, ast.AugAssign)]
    if not inc:
        return False
    b.remove(inc[0])
    for n in ast.walk(lp):
        if isinstance(n, ast.If) and _src(n.test) == "os.WIFSIGNALED(status)":
            n.body.append(inc[0])
            return True
    return False


MUTANTS = [
    ("seeded C41-adv6: unknown pids accounted as worker exits (pop(pid, None) without a guard)", _m(lambda root: _pop_default(root)), "C41.unknown-pid"),
    ("seeded C41-adv4: restarts counted per task id", _m(lambda root: _per_id_budget(root)), "C41.budget"),
    ("seeded C41-adv1: budget default applied by truthiness (0 becomes 100)", _m(replace_stmt(lambda st: isinstance(st, ast.If) and _src(st.test) == "max_restarts is None", lambda st: [parse_stmt("max_restarts = max_restarts or 100")])), "C41.defaults"),
    ("budget default applied with `if not max_restarts`", _m(replace_expr(lambda n: isinstance(n, ast.Compare) and _src(n) == "max_restarts is None", lambda n: parse_expr("not max_restarts"))), "C41.defaults"),
    ("worker count clamped to at least 2", _m(replace_expr(lambda n: isinstance(n, ast.Compare) and _src(n) == "num_processes <= 0", lambda n: parse_expr("num_processes <= 1"))), "C41.defaults"),
    ("child with task id 0 not recognised (truthiness test on the id)", _m(replace_expr(lambda n: isinstance(n, ast.Compare) and _src(n) == "id is not None", lambda n: ast.Name(id="id", ctx=ast.Load()))), "C41.child-returns"),
    ("exit status 1 treated as a normal exit", _m(replace_expr(lambda n: isinstance(n, ast.Compare) and _src(n) == "os.WEXITSTATUS(status) != 0", lambda n: parse_expr("os.WEXITSTATUS(status) > 1"))), "C41.restart-iff-abnormal"),
    ("workers terminated by SIGTERM are not restarted", _m(replace_expr(lambda n: isinstance(n, ast.Call) and _src(n) == "os.WIFSIGNALED(status)", lambda n: parse_expr("os.WIFSIGNALED(status) and os.WTERMSIG(status) != 15"))), "C41.restart-iff-abnormal"),
    ("restart also after a normal exit", _m(_drop_normal_continue), "C41.restart-iff-abnormal"),
    ("workers killed by a signal are not restarted", _m(_signal_not_restarted), "C41.restart-iff-abnormal"),
    ("restart with the loop variable instead of the popped id", _m(replace_expr(lambda n: isinstance(n, ast.Call) and _src(n) == "start_child(id)", lambda n: parse_expr("start_child(i)"))), "C41.restart-same-id"),
    ("budget tested after the restart", _m(_restart_before_budget), "C41.budget"),
    ("budget off by one (>=)", _m(replace_expr(lambda n: isinstance(n, ast.Compare) and "max_restarts" in _src(n) and isinstance(n.ops[0], ast.Gt), lambda n: ast.Compare(left=n.left, ops=[ast.GtE()], comparators=n.comparators))), "C41.budget"),
    ("only signal deaths count against the budget", _m(_count_only_signals), "C41.budget"),
    ("unknown pids are not skipped", _m(remove_stmts(lambda st: isinstance(st, ast.If) and "not in children" in _src(st.test))), "C41.unknown-pid"),
    ("global declaration dropped (task id becomes a dead local)", _m(remove_stmts(lambda st: isinstance(st, ast.Global)), FN + ".<locals>.start_child"), "C41.task-id"),
    ("child does not publish its task id", _m(remove_stmts(lambda st: isinstance(st, ast.Assign) and _src(st) == "_task_id = i"), FN + ".<locals>.start_child"), "C41.task-id"),
    ("restarted child keeps running the supervisor loop", _m(remove_stmts(lambda st: isinstance(st, ast.If) and _src(st.test) == "new_id is not None")), "C41.child-returns"),
    ("first task id skipped", _m(replace_expr(lambda n: isinstance(n, ast.Call) and _src(n) == "range(num_processes)", lambda n: parse_expr("range(1, num_processes)"))), "C41.initial-start"),
    ("parent records the pid instead of the id", _m(replace_stmt(lambda st: isinstance(st, ast.Assign) and _src(st) == "children[pid] = i", lambda st: [parse_stmt("children[pid] = pid")]), FN + ".<locals>.start_child"), "C41.task-id"),
    ("supervisor exits while one worker is still running", _m(lambda root: _while_len(root)), "C41.exit-when-empty"),
    ("non-zero exits treated as normal (status compared with < 0)", _m(replace_expr(lambda n: isinstance(n, ast.Compare) and _src(n) == "os.WEXITSTATUS(status) != 0", lambda n: parse_expr("os.WEXITSTATUS(status) < 0"))), "C41.restart-iff-abnormal"),
    ("restart result ignored: child returns the stale id", _m(replace_stmt(lambda st: isinstance(st, ast.If) and _src(st.test) == "new_id is not None", lambda st: [parse_stmt("if new_id is not None:\n    return num_restarts")])), "C41.child-returns"),
]


def _while_len(root):
    lp = _sup_loop(root)
    lp.test = parse_expr("len(children) > 1")
    return True


def _per_id_budget(root):
    lp = _sup_loop(root)
    done = 0
    for i, st in enumerate(root.body):
        if isinstance(st, ast.Assign) and _src(st) == "num_restarts = 0":
            root.body[i] = parse_stmt("num_restarts = {}")
            done += 1
    for i, st in enumerate(lp.body):
        if isinstance(st, ast.AugAssign) and _src(st) == "num_restarts += 1":
            lp.body[i] = parse_stmt("num_restarts[id] = num_restarts.get(id, 0) + 1")
            done += 1
        elif isinstance(st, ast.If) and "max_restarts" in _src(st.test):
            st.test = parse_expr("num_restarts[id] > max_restarts")
            done += 1
    return done == 3


def _pop_default(root):
    lp = _sup_loop(root)
    b = lp.body
    keep = [st for st in b if not (isinstance(st, ast.If) and "not in children" in _src(st.test))]
    if len(keep) == len(b):
        return False
    for i, st in enumerate(keep):
        if isinstance(st, ast.Assign) and _src(st) == "id = children.pop(pid)":
            keep[i] = parse_stmt("id = children.pop(pid, None)")
            lp.body = keep
            return True
    return False
