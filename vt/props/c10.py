"""C10 - TCP connection racing resolves exactly once and leaks no sockets.

Decided statically (DESIGN.md section 4, C10) on ``tornado/tcpclient.py``:

* SETTLE: every settle of ``_Connector.future`` is guarded by ``not done()``;
  the all-failed error additionally by ``remaining == 0``;
* OWN (streams): a started attempt's stream is in ``self.streams`` before its
  callback is registered; the winner leaves the set before the future is
  resolved and before the losers are closed; ``close_streams`` follows both
  completions that can leave attempts in flight and really closes every member;
  a late success closes its own stream;
* ``remaining`` is decremented exactly once per completed attempt, before any
  follow-up attempt is started;
* one attempt per call / the secondary family is started once (timer cleared in
  ``on_timeout``, removed before the direct call);
* a failed attempt continues with the next address of its family;
* callbacks that own completion must not leak a synchronous exception of the
  injected ``connect`` (raise-summary of ``TCPClient._create_stream``);
* ``_create_stream``: definite assignment on the exception-aware CFG and socket
  ownership (closed or owned by the stream) on every exit.

Not decided: the orderings of completions and timers themselves.
"""
from __future__ import annotations

import ast
from typing import Dict, List, Optional, Set, Tuple

from .. import q
from ..cfg import explore, canon_fact
from ..rules import call_sites, node_calls, event_facts, check_settles, settle_sites, fresh_cfg
from ..mutate import mutate, remove_stmts, replace_expr, replace_stmt, parse_stmt, parse_expr
from ..model import AnalysisError
from ..x_guardflow import ClassEffects, guard_facts, has, prune_exceptions, unbound_uses, settles_guarded, edge_facts, as_aug, expand_expr

TECHNIQUE = "SETTLE lint + ownership dominance on the CFG + raise-model exception escape + definite assignment"
EXPLANATION = (
    "_Connector state machine (future, streams, remaining, timeout): guarded settles, stream-set ownership by dominance and "
    "must-follow on the CFG, exactly-once decrement by path exploration, timer discipline of the secondary family; exception "
    "escape of the injected connect callable through the completion callbacks using a frozen raise-model of "
    "TCPClient._create_stream; definite-assignment and socket-ownership typestate on _create_stream's exception-aware CFG."
)
NOT_DECIDED = "the interleavings of attempt completions, failures and timer firings (which attempt wins, that no schedule leaves the future pending); behaviour of the real sockets"
LEVEL_NOTE = "raise-model: socket.socket/bind/IOStream() may raise OSError; Future(), set_exception on a fresh future, socket.close and IOStream.connect (verified to catch OSError around socket.connect) do not raise"

TC = "tornado/tcpclient.py"
IO = "tornado/iostream.py"
CN = "_Connector"


def _closes_all_loop(x) -> bool:
    """`for s in self.streams: s.close()` (also over list/tuple/set(self.streams)), with no early exit"""
    if not isinstance(x, ast.For):
        return False
    if not (q.dotted(x.iter) == "self.streams" or (isinstance(x.iter, ast.Call) and q.dotted(x.iter.func) in ("list", "tuple", "set") and x.iter.args and q.dotted(x.iter.args[0]) == "self.streams")):
        return False
    v = q.dotted(x.target)
    return bool(v and x.body and any(isinstance(s, ast.Expr) and q.is_call(s.value, v + ".close") for s in x.body) and not any(isinstance(y, (ast.Break, ast.Return, ast.Continue)) for s in x.body for y in ast.walk(s)))


def _close_all_event(n) -> bool:
    """the node closes every in-flight stream: a close_streams() call, or its body written in place"""
    return node_calls("self.close_streams")(n) or (n.kind == "for" and _closes_all_loop(n.ast))


def _not_followed(fi, start, end, cfg=None) -> Set[int]:
    cfg = cfg or fi.cfg

    def transfer(n, val):
        if n.kind in ("exit", "rexit"):
            return val
        if val and end(n):
            val = frozenset()
        if start(n):
            val = val | {n.id}
        return val

    seen = explore(cfg, frozenset(), transfer, lambda t: False)
    bad: Set[int] = set()
    for _f, val in seen.get(cfg.exit.id, ()):
        bad |= set(val)
    return bad


def _count_paths(fi, pred, follow_exc=True) -> Set[int]:
    """Set of per-path counts (capped at 2) of nodes matching pred over all normal-exit paths."""
    def tr(n, val):
        return min(val + (1 if pred(n) else 0), 2)

    seen = explore(fi.cfg, 0, tr, lambda t: False, follow_exc=follow_exc)
    return {v for _f, v in seen.get(fi.cfg.exit.id, ())}


def _resolve(fn, e):
    """A local name bound exactly once stands for its value."""
    seen = 0
    while isinstance(e, ast.Name) and seen < 4:
        st = [x for x in q.stores_to(fn, e.id) if isinstance(x, (ast.Assign, ast.AnnAssign))]
        if len(st) != 1 or getattr(st[0], "value", None) is None or len(q.assigned_paths(st[0])) != 1:
            break
        e = st[0].value
        seen += 1
    return e


def _mentions(fn, e, pred) -> bool:
    for x in ast.walk(e):
        if pred(x):
            return True
        if isinstance(x, ast.Name):
            r = _resolve(fn, x)
            if r is not x and any(pred(y) for y in ast.walk(r)):
                return True
    return False


def _settles_future(n, kinds=("set_result", "set_exception")) -> bool:
    if n.kind != "stmt" or n.ast is None:
        return False
    return any(isinstance(c.func, ast.Attribute) and c.func.attr in kinds and q.dotted(c.func.value) == "self.future" for c in q.calls(n.ast))


def _removed_handles(fi) -> Set[str]:
    return {q.dotted(c.args[0]) for c in q.calls(fi.node) if q.call_attr(c) == "remove_timeout" and c.args and q.dotted(c.args[0])}


def connector(ck):
    repo = ck.repo
    methods = repo.direct_methods(TC, CN)
    by_name0 = {m.name: m for m in methods}
    eff = ClassEffects(repo, [(TC, CN)])
    tc = ck.func(TC, CN + ".try_connect")
    ocd = ck.func(TC, CN + ".on_connect_done")
    ot = ck.func(TC, CN + ".on_timeout")
    oct_ = ck.func(TC, CN + ".on_connect_timeout")
    cs = ck.func(TC, CN + ".close_streams")
    init = ck.func(TC, CN + ".__init__")

    # ---- SETTLE
    n = 0
    for fi in methods:
        n += settles_guarded(ck, "C10.settle-guarded", fi, "self.future", eff, allow_safe_unguarded=False)
        for node, c, p, kind in settle_sites(fi):
            if p != "self.future" and p.endswith(".future"):
                raise AnalysisError("settle of %s in %s: not the connector's own future" % (p, fi.qualname))
    ck.floor("C10.settle-guarded", n, 3, "settle sites of self.future")
    # the connector's future is created once, in __init__
    for fi in methods:
        for st in q.stores_to(fi.node, "self.future"):
            ck.ob("C10.settle-guarded", fi, st, fi is init, "self.future is bound once (in __init__), never replaced")
    # all-failed error only when no attempt is outstanding
    gft = guard_facts(tc, eff)
    fin_err = [m for m in tc.cfg.stmt_nodes(lambda m: _settles_future(m, ("set_exception",)))]
    ck.floor("C10.final-error-guard", len(fin_err), 1, "final error settle in try_connect")
    for m in fin_err:
        ok = False
        for t, p in gft[m.id]:
            if "self.remaining" in t and not t.startswith("@"):
                try:
                    vals = {k for k in range(0, 4) if bool(q.fold(ast.parse(t, mode="eval").body, {"self.remaining": k})) == p}
                    if vals == {0}:
                        ok = True
                except q.NotFoldable:
                    pass
        ck.ob("C10.final-error-guard", tc, m.ast, ok, "the all-addresses-failed error is set only when self.remaining == 0 (no attempt of the other family outstanding)")
        # ... and only when the address queue is exhausted
        pm = q.parent_map(tc.node)
        inh = any(isinstance(a, ast.ExceptHandler) and q.exc_is_caught("StopIteration", q.handler_names(a)) for a in q.ancestors(pm, m.ast))
        if not inh:
            # `x = next(addrs, None)` followed by `if x is None:` is the same test
            for st_ in q.walk_body(tc.node):
                if isinstance(st_, ast.Assign) and q.is_call(st_.value, "next") and len(st_.value.args) == 2 and isinstance(st_.value.args[1], ast.Constant) and st_.value.args[1].value is None and isinstance(st_.targets[0], ast.Name):
                    if has(gft[m.id], "%s is None" % st_.targets[0].id, True):
                        inh = True
        if not inh and not any(q.is_call(c_, "next") for c_ in q.calls(tc.node)):
            raise AnalysisError("try_connect does not take the next address with next(); exhaustion of the queue cannot be recognised")
        ck.ob("C10.final-error-guard", tc, m.ast, inh, "the all-addresses-failed error is set only after the address queue is exhausted (next(addrs) raised StopIteration / returned the None default)")

    # ---- streams ownership
    conn_calls = tc.cfg.find(lambda x: q.is_call(x, "self.connect"))
    ck.floor("C10.streams-tracked", len(conn_calls), 1, "self.connect calls in try_connect")
    svar = None
    fvar = None
    for node, c in conn_calls:
        st = node.ast
        if isinstance(st, ast.Assign) and st.value is c and len(st.targets) == 1 and isinstance(st.targets[0], ast.Tuple) and len(st.targets[0].elts) == 2 and all(isinstance(e, ast.Name) for e in st.targets[0].elts):
            svar, fvar = st.targets[0].elts[0].id, st.targets[0].elts[1].id
        else:
            raise AnalysisError("self.connect(...) result is not unpacked into (stream, future) in try_connect")
    adds = lambda m: m.kind == "stmt" and any(q.is_call(c, "self.streams.add") and c.args and q.dotted(c.args[0]) == svar for c in q.calls(m.ast))
    regs = tc.cfg.stmt_nodes(lambda m: m.kind == "stmt" and any(q.call_attr(c) in ("future_add_done_callback", "add_done_callback", "add_future") for c in q.calls(m.ast)))
    ck.floor("C10.streams-tracked", len(regs), 1, "callback registrations in try_connect")
    cnodes = {x.id for x, _ in conn_calls}
    ef = event_facts(tc, {"added": adds, "conn": lambda m: m.id in cnodes}, cond_facts=False)
    n_reg = 0
    for m in regs:
        if ("@conn", True) not in ef[m.id]:
            continue  # not on the continuation of a started attempt (e.g. a failure path that has no stream)
        n_reg += 1
        ck.ob("C10.streams-tracked", tc, m.ast, ("@added", True) in ef[m.id], "the attempt's stream is added to self.streams before its completion callback is registered")
    ck.floor("C10.streams-tracked", n_reg, 1, "callback registrations after a started attempt")
    for m in regs:
        if ("@conn", True) not in ef[m.id]:
            continue
        c0 = [c for c in q.calls(m.ast) if q.call_attr(c) in ("future_add_done_callback", "add_done_callback", "add_future")][0]
        watched = q.dotted(c0.args[0]) if q.call_attr(c0) != "add_done_callback" and c0.args else q.receiver(c0)
        ck.ob("C10.streams-tracked", tc, m.ast, watched == fvar and _mentions(tc.node, c0, lambda x: q.dotted(x) == "self.on_connect_done"), "the callback registered on the attempt's future is on_connect_done")
    # one attempt per call
    ck.ob("C10.one-attempt-per-call", tc, tc.node, _count_paths(tc, lambda m: any(m is x for x, _ in conn_calls)) <= {0, 1}, "try_connect starts at most one attempt per call", construct="attempts per try_connect call")
    nx = lambda m: m.kind == "stmt" and any(q.is_call(c, "next") for c in q.calls(m.ast))
    ck.ob("C10.one-attempt-per-call", tc, tc.node, _count_paths(tc, nx) <= {0, 1}, "try_connect takes at most one address per call", construct="next(addrs) per try_connect call")

    # ---- on_connect_done
    fparam = ocd.params()[-1]
    res_nodes = ocd.cfg.stmt_nodes(lambda m: m.kind == "stmt" and isinstance(m.ast, ast.Assign) and isinstance(m.ast.value, ast.Call) and q.call_attr(m.ast.value) == "result" and q.receiver(m.ast.value) == fparam)
    ck.floor("C10.winner-kept", len(res_nodes), 1, "stream = future.result() in on_connect_done")
    wvar = q.dotted(res_nodes[0].ast.targets[0])
    ck.need(wvar, "result of the attempt is not bound to a name")
    sets = ocd.cfg.stmt_nodes(lambda m: _settles_future(m, ("set_result",)))
    ck.floor("C10.winner-kept", len(sets), 1, "self.future.set_result in on_connect_done")
    disc = lambda m: m.kind == "stmt" and any(q.call_attr(c) in ("discard", "remove") and q.receiver(c) == "self.streams" and c.args and q.dotted(c.args[0]) == wvar for c in q.calls(m.ast))
    ef = event_facts(ocd, {"disc": disc, "res": lambda m: m in res_nodes}, cond_facts=False)
    for m in sets:
        ck.ob("C10.winner-kept", ocd, m.ast, ("@disc", True) in ef[m.id], "the winning stream leaves self.streams before the future is resolved")
        c = [c for c in q.calls(m.ast) if q.call_attr(c) == "set_result"][0]
        ck.ob("C10.winner-kept", ocd, m.ast, bool(c.args) and _mentions(ocd.node, c.args[0], lambda x: isinstance(x, ast.Name) and x.id == wvar) and ("@res", True) in ef[m.id], "the result handed out is the stream of the attempt that just succeeded")
    closes = ocd.cfg.stmt_nodes(_close_all_event)
    for m in closes:
        ck.ob("C10.winner-kept", ocd, m.ast, ("@disc", True) in ef[m.id], "the winning stream leaves self.streams before the losers are closed")
    # losers closed after success
    sid = {m.id for m in sets}
    bad = _not_followed(ocd, lambda m: m.id in sid, _close_all_event)
    for m in sets:
        ck.ob("C10.losers-closed", ocd, m.ast, m.id not in bad, "after resolving the future every other in-flight stream is closed (close_streams on every path)")
    # the overall timers are cancelled only once an attempt succeeded (a failure must leave the connect timeout armed)
    for m in ocd.cfg.stmt_nodes(lambda m: m.kind == "stmt" and any((q.receiver(c) == "self" and q.call_attr(c) in by_name0 and "self.connect_timeout" in _removed_handles(by_name0[q.call_attr(c)])) or (q.call_attr(c) == "remove_timeout" and c.args and q.dotted(c.args[0]) == "self.connect_timeout") for c in q.calls(m.ast))):
        ck.ob("C10.timeouts-kept-on-failure", ocd, m.ast, ("@res", True) in ef[m.id], "the overall connect timeout is cancelled only after an attempt succeeded (a failed attempt leaves it armed, otherwise hanging attempts never complete the future)")
    # late success closes its own stream
    rid = {m.id for m in res_nodes}
    handoff = lambda m: m.id in sid or (m.kind == "stmt" and any(q.is_call(c, wvar + ".close") for c in q.calls(m.ast)))
    bad = _not_followed(ocd, lambda m: m.id in rid, handoff)
    for m in res_nodes:
        ck.ob("C10.losers-closed", ocd, m.ast, m.id not in bad, "a successful attempt's stream is either handed out as the result or closed (late arrival) on every path")
    # remaining
    dec = lambda m: m.kind == "stmt" and isinstance(as_aug(m.ast), ast.AugAssign) and isinstance(as_aug(m.ast).op, ast.Sub) and q.dotted(as_aug(m.ast).target) == "self.remaining" and q.is_const(as_aug(m.ast).value, 1)
    for fi in methods:
        for st in q.stores_to(fi.node, "self.remaining"):
            if fi is init:
                v = getattr(st, "value", None)
                ok = isinstance(v, ast.Call) and q.dotted(v.func) == "len" and v.args and q.dotted(v.args[0]) in init.params()
                ck.ob("C10.remaining-once", fi, st, ok, "remaining starts as the number of addresses")
            else:
                ok = fi is ocd and isinstance(as_aug(st), ast.AugAssign) and isinstance(as_aug(st).op, ast.Sub) and q.is_const(as_aug(st).value, 1)
                ck.ob("C10.remaining-once", fi, st, ok, "remaining is only ever decremented by one, in on_connect_done")
    counts = _count_paths(ocd, dec)
    ck.ob("C10.remaining-once", ocd, ocd.node, counts == {1}, "remaining is decremented exactly once on every path through on_connect_done (counts %s)" % sorted(counts), construct="decrements per completed attempt = %s" % sorted(counts))
    ef = event_facts(ocd, {"dec": dec}, cond_facts=False, exc_gen=True)
    for m in ocd.cfg.stmt_nodes(lambda m: node_calls("self.try_connect")(m) or node_calls("self.on_timeout")(m) or _settles_future(m)):
        ck.ob("C10.remaining-once", ocd, m.ast, ("@dec", True) in ef[m.id], "the completed attempt is accounted for before any follow-up attempt / completion")

    # failure path continues with the same family's iterator
    aparam = [p for p in ocd.params() if p != "self"][0]
    tcs = ocd.cfg.stmt_nodes(node_calls("self.try_connect"))
    pm = q.parent_map(ocd.node)
    for m in tcs:
        c = q.find_calls(m.ast, "self.try_connect")[0]
        ck.ob("C10.failure-retries", ocd, m.ast, len(c.args) == 1 and q.dotted(c.args[0]) == aparam, "a failed attempt continues with the next address of the same queue (%s)" % aparam)
        inh = any(isinstance(a, ast.ExceptHandler) for a in q.ancestors(pm, m.ast))
        ck.ob("C10.failure-retries", ocd, m.ast, inh, "follow-up attempts are started from the failure handler only")
    ck.ob("C10.one-attempt-per-call", ocd, ocd.node, _count_paths(ocd, node_calls("self.try_connect")) <= {0, 1}, "on_connect_done starts at most one follow-up attempt in its own family", construct="try_connect per on_connect_done")
    res_calls = [c for _m, c in ocd.cfg.find(lambda x: q.is_call(x, fparam + ".result"))]
    res_trys = [t for c in res_calls for t, _hs in q.enclosing_try_handlers(pm, c)[:1]]
    handlers = [h for h in ocd.cfg.nodes if h.kind == "handler" and h.id in ocd.cfg.reachable() and any(h.ast in t.handlers for t in res_trys)]
    ck.floor("C10.failure-retries", len(handlers), 1, "failure handlers in on_connect_done")
    gfo = guard_facts(ocd, eff)
    for h in handlers:
        ck.ob("C10.failure-retries", ocd, h.ast, q.exc_is_caught("Exception", q.handler_names(h.ast)), "every failure of an attempt (any Exception from future.result()) is handled")
        # every normal path from the handler: already done, or retried
        hid = h.id

        def tr(n, val, hid=hid):
            if n.id == hid:
                return "pending"
            if val == "pending" and node_calls("self.try_connect")(n):
                return "retried"
            return val

        def edge(n, kind, val):
            if val == "pending" and ("self.future.done()", True) in edge_facts(n, kind, gfo):
                return "done"
            return val

        seen = explore(ocd.cfg, "none", tr, lambda t: False, edge_transfer=edge, exc_effect=True)
        vals = {v for _f, v in seen.get(ocd.cfg.exit.id, ())}
        ck.ob("C10.failure-retries", ocd, h.ast, "pending" not in vals, "after a failed attempt either the connector is already done or the next address is tried (exit states %s)" % sorted(vals))
        errs = [x for x in ast.walk(h.ast) if isinstance(x, ast.Assign) and "self.last_error" in q.assigned_paths(x)]
        ck.ob("C10.failure-retries", ocd, h.ast, any(q.dotted(x.value) == h.ast.name for x in errs), "the failure is remembered as last_error (reported when every address failed)")

    # ---- secondary family is started once
    clr = lambda m: m.kind == "stmt" and isinstance(m.ast, ast.Assign) and "self.timeout" in q.assigned_paths(m.ast) and isinstance(m.ast.value, ast.Constant) and m.ast.value.value is None
    ef = event_facts(ot, {"clr": clr}, cond_facts=False)
    gfot = guard_facts(ot, eff)
    ots = ot.cfg.stmt_nodes(node_calls("self.try_connect"))
    ck.floor("C10.secondary-once", len(ots), 1, "try_connect calls in on_timeout")
    for m in ots:
        ck.ob("C10.secondary-once", ot, m.ast, ("@clr", True) in ef[m.id], "on_timeout clears self.timeout before starting the secondary family (so it is started once)")
        ck.ob("C10.secondary-once", ot, m.ast, has(gfot[m.id], "self.future.done()", False), "no new attempt is started once the connector is done")
        c = q.find_calls(m.ast, "self.try_connect")[0]
        ck.ob("C10.secondary-once", ot, m.ast, len(c.args) == 1 and _mentions(ot.node, c.args[0], lambda x: q.dotted(x) == "self.secondary_addrs"), "the timer starts the secondary family's queue")
    directs = ocd.cfg.stmt_nodes(node_calls("self.on_timeout"))
    by_name = {m.name: m for m in methods}

    def removes_handle(call, handle="self.timeout") -> bool:
        """remove_timeout(<handle>) directly, or a connector method whose body does it"""
        if q.call_attr(call) == "remove_timeout" and call.args and q.dotted(call.args[0]) == handle:
            return True
        if q.receiver(call) == "self" and q.call_attr(call) in by_name and q.call_attr(call) not in ("on_timeout",):
            h = by_name[q.call_attr(call)]
            return any(q.call_attr(c) == "remove_timeout" and c.args and q.dotted(c.args[0]) == handle for c in q.calls(h.node))
        return False

    rm = lambda m: m.kind == "stmt" and any(removes_handle(c) for c in q.calls(m.ast))
    # anything that clears self.timeout (directly or through a connector method) invalidates a later removal by attribute
    clears = lambda m: m.kind == "stmt" and ((isinstance(m.ast, ast.Assign) and "self.timeout" in q.assigned_paths(m.ast)) or any(q.receiver(c) == "self" and "self.timeout" in (eff.writes(q.call_attr(c)) or {"self.timeout"}) for c in q.calls(m.ast)))
    ef = event_facts(ocd, {"rm": rm}, cond_facts=False)
    saved = {p_ for st in q.walk_body(ocd.node) if isinstance(st, ast.Assign) and q.dotted(st.value) == "self.timeout" for p_ in q.assigned_paths(st) if "." not in p_}
    for m in directs:
        ck.ob("C10.secondary-once", ocd, m.ast, has(gfo[m.id], "self.timeout is None", False), "on_connect_done starts the secondary family early only while its timer is still pending")
        before = ("@rm", True) in ef[m.id]
        after = False
        if not before and saved:
            # handle saved in a local before the call and removed afterwards on every path
            mid = {m.id}
            rm_saved = lambda x: x.kind == "stmt" and any(q.call_attr(c) == "remove_timeout" and c.args and q.dotted(c.args[0]) in saved for c in q.calls(x.ast))
            after = not _not_followed(ocd, lambda x: x.id in mid, rm_saved)
        ck.ob("C10.secondary-once", ocd, m.ast, before or after, "the pending timer is removed while its handle is still known - before on_timeout() clears self.timeout, or through a saved handle afterwards (else it fires a second time and starts another attempt)")
    # every removal-by-attribute happens while the attribute still holds the handle
    for fi in methods:
        gfx = guard_facts(fi, eff)
        for node, c in fi.cfg.find(lambda x: isinstance(x, ast.Call) and q.call_attr(x) == "remove_timeout" and x.args and (q.dotted(x.args[0]) or "").startswith("self.")):
            hpath = q.dotted(c.args[0])
            ck.ob("C10.secondary-once", fi, c, has(gfx[node.id], "%s is None" % hpath, False), "a timer is removed through %s only where that attribute is known to still hold the handle" % hpath)
    st_ = ck.func(TC, CN + ".start")
    prim = [c for c in q.find_calls(st_.node, "self.try_connect")]
    ck.ob("C10.secondary-once", st_, st_.node, len(prim) == 1 and _mentions(st_.node, prim[0], lambda x: q.dotted(x) == "self.primary_addrs"), "start() begins with exactly one attempt, in the primary family", construct="start: one primary attempt")
    for fi in methods:
        if fi not in (st_, ocd, ot):
            ck.ob("C10.one-attempt-per-call", fi, fi.node, not q.find_calls(fi.node, "self.try_connect"), "attempts are started only by start, on_connect_done and on_timeout", construct="%s calls try_connect" % fi.name)

    # ---- partition: remaining == number of queued addresses
    sp = ck.func(TC, CN + ".split")
    loops = [x for x in q.walk_body(sp.node) if isinstance(x, ast.For)]
    if not loops and _split_by_comprehensions(ck, sp, init):
        return_after_split = True
    else:
        return_after_split = False
    if not return_after_split:
        _split_by_loop(ck, sp, init, loops)
    _after_split(ck, oct_, cs, methods)


def _split_by_comprehensions(ck, sp, init) -> bool:
    """split() written as two filtered comprehensions over addrinfo: each entry must satisfy exactly one filter"""
    rets = [x for x in q.walk_body(sp.node) if isinstance(x, ast.Return) and isinstance(x.value, ast.Tuple) and len(x.value.elts) == 2]
    if len(rets) != 1:
        return False
    lists = [q.dotted(e) for e in rets[0].value.elts]
    sparam = [p_ for p_ in sp.params() if p_ not in ("self", "cls")]
    comps = []
    for nm in lists:
        sts = [st for st in q.stores_to(sp.node, nm)] if nm else []
        if len(sts) != 1 or not isinstance(getattr(sts[0], "value", None), ast.ListComp):
            return False
        lc = sts[0].value
        if len(lc.generators) != 1 or q.dotted(lc.generators[0].iter) != sparam[0] or len(lc.generators[0].ifs) != 1:
            return False
        comps.append((sts[0], lc))
    # the family variable of the element and the primary family
    bad = []
    for fam in (1, 2):
        for prim in (1, 2):
            hits = 0
            for st, lc in comps:
                tgt = lc.generators[0].target
                fv = tgt.elts[0].id if isinstance(tgt, ast.Tuple) and isinstance(tgt.elts[0], ast.Name) else None
                if fv is None:
                    raise AnalysisError("split(): comprehension target is not (family, address)")
                cond = expand_expr(ck.repo, sp, lc.generators[0].ifs[0], locals_too=False)
                others = {x.id for x in ast.walk(cond) if isinstance(x, ast.Name)} - {fv}
                env = {fv: fam}
                env.update({o: prim for o in others})
                try:
                    hits += bool(q.fold(cond, env))
                except q.NotFoldable as ex:
                    raise AnalysisError("split(): cannot evaluate the family filter: %s" % ex)
            if hits != 1:
                bad.append("family=%d primary=%d -> %d queues" % (fam, prim, hits))
    ck.ob("C10.remaining-once", sp, comps[0][0], not bad, "split() puts every address into exactly one of the two queues (two complementary filters over addrinfo)%s" % ((": " + "; ".join(bad)) if bad else ""), construct="split appends per address")
    for st, lc in comps:
        elt_names = {x.id for x in ast.walk(lc.elt) if isinstance(x, ast.Name)}
        tnames = {x.id for x in ast.walk(lc.generators[0].target) if isinstance(x, ast.Name)}
        ck.ob("C10.remaining-once", sp, st, tnames <= elt_names, "the queued entry is the (family, address) pair itself")
    unp = [st for st in q.stores_to(init.node, "self.primary_addrs")]
    ok = len(unp) == 1 and isinstance(unp[0], ast.Assign) and isinstance(unp[0].targets[0], ast.Tuple) and [q.dotted(e) for e in unp[0].targets[0].elts] == ["self.primary_addrs", "self.secondary_addrs"] and q.is_call(unp[0].value, "self.split")
    ck.ob("C10.remaining-once", init, unp[0] if unp else init.node, ok, "the two queues are the two halves returned by split(addrinfo)")
    return True


def _split_by_loop(ck, sp, init, loops):
    ck.need(len(loops) == 1, "split() does not have a single loop over addrinfo")
    lp = loops[0]
    rets = [x for x in q.walk_body(sp.node) if isinstance(x, ast.Return) and isinstance(x.value, ast.Tuple) and len(x.value.elts) == 2]
    ck.need(len(rets) == 1, "split() does not return a pair of lists")
    lists = [q.dotted(e) for e in rets[0].value.elts]
    def _targets_list(recv: Optional[str]) -> bool:
        """receiver is one of the returned lists, or a local that is always one of them (`x = a if c else b`)"""
        if recv in lists:
            return True
        if recv and "." not in recv:
            defs = [st_ for st_ in q.stores_to(sp.node, recv) if isinstance(st_, ast.Assign)]
            if defs and all((isinstance(st_.value, ast.IfExp) and q.dotted(st_.value.body) in lists and q.dotted(st_.value.orelse) in lists) or q.dotted(st_.value) in lists for st_ in defs):
                return True
        return False

    def _append_to_queue(c) -> bool:
        if q.call_attr(c) != "append" or not isinstance(c.func, ast.Attribute):
            return False
        rv = c.func.value
        if isinstance(rv, ast.IfExp):  # (primary if cond else secondary).append(..)
            return q.dotted(rv.body) in lists and q.dotted(rv.orelse) in lists
        return _targets_list(q.receiver(c))

    app = lambda m: m.kind == "stmt" and any(_append_to_queue(c) for c in q.calls(m.ast))
    # the loop visits every resolved address: it iterates the parameter itself (remaining = len(addrinfo) counts them all)
    sparam = [p_ for p_ in sp.params() if p_ not in ("self", "cls")]
    ck.need(sparam, "split() lost its addrinfo parameter")
    it = lp.iter
    if q.dotted(it) == sparam[0] or (isinstance(it, ast.Call) and q.dotted(it.func) in ("list", "tuple", "iter") and len(it.args) == 1 and q.dotted(it.args[0]) == sparam[0]):
        ck.ob("C10.remaining-once", sp, lp, True, "split() visits every entry of addrinfo")
    elif isinstance(it, ast.Call) and (q.dotted(it.func) in ("set", "frozenset", "dict.fromkeys", "filter", "sorted", "reversed") or isinstance(it, ast.Subscript)) and any(q.dotted(x) == sparam[0] for x in ast.walk(it)):
        ck.ob("C10.remaining-once", sp, lp, q.dotted(it.func) in ("sorted", "reversed"), "split() visits every entry of addrinfo - %s(...) can drop entries while remaining still counts len(addrinfo), so the all-failed error would never be sent" % q.dotted(it.func))
    else:
        raise AnalysisError("split() iterates %s, not its addrinfo parameter" % q.unparse(it))
    head = [m for m in sp.cfg.nodes if m.kind == "for" and m.ast is lp]
    ck.need(head, "split loop not on the CFG")

    # count appends per iteration: explore the loop body once from the head's true edge
    body_counts = set()
    def tr_body(n, val):
        if n.kind == "for":
            if val is not None and val >= 0:
                body_counts.add(val)
            return 0
        if app(n):
            return min(val + 1, 2)
        return val
    explore(sp.cfg, -1, tr_body, lambda t: False, follow_exc=False)
    body_counts.discard(-1)
    if 0 in body_counts and 2 not in body_counts:
        # no append seen on some path: only a finding if the loop body is fully understood
        known = all(isinstance(x, (ast.If, ast.Expr, ast.Assign, ast.AnnAssign, ast.Pass)) for x in ast.walk(ast.Module(body=lp.body, type_ignores=[])) if isinstance(x, ast.stmt))
        calls_ok = all(_append_to_queue(c_) for c_ in q.calls(ast.Module(body=lp.body, type_ignores=[])))
        if not (known and calls_ok):
            raise AnalysisError("split(): cannot see where an address is queued on some path of the loop body")
    ck.ob("C10.remaining-once", sp, lp, body_counts == {1}, "split() puts every address into exactly one of the two queues (appends per iteration: %s), so remaining = len(addrinfo) equals the number of attempts that can complete" % sorted(body_counts), construct="split appends per address")
    unp = [st for st in q.stores_to(init.node, "self.primary_addrs")]
    ok = len(unp) == 1 and isinstance(unp[0], ast.Assign) and isinstance(unp[0].targets[0], ast.Tuple) and [q.dotted(e) for e in unp[0].targets[0].elts] == ["self.primary_addrs", "self.secondary_addrs"] and q.is_call(unp[0].value, "self.split")
    ck.ob("C10.remaining-once", init, unp[0] if unp else init.node, ok, "the two queues are the two halves returned by split(addrinfo)")


def _after_split(ck, oct_, cs, methods):
    # ---- overall timeout
    tsets = oct_.cfg.stmt_nodes(lambda m: _settles_future(m))
    ck.floor("C10.losers-closed", len(tsets), 1, "settles in on_connect_timeout")
    tid = {m.id for m in tsets}
    bad = _not_followed(oct_, lambda m: m.id in tid, _close_all_event)
    for m in tsets:
        ck.ob("C10.losers-closed", oct_, m.ast, m.id not in bad, "after the connect timeout fails the future every in-flight stream is closed")
        c = [c for c in q.calls(m.ast) if q.call_attr(c) == "set_exception"]
        a0 = c[0].args[0] if c and c[0].args else None
        if isinstance(a0, ast.Name):
            from ..x_guardflow import reaching_value

            rv_ = reaching_value(oct_, a0.id, m)
            if rv_ is None:
                raise AnalysisError("cannot tell what %s holds where the connect timeout fails the future" % a0.id)
            a0 = rv_
        ck.ob("C10.losers-closed", oct_, m.ast, isinstance(a0, ast.Call) and (q.dotted(a0.func) or "").endswith("TimeoutError"), "the connect timeout completes the future with TimeoutError")
    # close_streams really closes every member
    ok = any(_closes_all_loop(x) for x in q.walk_body(cs.node))
    ck.ob("C10.losers-closed", cs, cs.node, ok, "close_streams closes every member of self.streams", construct="close_streams loop")
    # who else touches the set
    for fi in methods:
        for c in q.calls(fi.node):
            if q.receiver(c) == "self.streams" and q.call_attr(c) in ("clear", "pop", "update", "difference_update"):
                ck.ob("C10.streams-tracked", fi, c, False, "self.streams only gains started attempts and loses the winner")


# ---------------------------------------------------------------------------
# exception escape of the injected connect / _create_stream


SAFE_CALLS = {"isinstance", "Future", "len", "int", "str", "bool"}
SAFE_METHODS = {"set_exception", "set_result", "close", "debug", "info", "warning", "error"}


def _raise_model(ck, fi):
    """node -> set of exception names (frozen raise-model of the calls used in
    TCPClient._create_stream); unknown calls fail closed."""
    # IOStream.connect handles the synchronous OSError of socket.connect itself
    ioc = ck.func(IO, "IOStream.connect")
    pm = q.parent_map(ioc.node)
    sc = [c for c in q.calls(ioc.node) if q.is_call(c, "self.socket.connect")]
    connect_safe = bool(sc) and all(q.protected_by(pm, c, "OSError") is not None for c in sc)
    hpm = q.parent_map(fi.node)

    def raises(n) -> Optional[Set[str]]:
        out: Set[str] = set()
        roots = [n.ast] if n.kind in ("stmt", "test") else []
        if n.kind in ("for", "with"):
            return None
        if isinstance(n.ast, ast.AnnAssign):
            # annotations of local variables are not evaluated
            roots = [x for x in (n.ast.value, n.ast.target) if x is not None]
        for root in roots:
            if isinstance(root, ast.Raise):
                if root.exc is None:
                    hs = [a for a in q.ancestors(hpm, root) if isinstance(a, ast.ExceptHandler)]
                    out |= set(q.handler_names(hs[0])) if hs else {"BaseException"}
                else:
                    e = root.exc.func if isinstance(root.exc, ast.Call) else root.exc
                    out.add(q.dotted(e) or "Exception")
            if isinstance(root, ast.Assert):
                out.add("AssertionError")
            for x in q.walk_local(root):
                if isinstance(x, ast.Call):
                    d = q.dotted(x.func)
                    a = q.call_attr(x)
                    if d == "socket.socket" or a == "bind" or d in ("IOStream", "iostream.IOStream"):
                        out.add("OSError")
                    elif a == "connect" and isinstance(x.func, ast.Attribute):
                        if not connect_safe:
                            out.add("OSError")
                    elif d in SAFE_CALLS or (isinstance(x.func, ast.Attribute) and a in SAFE_METHODS):
                        pass
                    else:
                        raise AnalysisError("unmodelled call %s in %s (raise-model)" % (q.unparse(x.func), fi.qualname))
                elif isinstance(x, ast.Subscript) and isinstance(x.ctx, ast.Load):
                    out.add("LookupError")
        return out

    return raises


def create_stream(ck):
    fi = ck.func(TC, "TCPClient._create_stream")
    cfg = fresh_cfg(fi)
    raises = _raise_model(ck, fi)
    prune_exceptions(cfg, raises)
    ck.assume("raise-model for _create_stream: socket.socket(), socket.bind(), IOStream() may raise OSError; Future(), set_exception on a fresh future, socket.close(), stream.connect() (IOStream.connect catches OSError) do not raise")

    # DEFUSE
    bad = unbound_uses(fi, cfg)
    badset = {(n.id, x.id) for n, x in bad}
    n_loads = 0
    locs = q.local_names(fi.node) - set(fi.params())
    seen_ob = set()
    for n in cfg.stmt_nodes():
        roots = [n.ast]
        for x in q.walk_local(n.ast):
            if isinstance(x, ast.Name) and isinstance(x.ctx, ast.Load) and x.id in locs:
                key = (n.id, x.id)
                if key in seen_ob:
                    continue
                seen_ob.add(key)
                n_loads += 1
                ck.ob("C10.create-stream-defuse", fi, n.ast, key not in badset, "local %s is definitely assigned when used (exception edges included)" % x.id)
    ck.floor("C10.create-stream-defuse", n_loads, 5, "local variable uses in _create_stream")

    # socket ownership
    creates = cfg.stmt_nodes(lambda n: n.kind == "stmt" and isinstance(n.ast, ast.Assign) and q.is_call(n.ast.value, "socket.socket") and isinstance(n.ast.targets[0], ast.Name))
    ck.floor("C10.socket-owned", len(creates), 1, "socket.socket() creations in _create_stream")
    sock = creates[0].ast.targets[0].id
    cid = {n.id for n in creates}

    def tr(n, val):
        state, last = val
        if n.kind in ("stmt", "test"):
            last = n.id
        if n.id in cid:
            return ("open", last)
        if n.kind == "stmt" and state == "open":
            for c in q.calls(n.ast):
                if q.is_call(c, sock + ".close"):
                    return ("closed", last)
                if any(q.dotted(a) == sock for a in list(c.args) + [k.value for k in c.keywords]) and not (q.receiver(c) or "").startswith(sock):
                    return ("owned", last)
        return (state, last)

    seen = explore(cfg, ("none", -1), tr, lambda t: False, exc_effect=False)
    n_ex = 0
    reported = set()
    for ex, nm in ((cfg.exit, "return"), (cfg.rexit, "raise")):
        for _f, (state, last) in sorted(seen.get(ex.id, ()), key=repr):
            n_ex += 1
            lastn = cfg.nodes[last] if last >= 0 else None
            key = (nm, last, state)
            if key in reported:
                continue
            reported.add(key)
            ck.ob("C10.socket-owned", fi, lastn.ast if lastn is not None else fi.node, state != "open", "the socket created by %s = socket.socket(..) is closed or owned by the returned stream when _create_stream exits (%s, state %s)" % (sock, nm, state))
    ck.floor("C10.socket-owned", n_ex, 2, "exit states of _create_stream")
    return cfg


def callback_leak(ck, cs_cfg):
    repo = ck.repo
    fi = ck.func(TC, "TCPClient._create_stream")
    # does the connector's `connect` resolve to _create_stream?
    tcc = ck.func(TC, "TCPClient.connect")
    ctor = [c for c in q.calls(tcc.node) if q.dotted(c.func) == CN]
    ck.need(len(ctor) == 1 and len(ctor[0].args) >= 2, "TCPClient.connect does not build a _Connector(addrinfo, connect)")
    a1 = ctor[0].args[1]
    linked = isinstance(a1, ast.Call) and q.call_attr(a1) == "partial" and a1.args and q.dotted(a1.args[0]) == "self._create_stream"
    ck.need(linked, "the connector's connect callable is not functools.partial(self._create_stream, ...)")
    init = ck.func(TC, CN + ".__init__")
    cparam = init.params()[2]
    ck.need(any(q.dotted(getattr(st, "value", None)) == cparam for st in q.stores_to(init.node, "self.connect")), "_Connector.__init__ does not store the connect callable")
    may_raise = [cs_cfg.nodes[p] for p, k in cs_cfg.pred[cs_cfg.rexit.id]]
    escapes = sorted({q.unparse(n.ast).split("\n")[0][:60] for n in may_raise if n.ast is not None})
    methods = repo.direct_methods(TC, CN)
    by_name = {m.name: m for m in methods}
    # callbacks: bound methods handed out as values (not called directly)
    callbacks: Set[str] = set()
    for m in methods:
        pm = q.parent_map(m.node)
        for x in ast.walk(m.node):
            if isinstance(x, ast.Attribute) and q.dotted(x) and q.dotted(x).startswith("self.") and x.attr in by_name and isinstance(x.ctx, ast.Load):
                p = pm.get(x)
                if not (isinstance(p, ast.Call) and p.func is x):
                    callbacks.add(x.attr)
                elif any(isinstance(a_, (ast.Lambda,)) or (isinstance(a_, q.FuncNode) and a_ is not m.node) for a_ in q.ancestors(pm, x)):
                    callbacks.add(x.attr)  # called from a lambda / local function that is handed out as the callback
    ck.floor("C10.callback-no-leak", len(callbacks), 3, "connector callbacks (bound methods handed to the IOLoop / futures)")

    def unprotected_chains(mname: str, seen: Tuple[str, ...]) -> List[str]:
        """chains from method mname to an unprotected self.connect(...) call"""
        m = by_name[mname]
        pm = q.parent_map(m.node)
        out = []
        for c in q.calls(m.node):
            if q.is_call(c, "self.connect"):
                if q.protected_by(pm, c, "OSError") is None:
                    out.append("->".join(seen + (mname,)))
            elif q.receiver(c) == "self" and q.call_attr(c) in by_name and q.call_attr(c) not in seen + (mname,):
                if q.protected_by(pm, c, "OSError") is None:
                    out.extend(unprotected_chains(q.call_attr(c), seen + (mname,)))
        return out

    sites = [(m, c) for m in methods for c in q.calls(m.node) if q.is_call(c, "self.connect")]
    ck.floor("C10.callback-no-leak", len(sites), 1, "self.connect call sites in _Connector")
    chains = sorted({ch for cb in sorted(callbacks) for ch in unprotected_chains(cb, ())})
    for m, c in sites:
        mine = [ch for ch in chains if ch.endswith(m.name)]
        ok = not escapes or not mine
        ck.ob("C10.callback-no-leak", m, c, ok,
              "a synchronous exception of the connect callable (TCPClient._create_stream may raise at: %s) must not escape a completion callback before the future is settled and remaining is updated; unprotected callback chains: %s" % ("; ".join(escapes) or "nowhere", ", ".join(mine) or "none"))


def timeouts_wired(ck):
    tcc = ck.func(TC, "TCPClient.connect")
    st_ = ck.func(TC, CN + ".start")
    starts = [c for c in q.calls(tcc.node) if q.call_attr(c) == "start" and isinstance(c.func, ast.Attribute)]
    ck.floor("C10.timeout-wired", len(starts), 1, "connector.start calls in TCPClient.connect")
    tparam = "timeout"
    ck.need(tparam in tcc.params(), "TCPClient.connect lost its timeout parameter")
    sp = [p for p in st_.params() if p != "self"]
    for c in starts:
        a = q.kwarg(c, "connect_timeout") or (q.arg(c, sp.index("connect_timeout")) if "connect_timeout" in sp else None)
        ck.ob("C10.timeout-wired", tcc, c, a is not None and q.dotted(a) == tparam, "TCPClient.connect hands its timeout to the connector as the overall connect timeout")
    gf = guard_facts(st_)
    sct = st_.cfg.stmt_nodes(node_calls("self.set_connect_timeout"))
    if not sct:
        # armed directly?
        sct = st_.cfg.stmt_nodes(lambda m: m.kind == "stmt" and any(q.call_attr(c_) in ("add_timeout", "call_later", "call_at") and any(q.dotted(a_) == "self.on_connect_timeout" for a_ in c_.args) for c_ in q.calls(m.ast)))
        if not sct and any(q.receiver(c_) == "self" and q.call_attr(c_) not in ("try_connect", "set_timeout") for c_ in q.calls(st_.node)):
            raise AnalysisError("start() does not arm the connect timeout itself; the methods it calls are not followed")
    ck.ob("C10.timeout-wired", st_, st_.node, len(sct) >= 1, "start() arms the overall connect timeout", construct="start arms connect timeout")
    for m in sct:
        if not q.find_calls(m.ast, "self.set_connect_timeout"):
            continue
        c = q.find_calls(m.ast, "self.set_connect_timeout")[0]
        ck.ob("C10.timeout-wired", st_, m.ast, len(c.args) == 1 and q.dotted(c.args[0]) == "connect_timeout", "the connect timeout given to start() is the one armed")
    # whenever a timeout was given it is armed
    def tr(n, val):
        if n in sct:
            return True
        return val

    def tr_w(n, val):
        armed, absent = val
        return (True, absent) if n in sct else val

    def edge_w(n, kind, val):
        armed, absent = val
        if ("connect_timeout is None", True) in edge_facts(n, kind, gf):
            absent = True
        return (armed, absent)

    seen = explore(st_.cfg, (False, False), tr_w, lambda t: False, edge_transfer=edge_w, follow_exc=False)
    for _f, (armed, absent) in sorted(seen.get(st_.cfg.exit.id, ()), key=repr):
        if absent:
            continue
        ck.ob("C10.timeout-wired", st_, st_.node, armed, "a given connect timeout is armed on every path of start()", construct="start(): timeout given, armed=%s" % armed)
    ef = event_facts(st_, {"first": node_calls("self.try_connect")}, cond_facts=False)
    for qn, cb in ((CN + ".set_connect_timeout", "self.on_connect_timeout"), (CN + ".set_timeout", "self.on_timeout")):
        f = ck.func(TC, qn)
        adds = [c for c in q.calls(f.node) if q.call_attr(c) in ("add_timeout", "call_later", "call_at")]
        ok = len(adds) == 1 and any(q.dotted(a) == cb for a in adds[0].args)
        ck.ob("C10.timeout-wired", f, adds[0] if adds else f.node, ok, "%s schedules %s" % (qn.split(".")[-1], cb))
        p0 = [p for p in f.params() if p != "self"][0]
        ck.ob("C10.timeout-wired", f, adds[0] if adds else f.node, bool(adds) and any(isinstance(x, ast.Name) and x.id == p0 for x in ast.walk(adds[0].args[0])) if adds and adds[0].args else False, "the deadline is computed from the given timeout")
        stores = [s_ for s_ in q.stores_to(f.node, "self." + ("connect_timeout" if "connect" in qn else "timeout"))]
        ck.ob("C10.timeout-wired", f, f.node, len(stores) == 1 and getattr(stores[0], "value", None) in adds, "the timer handle is remembered (so it can be removed)", construct="%s stores the handle" % qn)


def run(ck):
    ck.rule("C10.settle-guarded", "every settle of _Connector.future is dominated by not self.future.done(); the future is never replaced")
    ck.rule("C10.final-error-guard", "the all-addresses-failed error is set only when the address queue is exhausted and remaining == 0")
    ck.rule("C10.streams-tracked", "a started attempt's stream is in self.streams before its completion callback (on_connect_done, on the attempt's future) is registered")
    ck.rule("C10.winner-kept", "the winning stream is discarded from self.streams before the future is resolved with it and before the losers are closed")
    ck.rule("C10.losers-closed", "close_streams() follows both completions that can leave attempts in flight (success, connect timeout) and closes every member; a late success is closed")
    ck.rule("C10.remaining-once", "remaining starts at len(addrinfo) and is decremented exactly once per completed attempt, before any follow-up")
    ck.rule("C10.one-attempt-per-call", "each driver call starts at most one attempt; attempts are started only by start/on_connect_done/on_timeout")
    ck.rule("C10.timeouts-kept-on-failure", "on_connect_done cancels the overall connect timeout only on the success path")
    ck.rule("C10.timeout-wired", "TCPClient.connect's timeout reaches the connector: start() arms it, the setters schedule on_connect_timeout / on_timeout with the given delay and keep the handle")
    ck.rule("C10.failure-retries", "a failed attempt (any Exception) is recorded and, unless the connector is done, continues with the next address of the same family")
    ck.rule("C10.secondary-once", "the secondary family is started once: on_timeout clears the timer first and does nothing when done; the direct call removes the pending timer")
    ck.rule("C10.callback-no-leak", "completion callbacks do not leak a synchronous exception of the injected connect callable (raise-summary of TCPClient._create_stream)")
    ck.rule("C10.create-stream-defuse", "TCPClient._create_stream uses no local that may be unbound on an exception path")
    ck.rule("C10.socket-owned", "the socket created in _create_stream is closed or owned by the returned stream on every exit")
    from ..x_inline import inline_repo

    ck.repo = inline_repo(ck.repo, [TC], {"_create_stream"}, join_index=True)
    connector(ck)
    cfg = create_stream(ck)
    callback_leak(ck, cfg)
    timeouts_wired(ck)


# ---------------------------------------------------------------------------
# mutants


def _in(qn, edit):
    return lambda repo: mutate(repo, TC, qn, edit)


def _src(n):
    return ast.unparse(n)


def _unguard_timeout(root):
    for n in ast.walk(root):
        b = getattr(n, "body", None)
        if isinstance(b, list):
            for i, st in enumerate(b):
                if isinstance(st, ast.If) and "self.future.done()" in _src(st.test) and "set_exception" in _src(st):
                    b[i : i + 1] = st.body
                    return True
    return False


def _swap(pred_a, pred_b):
    def edit(root):
        for n in ast.walk(root):
            for fld in ("body", "orelse"):
                b = getattr(n, fld, None)
                if isinstance(b, list):
                    ia = [i for i, s in enumerate(b) if pred_a(s)]
                    ib = [i for i, s in enumerate(b) if pred_b(s)]
                    if ia and ib:
                        b[ia[0]], b[ib[0]] = b[ib[0]], b[ia[0]]
                        return True
        return False

    return edit


def _late_not_closed(root):
    for n in ast.walk(root):
        if isinstance(n, ast.If) and _src(n.test) == "self.future.done()" and any("stream.close()" in _src(s) for s in n.body):
            n.body = [ast.Pass()]
            return True
    return False


def _dec_on_success_only(root):
    b = root.body
    i = [k for k, s in enumerate(b) if isinstance(s, ast.AugAssign) and "remaining" in _src(s)]
    j = [k for k, s in enumerate(b) if "clear_timeouts" in _src(s)]
    if i and j:
        st = b.pop(i[0])
        b.insert(j[0], st)
        return True
    return False


def _final_error_without_remaining(root):
    for n in ast.walk(root):
        if isinstance(n, ast.If) and isinstance(n.test, ast.BoolOp) and "remaining" in _src(n.test):
            n.test = [v for v in n.test.values if "remaining" not in _src(v)][0]
            return True
    return False


def _close_streams_noop(root):
    for n in ast.walk(root):
        if isinstance(n, ast.For):
            n.body = [ast.Break()]
            return True
    return False


def _move_clear_timeouts_first(root):
    b = root.body
    i = [k for k, s_ in enumerate(b) if isinstance(s_, ast.Expr) and "clear_timeouts" in _src(s_)]
    if i:
        st = b.pop(i[0])
        b.insert(1, st)
        return True
    return False


MUTANTS = [
    ("connect timeout settles without the done() guard", _in(CN + ".on_connect_timeout", _unguard_timeout), "C10.settle-guarded"),
    ("late success overwrites the result (no done() test)", _in(CN + ".on_connect_done", replace_stmt(lambda st: isinstance(st, ast.If) and _src(st.test) == "self.future.done()", lambda st: st.orelse)), "C10.settle-guarded"),
    ("started stream not tracked", _in(CN + ".try_connect", remove_stmts(lambda st: isinstance(st, ast.Expr) and "self.streams.add" in _src(st))), "C10.streams-tracked"),
    ("callback registered before the stream is tracked", _in(CN + ".try_connect", _swap(lambda s: isinstance(s, ast.Expr) and "self.streams.add" in _src(s), lambda s: isinstance(s, ast.Expr) and "future_add_done_callback" in _src(s))), "C10.streams-tracked"),
    ("winner closed with the losers (no discard)", _in(CN + ".on_connect_done", remove_stmts(lambda st: isinstance(st, ast.Expr) and "self.streams.discard" in _src(st))), "C10.winner-kept"),
    ("losers closed before the winner is taken out", _in(CN + ".on_connect_done", _swap(lambda s: isinstance(s, ast.Expr) and "self.streams.discard" in _src(s), lambda s: _src(s) == "self.close_streams()")), "C10.winner-kept"),
    ("no close_streams after success", _in(CN + ".on_connect_done", remove_stmts(lambda st: _src(st) == "self.close_streams()")), "C10.losers-closed"),
    ("no close_streams on connect timeout", _in(CN + ".on_connect_timeout", remove_stmts(lambda st: _src(st) == "self.close_streams()")), "C10.losers-closed"),
    ("late arrival not closed", _in(CN + ".on_connect_done", _late_not_closed), "C10.losers-closed"),
    ("close_streams stops after nothing", _in(CN + ".close_streams", _close_streams_noop), "C10.losers-closed"),
    ("remaining only decremented on success", _in(CN + ".on_connect_done", _dec_on_success_only), "C10.remaining-once"),
    ("first-family addresses queued in both families", _in(CN + ".split", replace_stmt(lambda st: isinstance(st, ast.Expr) and "primary.append" in _src(st), lambda st: [st, parse_stmt("secondary.append((af, addr))")])), "C10.remaining-once"),
    ("seeded C10-adv4: split() iterates dict.fromkeys(addrinfo) (duplicates dropped, remaining still len(addrinfo))", _in(CN + ".split", replace_expr(lambda n: isinstance(n, ast.Name) and n.id == "addrinfo" and isinstance(n.ctx, ast.Load), lambda n: parse_expr("dict.fromkeys(addrinfo)"), limit=2)), "C10.remaining-once"),
    ("final error without remaining == 0", _in(CN + ".try_connect", _final_error_without_remaining), "C10.final-error-guard"),
    ("failed attempt does not try the next address", _in(CN + ".on_connect_done", remove_stmts(lambda st: _src(st) == "self.try_connect(addrs)")), "C10.failure-retries"),
    ("only OSError counts as a failed attempt", _in(CN + ".on_connect_done", replace_expr(lambda n: isinstance(n, ast.ExceptHandler), lambda n: ast.ExceptHandler(type=ast.Name(id="OSError", ctx=ast.Load()), name=n.name, body=n.body))), "C10.failure-retries"),
    ("on_timeout keeps the timer handle", _in(CN + ".on_timeout", remove_stmts(lambda st: _src(st) == "self.timeout = None")), "C10.secondary-once"),
    ("direct on_timeout() without removing the timer", _in(CN + ".on_connect_done", remove_stmts(lambda st: isinstance(st, ast.Expr) and "remove_timeout(self.timeout)" in _src(st))), "C10.secondary-once"),
    ("seeded C10-adv1: on_timeout() first, then clear_timeout() (stale timer)", _in(CN + ".on_connect_done", replace_stmt(lambda st: isinstance(st, ast.If) and _src(st.test) == "self.timeout is not None", lambda st: [ast.If(test=st.test, body=[parse_stmt("self.on_timeout()"), parse_stmt("self.clear_timeout()")], orelse=[])])), "C10.secondary-once"),
    ("timer removed after on_timeout() through the attribute", _in(CN + ".on_connect_done", replace_stmt(lambda st: isinstance(st, ast.If) and _src(st.test) == "self.timeout is not None", lambda st: [ast.If(test=st.test, body=[parse_stmt("self.on_timeout()"), parse_stmt("self.io_loop.remove_timeout(self.timeout)")], orelse=[])])), "C10.secondary-once"),
    ("timeouts cleared on every completion, also failures", _in(CN + ".on_connect_done", lambda root: _move_clear_timeouts_first(root)), "C10.timeouts-kept-on-failure"),
    ("TCPClient.connect forgets to pass its timeout to the connector", _in("TCPClient.connect", replace_expr(lambda n: isinstance(n, ast.Call) and _src(n.func) == "connector.start", lambda n: ast.Call(func=n.func, args=[], keywords=[]))), "C10.timeout-wired"),
    ("set_connect_timeout does not keep the handle", _in(CN + ".set_connect_timeout", replace_stmt(lambda st: isinstance(st, ast.Assign), lambda st: [ast.Expr(value=st.value)])), "C10.timeout-wired"),
    ("on_timeout starts an attempt although done", _in(CN + ".on_timeout", replace_stmt(lambda st: isinstance(st, ast.If), lambda st: st.body)), "C10.secondary-once"),
    ("bind failure leaks the socket", _in("TCPClient._create_stream", remove_stmts(lambda st: _src(st) == "socket_obj.close()")), "C10.socket-owned"),
]
