"""C43 — HTTP utility parsers: start-line grammar, total helpers, IP validation.

Decided statically (DESIGN.md §4 C43):
* RX: the languages of ``_ABNF.request_line/status_line/token/field_value/
  HTTP_version/status_code/reason_phrase`` are *equivalent* (regex automata,
  product construction) to references written here from RFC 9110 §5.6.2/§5.5
  and RFC 9112 §2.3/§3/§4 (+ Tornado's documented request-target relaxation:
  1*(VCHAR / obs-text)); the start-line parsers apply them with ``fullmatch`` to
  the whole line (the language of *pattern + call method* is compared, so
  ``match``/``search`` are seen as a wider language); capture groups map to the
  tuple fields (sub-language of each group); rejection raises HTTPInputError;
  the status code goes through SINT.
* EXC (frozen raise table, fail closed): ``_parse_header``, ``_parseparam``,
  ``parse_cookie``, ``_unquote_cookie``, ``_unquote_replace`` and
  ``split_host_and_port`` contain no raise/assert, every index/unpack/int/next
  is justified by a dominating guard or an accepted idiom.
* ``is_valid_ip``: empty and NUL rejected before ``getaddrinfo``; AI_NUMERICHOST
  passed; gaierror/UnicodeError handled.
* ``re_unescape``: the escape pattern denotes backslash + *any* character
  (DOTALL); ``url_concat`` keeps blank values and carries the fragment over.
Not decided: the round trips (_encode_header, timestamps, url_concat pairs,
re_unescape∘re.escape) as value equalities.
"""
from __future__ import annotations

import ast
import re as _re

from .. import q
from ..cfg import must_facts, holds
from ..mutate import mutate, remove_stmts, replace_expr, replace_stmt, parse_stmt, parse_expr
from ..model import AnalysisError
from ..rx import Rx, eval_abnf, eval_pattern_expr
from ..x_sint import check_sint, group_rx, _match_call, _unique_binding, resolve_pattern
from ..x_resolve import expand, resolve, unique_def, short_circuit_facts, named_bool_facts, in_annotation

TECHNIQUE = "regex-automata language equivalence against RFC references (incl. call method) + exception-escape lint against a frozen raise table with guard dominance + argument/guard checks on is_valid_ip"
EXPLANATION = (
    "The _ABNF class body is evaluated statically to pattern texts; each pattern is compiled to a DFA and compared (equivalence, with witness) to a reference DFA written from the RFC; "
    "call sites are checked for fullmatch on the whole input by comparing the language of pattern+method. The 'never raise' helpers are linted: no raise/assert, every subscript, "
    "tuple-unpack, int() and next() must be justified by a must-fact guard or a closed list of idioms; unknown operations fail closed."
)
NOT_DECIDED = "value round trips (_encode_header/_parse_header, format_timestamp/parse, url_concat pair preservation beyond flag/fragment plumbing, re_unescape(re.escape(s)) == s) and the behaviour of the stdlib callees (email.utils.*, getaddrinfo)"
LEVEL_NOTE = "assumes email.utils.decode_params / collapse_rfc2231_value and str methods do not raise for str input (A3); alphabet of the automata is latin-1 + one symbol for code points > 255"

HU = "tornado/httputil.py"
NU = "tornado/netutil.py"
UT = "tornado/util.py"

# --- references, written from the RFC text (not derived from the code) ------------------
# RFC 9110 5.6.2: tchar = "!" / "#" / "$" / "%" / "&" / "'" / "*" / "+" / "-" / "." / "^" / "_" / "`" / "|" / "~" / DIGIT / ALPHA
_TCHAR = "(?:!|#|\\$|%|&|'|\\*|\\+|-|\\.|\\^|_|`|\\||~|[0-9]|[a-z]|[A-Z])"
_VCHAR = "[\\x21-\\x7e]"          # RFC 5234 B.1
_OBS = "[\\x80-\\xff]"            # RFC 9110 5.5 obs-text
_FVCHAR = "(?:%s|%s)" % (_VCHAR, _OBS)
_VERSION = "HTTP/[0-9][.][0-9]"   # RFC 9112 2.3: HTTP-name "/" DIGIT "." DIGIT
_STATUS = "[0-9][0-9][0-9]"       # RFC 9112 4: 3DIGIT
_REASON = "(?:\\x09|\\x20|%s|%s)+" % (_VCHAR, _OBS)   # 1*( HTAB / SP / VCHAR / obs-text )
_TOKEN = "%s+" % _TCHAR
_TARGET = "%s+" % _FVCHAR         # Tornado relaxation: anything but controls and whitespace, at least one
# RFC 3986: unreserved = ALPHA / DIGIT / "-" / "." / "_" / "~" ; sub-delims = "!" / "$" / "&" / "'" / "(" / ")" / "*" / "+" / "," / ";" / "="
_UNRES = "(?:[a-z]|[A-Z]|[0-9]|-|\\.|_|~)"
_SUBD = "(?:!|\\$|&|'|\\(|\\)|\\*|\\+|,|;|=)"
_PCT = "%[0-9a-fA-F][0-9a-fA-F]"     # pct-encoded = "%" HEXDIG HEXDIG
_URIHOST = "(?:\\[|\\]|:|%s|%s|%s)*" % (_UNRES, _SUBD, _PCT)   # Tornado's documented simplification of host: brackets and colons anywhere
_PORT = "[0-9]*"                    # port = *DIGIT
REFS = {
    "uri_unreserved": _UNRES,
    "uri_sub_delims": _SUBD,
    "uri_pct_encoded": _PCT,
    "uri_host": _URIHOST,
    "uri_port": _PORT,
    "host": "%s(?::%s)?" % (_URIHOST, _PORT),     # RFC 9110 7.2: Host = uri-host [ ":" port ]
    "VCHAR": _VCHAR,
    "obs_text": _OBS,
    "field_vchar": _FVCHAR,
    "tchar": _TCHAR,
    "token": _TOKEN,
    "field_name": _TOKEN,
    "method": _TOKEN,
    "HTTP_version": _VERSION,
    "status_code": _STATUS,
    "reason_phrase": _REASON,
    # field-value = *field-content ; field-content = field-vchar [ 1*( SP / HTAB / field-vchar ) field-vchar ]
    "field_value": "(?:%s(?:(?:\\x20|\\x09|%s)*%s)?)?" % (_FVCHAR, _FVCHAR, _FVCHAR),
    "request_target": _TARGET,
    # request-line = method SP request-target SP HTTP-version
    "request_line": "%s\\x20%s\\x20%s" % (_TOKEN, _TARGET, _VERSION),
    # status-line = HTTP-version SP status-code SP [ reason-phrase ]
    "status_line": "%s\\x20%s\\x20(?:%s)?" % (_VERSION, _STATUS, _REASON),
}


def rule_rx(ck):
    env = eval_abnf(ck.repo)
    n = 0
    for name, ref in REFS.items():
        if name not in env:
            raise AnalysisError("C43.rx: _ABNF.%s not found" % name)
        a = Rx.from_pattern(env[name])
        b = Rx.from_pattern(ref)
        w = a.difference_witness(b)
        n += 1
        ck.ob("C43.rx", None, ck.repo.cls(HU, "_ABNF"), w is None,
              "L(_ABNF.%s) == L(RFC reference)%s" % (name, "" if w is None else " — differs on %r (%s)" % w), construct="_ABNF.%s" % name, file=HU)
    # every pattern of the class is governed: a new/renamed rule without a reference fails closed; and, independently of the
    # references, no wire grammar may admit a code point above 255 (the text is bytes smuggled through latin-1): \\d, \\w, \\s in
    # a str pattern are Unicode-aware and do.
    for name, pat in env.items():
        if name not in REFS:
            raise AnalysisError("C43.rx: _ABNF.%s has no RFC reference in the checker (new grammar rule?)" % name)
        n += 1
        ck.ob("C43.rx", None, ck.repo.cls(HU, "_ABNF"), Rx.from_pattern(pat).excludes_symbols([256]), "_ABNF.%s admits no character above U+00FF (no Unicode-aware \\d/\\w/\\s class in a wire grammar)" % name, construct="_ABNF.%s latin-1 only" % name, file=HU)
    return n


def _start_line(ck, fname, abnf_name, tuple_name, group_refs):
    fi = ck.func(HU, fname)
    param = [p for p in fi.params()][0]
    env = eval_abnf(ck.repo)
    from ..x_resolve import lazy_widened as _lw
    facts = _lw(fi)   # named booleans, explaining locals and walrus tests are looked through
    # the constructor call that builds the result
    ctors = [(nd, c) for nd, c in fi.cfg.find(lambda x: isinstance(x, ast.Call) and q.dotted(x.func) == tuple_name)]
    ck.floor("C43.start-line", len(ctors), 1, "%s(..) constructions in %s" % (tuple_name, fname))
    ref_line = Rx.from_pattern(REFS[abnf_name])
    for nd, c in ctors:
        c_orig = c
        mobjs = [nm for nm in q.local_names(fi.node) if (lambda b: b is not None and _match_call(ck.repo, fi, b) is not None)(_unique_binding(fi, nm))]
        c = expand(fi, c, keep=mobjs)   # fields may travel through locals / a tuple assignment / m.group(1, 2, 3)
        groups = [x for x in ast.walk(c) if isinstance(x, ast.Call) and isinstance(x.func, ast.Attribute) and x.func.attr == "group" and isinstance(x.func.value, ast.Name)]
        mnames = {g.func.value.id for g in groups}
        if len(mnames) != 1:
            raise AnalysisError("%s: result is not built from the groups of one match object (unknown idiom)" % fname)
        m = mnames.pop()
        bind = _unique_binding(fi, m)
        mc = _match_call(ck.repo, fi, bind) if bind is not None else None
        if mc is None or mc[1] is None:
            raise AnalysisError("%s: match object %s is not bound from a statically resolvable regex call" % (fname, m))
        meth, pat, subj = mc
        lang = Rx.from_pattern(pat, mode=meth)
        w = lang.difference_witness(ref_line)
        ck.ob("C43.start-line", fi, bind, w is None, "the language accepted by %s(%s) equals the RFC %s grammar%s" % (meth, q.unparse(bind.func.value), abnf_name.replace("_", "-"), "" if w is None else " — differs on %r (%s)" % w))
        ck.ob("C43.start-line", fi, bind, q.dotted(subj) == param, "the whole input line is matched (subject is the parameter %s, not a stripped/split copy)" % param)
        ok = (m, True) in facts[nd.id] or holds(facts[nd.id], "%s is None" % m, False)
        ck.ob("C43.start-line", fi, c_orig, ok, "the result is built only when the match succeeded")
        # groups -> fields
        for pos, a in enumerate(c.args):
            gs = [x for x in ast.walk(a) if x in groups]
            if len(gs) != 1 or pos >= len(group_refs):
                raise AnalysisError("%s: field %d of %s is not built from exactly one capture group" % (fname, pos, tuple_name))
            k = gs[0].args[0].value if gs[0].args and isinstance(gs[0].args[0], ast.Constant) else None
            if not isinstance(k, int):
                raise AnalysisError("%s: non-literal group index" % fname)
            gl, always = group_rx(pat, k)
            gref = Rx.from_pattern(REFS[group_refs[pos]])
            w2 = gl.difference_witness(gref)
            ck.ob("C43.start-line", fi, c_orig.args[pos] if pos < len(c_orig.args) else c_orig, w2 is None, "field %d of %s is the %s component (language of capture group %d)%s" % (pos, tuple_name, group_refs[pos], k, "" if w2 is None else " — differs on %r (%s)" % w2))
    # rejection: every raise is HTTPInputError; a failed match raises
    raises = [r for r in q.walk_body(fi.node) if isinstance(r, ast.Raise)]
    ck.floor("C43.start-line", len(raises), 1, "raise statements in %s" % fname)
    for r in raises:
        ok = isinstance(r.exc, ast.Call) and (q.dotted(r.exc.func) or "").split(".")[-1] == "HTTPInputError"
        ck.ob("C43.start-line", fi, r, ok, "malformed start lines are rejected with HTTPInputError")
    for a in [x for x in q.walk_body(fi.node) if isinstance(x, ast.Assert)]:
        ck.ob("C43.start-line", fi, a, False, "no assert on peer data in a start-line parser")
    # every normal return is dominated by a successful match
    for nd in fi.cfg.stmt_nodes(lambda nd: nd.kind == "stmt" and isinstance(nd.ast, ast.Return)):
        f = facts[nd.id]
        def _is_m(name):
            b = _unique_binding(fi, name)
            return b is not None and _match_call(ck.repo, fi, b) is not None
        ok = any((pol and t.isidentifier() and _is_m(t)) or ((not pol) and t.endswith(" is None") and t[:-8].isidentifier() and _is_m(t[:-8])) for t, pol in f)
        ck.ob("C43.start-line", fi, nd.ast, ok, "a start line is only returned after a successful match")
    n = check_sint(ck, "C43.sint", fi, mode="strict")
    return n


def rule_start_lines(ck):
    n = _start_line(ck, "parse_request_start_line", "request_line", "RequestStartLine", ["method", "request_target", "HTTP_version"])
    n += _start_line(ck, "parse_response_start_line", "status_line", "ResponseStartLine", ["HTTP_version", "status_code", "reason_phrase"])
    ck.floor("C43.sint", n, 1, "int() sites in the start-line parsers")
    # tuple field order
    for cls, fields in (("RequestStartLine", ["method", "path", "version"]), ("ResponseStartLine", ["version", "code", "reason"])):
        c = ck.repo.cls(HU, cls)
        got = [st.target.id for st in c.body if isinstance(st, ast.AnnAssign) and isinstance(st.target, ast.Name)]
        ck.ob("C43.start-line", None, c, got == fields, "%s fields are %s" % (cls, fields), construct="%s fields %s" % (cls, got), file=HU)


# ---------------------------------------------------------------------------
# EXC: total helpers

SAFE_STR = {"split", "rsplit", "strip", "lstrip", "rstrip", "find", "rfind", "count", "lower", "upper", "partition", "rpartition", "startswith", "endswith", "replace", "join", "append", "items", "get", "pop0", "isdigit", "isdecimal", "isnumeric", "isascii", "isalnum", "isalpha", "isspace"}
SAFE_FUNCS = {"len", "native_str", "chr", "str", "dict", "list", "tuple", "isinstance", "bool"}
TRUSTED_STDLIB = {"email.utils.decode_params", "email.utils.collapse_rfc2231_value"}


def _len_guard(facts, base, need):
    """A dominating fact implies len(base) >= need."""
    for t, pol in facts:
        if t.startswith("@"):
            continue
        try:
            e = ast.parse(t, mode="eval").body
        except SyntaxError:
            continue
        if isinstance(e, ast.Compare) and len(e.ops) == 1 and isinstance(e.left, ast.Constant) and q.is_call(e.comparators[0], "len"):
            # 2 <= len(x)  ->  len(x) >= 2
            flip = {ast.Lt: ast.Gt, ast.LtE: ast.GtE, ast.Gt: ast.Lt, ast.GtE: ast.LtE, ast.Eq: ast.Eq, ast.NotEq: ast.NotEq}
            if type(e.ops[0]) in flip:
                e = ast.Compare(left=e.comparators[0], ops=[flip[type(e.ops[0])]()], comparators=[e.left])
        if isinstance(e, ast.Compare) and len(e.ops) == 1 and isinstance(e.left, ast.Call) and q.is_call(e.left, "len") and e.left.args and q.unparse(e.left.args[0]) == base:
            c = e.comparators[0]
            if isinstance(c, ast.Constant) and type(c.value) is int:
                op = e.ops[0]
                if isinstance(op, ast.GtE) and pol and c.value >= need:
                    return True
                if isinstance(op, ast.Gt) and pol and c.value + 1 >= need:
                    return True
                if isinstance(op, ast.Lt) and not pol and c.value >= need:
                    return True
                if isinstance(op, ast.LtE) and not pol and c.value + 1 >= need:
                    return True
        if t == base and pol and need <= 1:
            return True
    return False


def _parses(t):
    try:
        ast.parse(t, mode="eval")
        return True
    except SyntaxError:
        return False


def _is_match_obj(ck, fi, name):
    """(is match object, number of groups or None)."""
    b = _unique_binding(fi, name)
    if b is not None:
        mc = _match_call(ck.repo, fi, b)
        if mc is not None and mc[1] is not None:
            return True, _groups(mc[1])
    # parameter annotated re.Match: replacement callback of a module-level <compiled>.sub
    for a in fi.node.args.args:
        if a.arg == name and a.annotation is not None and "Match" in q.unparse(a.annotation):
            return True, None
    return False, None


def _groups(pat):
    from ..rx import sre_parse
    return sre_parse.parse(pat).state.groups - 1


def lint_total(ck, fi, extra_safe=()):
    """No exception can escape ``fi`` for str input (frozen table, fail closed)."""
    facts = must_facts(fi.cfg)
    pm = q.parent_map(fi.node)
    n = 0
    for x in q.walk_body(fi.node):
        if isinstance(x, (ast.Raise, ast.Assert)):
            n += 1
            ck.ob("C43.total", fi, x, False, "%s must never raise: explicit %s" % (fi.qualname, type(x).__name__.lower()))
    for nd, x in fi.cfg.find(lambda x: isinstance(x, (ast.Call, ast.Subscript, ast.Assign))):
        if in_annotation(pm, x):
            continue
        F = set(facts[nd.id])
        if any(":=" in f_[0] for f_ in F):
            from ..x_resolve import strip_walrus
            F = strip_walrus(F)
        F |= set(short_circuit_facts(pm, x))       # guards given by an enclosing and/or/conditional expression in value position
        F |= set(named_bool_facts(fi, F))          # `flag = len(v) >= 2 and ...; if flag:` carries the atoms of its definition
        if isinstance(x, ast.Assign):
            t = x.targets[0]
            if isinstance(t, (ast.Tuple, ast.List)) and isinstance(x.value, ast.Call) and q.call_attr(x.value) in ("split", "rsplit"):
                v = x.value
                sep = v.args[0] if v.args else None
                mx = v.args[1] if len(v.args) > 1 else q.kwarg(v, "maxsplit")
                recv = q.unparse(v.func.value)
                n += 1
                ok = (isinstance(mx, ast.Constant) and mx.value == len(t.elts) - 1 and isinstance(sep, ast.Constant)
                      and any(pol and tt == "%s in %s" % (q.unparse(sep), recv) for tt, pol in F))
                if not ok and isinstance(mx, ast.Constant) and any(_parses(t_) and recv in t_ and ("find(" in t_ or "count(" in t_ or "index(" in t_ or "partition(" in t_) for t_, _p in F):
                    raise AnalysisError("C43.total: the split of %s in %s is guarded by an unrecognised test" % (recv, fi.qualname))
                ck.ob("C43.total", fi, x, ok, "unpacking %s.split(%s, %s) into %d names needs a dominating '%s in %s' test (else ValueError)" % (recv, q.unparse(sep) if sep else "?", q.unparse(mx) if mx else "?", len(t.elts), q.unparse(sep) if sep else "?", recv))
            elif isinstance(t, (ast.Tuple, ast.List)) and isinstance(x.value, ast.Call) and q.call_attr(x.value) in ("partition", "rpartition"):
                n += 1
                ck.ob("C43.total", fi, x, len(t.elts) == 3, "partition() always yields 3 items")
            elif isinstance(t, (ast.Tuple, ast.List)) and isinstance(x.value, (ast.Tuple, ast.List)):
                n += 1
                ck.ob("C43.total", fi, x, len(t.elts) == len(x.value.elts), "literal tuple unpack of equal arity")
            elif isinstance(t, (ast.Tuple, ast.List)) and isinstance(x.value, ast.IfExp):
                # each arm is judged under the condition that selects it
                for arm, pol_ in ((x.value.body, True), (x.value.orelse, False)):
                    Fa = set(F) | set(short_circuit_facts(pm, arm))
                    n += 1
                    if isinstance(arm, (ast.Tuple, ast.List)):
                        ck.ob("C43.total", fi, arm, len(arm.elts) == len(t.elts), "literal tuple of equal arity")
                    elif isinstance(arm, ast.Call) and q.call_attr(arm) in ("partition", "rpartition"):
                        ck.ob("C43.total", fi, arm, len(t.elts) == 3, "partition() always yields 3 items")
                    elif isinstance(arm, ast.Call) and q.call_attr(arm) in ("split", "rsplit"):
                        sep = arm.args[0] if arm.args else None
                        mx = arm.args[1] if len(arm.args) > 1 else q.kwarg(arm, "maxsplit")
                        recv = q.unparse(arm.func.value)
                        ok = (isinstance(mx, ast.Constant) and mx.value == len(t.elts) - 1 and isinstance(sep, ast.Constant) and any(p_ and tt == "%s in %s" % (q.unparse(sep), recv) for tt, p_ in Fa))
                        ck.ob("C43.total", fi, arm, ok, "unpacking %s into %d names needs the '%s in %s' condition on that arm" % (q.unparse(arm), len(t.elts), q.unparse(sep) if sep else "?", recv))
                    else:
                        raise AnalysisError("C43.total: unmodelled tuple unpack %s in %s" % (q.unparse(x), fi.qualname))
            elif isinstance(t, (ast.Tuple, ast.List)) and isinstance(x.value, ast.Call) and q.call_attr(x.value) in ("groups", "group") and isinstance(x.value.func.value, ast.Name):
                m = x.value.func.value.id
                ism, ng = _is_match_obj(ck, fi, m)
                if not ism or ng is None:
                    raise AnalysisError("C43.total: unmodelled tuple unpack %s in %s" % (q.unparse(x), fi.qualname))
                want = ng if q.call_attr(x.value) == "groups" else len(x.value.args)
                n += 1
                ck.ob("C43.total", fi, x, want == len(t.elts) and ((m, True) in F or holds(F, "%s is None" % m, False)), "unpacking %s into %d names: the pattern has %d groups and the match is known to have succeeded" % (q.unparse(x.value), len(t.elts), want))
            elif isinstance(t, (ast.Tuple, ast.List)):
                raise AnalysisError("C43.total: unmodelled tuple unpack %s in %s" % (q.unparse(x), fi.qualname))
            continue
        if isinstance(x, ast.Subscript):
            if not isinstance(x.ctx, ast.Load) or isinstance(x.slice, ast.Slice):
                continue
            base = q.unparse(x.value)
            try:
                idx = q.fold(x.slice, {})
            except q.NotFoldable:
                idx = None
            if isinstance(x.value, ast.Name):
                ism, ng = _is_match_obj(ck, fi, x.value.id)
                if ism:
                    n += 1
                    ck.ob("C43.total", fi, x, isinstance(idx, int) and (ng is None or 0 <= idx <= ng) and idx is not None, "group index %s exists in the pattern" % idx)
                    continue
            if isinstance(idx, int):
                need = idx + 1 if idx >= 0 else -idx
                n += 1
                ok = _len_guard(F, base, need)
                if not ok and idx == 0 and isinstance(x.value, ast.Name):
                    b = _unique_binding(fi, x.value.id)
                    ok = isinstance(b, ast.Call) and q.call_attr(b) in ("split", "rsplit", "partition", "rpartition")
                if not ok and any(base in q.names_in(ast.parse(t_, mode="eval")) or base in t_ for t_, _p in F if not t_.startswith("@") and _parses(t_)):
                    raise AnalysisError("C43.total: %s[%s] in %s is guarded by a test on %s that is not a recognised length guard" % (base, idx, fi.qualname, base))
                ck.ob("C43.total", fi, x, ok, "%s[%s] needs a dominating length guard (len(%s) >= %d)" % (base, idx, base, need))
                continue
            raise AnalysisError("C43.total: unmodelled subscript %s in %s" % (q.unparse(x), fi.qualname))
        # calls
        c = x
        if any(isinstance(a, (ast.Raise, ast.Assert)) for a in q.ancestors(pm, c)):
            continue  # already reported as an explicit raise
        d = q.dotted(c.func)
        name = q.call_attr(c)
        if d == "int":
            continue  # SINT below
        if d == "next":
            n += 1
            ok = False
            if c.args and isinstance(c.args[0], ast.Name) and len(c.args) == 1:
                b = _unique_binding(fi, c.args[0].id)
                if isinstance(b, ast.Call) and q.call_attr(b) == "_parseparam" and b.args and isinstance(b.args[0], ast.BinOp) and isinstance(b.args[0].op, ast.Add) and isinstance(b.args[0].left, ast.Constant) and str(b.args[0].left.value).startswith(";"):
                    ok = True
            elif len(c.args) == 2:
                ok = True  # next(it, default) cannot raise StopIteration
            ck.ob("C43.total", fi, c, ok, "next() on _parseparam(';' + line): the generator yields at least once because the text starts with ';'")
            continue
        if isinstance(c.func, ast.Attribute) and name in ("group", "groups") and isinstance(c.func.value, ast.Name):
            ism, ng = _is_match_obj(ck, fi, c.func.value.id)
            if ism:
                m = c.func.value.id
                ks = [a.value if isinstance(a, ast.Constant) else None for a in c.args]
                n += 1
                ck.ob("C43.total", fi, c, ((m, True) in F or holds(F, "%s is None" % m, False)) and all(isinstance(k, int) and (ng is None or k <= ng) for k in ks), "%s.%s(%s) on a match object known to be non-None" % (m, name, ", ".join(map(str, ks))))
                continue
        if isinstance(c.func, ast.Attribute) and name == "pop" and len(c.args) == 1 and q.is_const(c.args[0], 0):
            # list.pop(0): the list was seeded with a literal first element (the 'Dummy' of decode_params)
            n += 1
            seeded = [a for a in q.walk_body(fi.node) if isinstance(a, ast.Assign) and isinstance(a.value, ast.List) and len(a.value.elts) >= 1]
            ck.ob("C43.total", fi, c, bool(seeded), "pop(0) of the parameter list that was seeded with a literal dummy element")
            continue
        if _match_call(ck.repo, fi, c) is not None:
            continue  # regex matching of a str never raises
        if (isinstance(c.func, ast.Attribute) and name in SAFE_STR) or (isinstance(c.func, ast.Name) and name in SAFE_FUNCS) or d in TRUSTED_STDLIB or name in extra_safe:
            continue
        raise AnalysisError("C43.total: unmodelled call %s in %s (not in the frozen no-raise table)" % (q.unparse(c.func), fi.qualname))
    return n


def rule_total(ck):
    n = 0
    ck.assume("A3: email.utils.decode_params / collapse_rfc2231_value and str methods do not raise for str input")
    ph = ck.func(HU, "_parse_header")
    n += lint_total(ck, ph, extra_safe=("_parseparam",))
    pp = ck.func(HU, "_parseparam")
    n += lint_total(ck, pp)
    # _parseparam yields once per outer iteration, and the outer loop condition is an '== start' test of find(';')
    ys = [y for y in q.walk_body(pp.node) if isinstance(y, (ast.Yield, ast.YieldFrom))]
    ck.ob("C43.total", pp, pp.node, len(ys) >= 1, "_parseparam is a generator", construct="_parseparam yields")
    pc = ck.func(HU, "parse_cookie")
    n += lint_total(ck, pc, extra_safe=("_unquote_cookie",))
    uc = ck.func(HU, "_unquote_cookie")
    n += lint_total(ck, uc, extra_safe=("_unquote_sub",))
    ur = ck.func(HU, "_unquote_replace")
    n += lint_total(ck, ur)
    # chr(int(m[1], 8)): group 1 of the module-level pattern is 3 octal digits <= 0o377
    sub = ck.repo.const(HU, "_unquote_sub")
    if not (isinstance(sub, ast.Attribute) and sub.attr == "sub"):
        raise AnalysisError("_unquote_sub is not <compiled>.sub")
    pat = eval_pattern_expr(sub.value, {})
    for nd, c in ur.cfg.find(lambda x: q.is_call(x, "int")):
        op0 = c.args[0]
        op = resolve(ur, op0)
        k = op.slice.value if isinstance(op, ast.Subscript) and isinstance(op.slice, ast.Constant) else None
        base = c.args[1].value if len(c.args) > 1 and isinstance(c.args[1], ast.Constant) else 10
        if not isinstance(k, int):
            raise AnalysisError("_unquote_replace: int() operand is not m[k]")
        gl, _always = group_rx(pat, k)
        n += 1
        ok = base == 8 and gl.subset_of(Rx.from_pattern("[0-3][0-7][0-7]"))
        ck.ob("C43.total", ur, c, ok, "int(m[%d], 8): capture group %d of the escape pattern is three octal digits <= 377 (int() and chr() cannot fail)" % (k, k))
        f = set(must_facts(ur.cfg)[nd.id]) | set(short_circuit_facts(q.parent_map(ur.node), c))   # if-statement or conditional expression
        ck.ob("C43.total", ur, c, any(pol and t in (q.unparse(op), q.unparse(op0)) for t, pol in f), "the octal branch is taken only when that group participated")
    sh = ck.func(HU, "split_host_and_port")
    n += lint_total(ck, sh)
    k = check_sint(ck, "C43.total", sh, mode="total", ascii_only=False, lookup_callers=False)
    n += k
    # both result shapes
    return n


# ---------------------------------------------------------------------------


def rule_ip(ck):
    from ..x_resolve import lazy_widened, call_arg
    fi = ck.func(NU, "is_valid_ip")
    ip = fi.params()[0]
    facts = lazy_widened(fi)
    gai = [(nd, c) for nd, c in fi.cfg.find(lambda x: isinstance(x, ast.Call) and q.call_attr(x) == "getaddrinfo")]
    ck.floor("C43.ip", len(gai), 1, "getaddrinfo calls in is_valid_ip")
    pm = q.parent_map(fi.node)
    for nd, c in gai:
        F = facts[nd.id]
        ck.ob("C43.ip", fi, c, (ip, True) in F or holds(F, "%s == ''" % ip, False) or holds(F, "len(%s) == 0" % ip, False), "the empty string is rejected before getaddrinfo (it resolves to localhost)")
        nul = False
        for t, pol in F:
            if pol or t.startswith("@"):
                continue
            try:
                e = ast.parse(t, mode="eval").body
            except (SyntaxError, ValueError):
                continue
            if isinstance(e, ast.Compare) and len(e.ops) == 1 and isinstance(e.ops[0], ast.In) and isinstance(e.left, ast.Constant) and e.left.value == "\x00" and q.dotted(e.comparators[0]) == ip:
                nul = True
        ck.ob("C43.ip", fi, c, nul, "strings containing NUL are rejected before getaddrinfo (it truncates at NUL)")
        flags = call_arg(ck.repo, fi, c, 5, "flags")
        flags = expand(fi, flags) if flags is not None else None
        ck.ob("C43.ip", fi, c, flags is not None and any(q.dotted(x) in ("socket.AI_NUMERICHOST", "AI_NUMERICHOST") for x in ast.walk(flags)), "getaddrinfo is given AI_NUMERICHOST (host names are not resolved, hence rejected)")
        host_ = call_arg(ck.repo, fi, c, 0, "host")
        ck.ob("C43.ip", fi, c, host_ is not None and q.dotted(host_) == ip, "the address checked is the argument itself")
        for exc in ("socket.gaierror", "UnicodeError"):
            h = q.protected_by(pm, c, exc)
            ck.ob("C43.ip", fi, c, h is not None, "%s from getaddrinfo is handled (a non-address is rejected, not raised)" % exc, construct="getaddrinfo protected from %s" % exc)
            if h is not None:
                rets = [r for st in h.body for r in q.walk_local(st) if isinstance(r, ast.Return)]
                if not rets:
                    # single-exit style: the handler falls through and a result variable decides; the value is not decided here
                    raise AnalysisError("C43.ip: the %s handler of is_valid_ip does not return; the answer for a non-address is computed in an unrecognised way" % exc)
                ck.ob("C43.ip", fi, h, all(q.is_const(r.value, False) for r in rets), "the %s handler answers False" % exc, construct="handler %s returns False" % exc)
    # early rejections (before getaddrinfo decides): only inputs that are certainly not addresses may be turned away
    LONGEST = "0000:0000:0000:0000:0000:ffff:255.255.255.255"   # 45 characters, a valid textual IPv6 address (RFC 4291 2.2 form 3)
    pmf = q.parent_map(fi.node)
    for st in [x for x in q.walk_body(fi.node) if isinstance(x, ast.If)]:
        if q.enclosing_try_handlers(pmf, st) or any(isinstance(a, ast.ExceptHandler) for a in q.ancestors(pmf, st)):
            continue
        rej_body = len(st.body) == 1 and isinstance(st.body[0], ast.Return) and q.is_const(st.body[0].value, False)
        if not rej_body:
            continue
        # decided by evaluation, not by shape: fold the test for representative inputs (any De Morgan / nesting / named form)
        from ..x_resolve import expand as _expand
        test = _expand(fi, st.test)
        extra = set(q.names_in(test)) - {ip, "len"}
        if extra:
            raise AnalysisError("C43.ip: early rejection '%s' in is_valid_ip depends on %s; not a recognised kind" % (q.unparse(st.test), ", ".join(sorted(extra))))
        VALID = ["1.2.3.4", "255.255.255.255", "::", "::1", "fe80::1", "2001:db8:85a3::8a2e:370:7334", LONGEST]
        verdicts = {}
        try:
            for sample in VALID + ["", "\x00", "1.2.3.4\x00"]:
                verdicts[sample] = bool(q.fold(test, {ip: sample}))
        except q.NotFoldable as ex:
            raise AnalysisError("C43.ip: early rejection '%s' in is_valid_ip cannot be evaluated (%s)" % (q.unparse(st.test), ex))
        bad = [v_ for v_ in VALID if verdicts[v_]]
        ck.ob("C43.ip", fi, st.test, not bad, "an early 'return False' turns away only strings that cannot be addresses: evaluated on %d valid IPv4/IPv6 spellings (up to the 45-character form)%s" % (len(VALID), "" if not bad else " — rejects the valid address %r" % bad[0]))
    # early rejections return False
    for nd in fi.cfg.stmt_nodes(lambda nd: nd.kind == "stmt" and isinstance(nd.ast, ast.Return)):
        F = facts[nd.id]
        if any((t == ip and not pol) for t, pol in F) or any(pol and "\\x00" in t for t, pol in F):
            ck.ob("C43.ip", fi, nd.ast, q.is_const(nd.ast.value, False), "empty / NUL-containing input is answered with False")


def rule_misc(ck):
    # re_unescape: backslash + ANY character
    pat = ck.repo.const(UT, "_re_unescape_pattern")
    if not (isinstance(pat, ast.Call) and q.call_attr(pat) == "compile" and pat.args):
        raise AnalysisError("_re_unescape_pattern is not re.compile(..)")
    text = eval_pattern_expr(pat.args[0], {})
    flags = 0
    fl = pat.args[1] if len(pat.args) > 1 else q.kwarg(pat, "flags")
    if fl is not None:
        env = {"re." + k: int(getattr(_re, k)) for k in ("DOTALL", "S", "ASCII", "A", "IGNORECASE", "I", "MULTILINE", "M", "VERBOSE", "X", "UNICODE", "U")}
        try:
            flags = q.fold(fl, env)
        except q.NotFoldable:
            raise AnalysisError("flags of _re_unescape_pattern cannot be folded")
    a = Rx.from_pattern(text, flags=flags)
    b = Rx.from_pattern("\\\\(?:[\\x00-\\xff]|[\\u0100-\\U0010ffff])")
    w = a.difference_witness(b)
    ck.ob("C43.re-unescape", None, pat, w is None, "the escape pattern denotes a backslash followed by ANY character, newline included (re.escape escapes '\\n')%s" % ("" if w is None else " — differs on %r (%s)" % w), construct="_re_unescape_pattern", file=UT)
    ru = ck.func(UT, "re_unescape")
    subs = [c for c in q.calls(ru.node) if q.dotted(c.func) == "_re_unescape_pattern.sub"]
    if not subs:
        raise AnalysisError("re_unescape does not call _re_unescape_pattern.sub (unknown idiom)")
    ck.ob("C43.re-unescape", ru, ru.node, len(subs) == 1 and len(subs[0].args) == 2 and q.dotted(subs[0].args[1]) == ru.params()[0], "re_unescape substitutes every escape in the whole argument", construct="pattern.sub(repl, s)")
    rr = ck.func(UT, "_re_unescape_replacement")
    rets = [r for r in q.walk_body(rr.node) if isinstance(r, ast.Return)]
    okr = bool(rets)
    for r in rets:
        v = r.value
        b2 = _unique_binding(rr, v.id) if isinstance(v, ast.Name) else v
        okr = okr and isinstance(b2, ast.Call) and q.call_attr(b2) == "group" and b2.args and q.is_const(b2.args[0], 1)
    ck.ob("C43.re-unescape", rr, rr.node, okr, "an escape sequence is replaced by the escaped character itself (group 1)", construct="replacement returns group(1)")

    # url_concat
    uc = ck.func(HU, "url_concat")
    pq = [c for c in q.calls(uc.node) if q.call_attr(c) in ("parse_qsl", "parse_qs")]
    ck.floor("C43.url-concat", len(pq), 1, "parse_qsl calls in url_concat")
    for c in pq:
        kb = q.arg(c, 1, "keep_blank_values")
        ck.ob("C43.url-concat", uc, c, kb is not None and q.is_const(kb, True), "existing pairs with blank values are kept (keep_blank_values=True)")
    parsed = [a.targets[0].id for a in q.walk_body(uc.node) if isinstance(a, ast.Assign) and isinstance(a.value, ast.Call) and q.call_attr(a.value) in ("urlparse", "urlsplit") and isinstance(a.targets[0], ast.Name)]
    ck.need(len(parsed) == 1, "url_concat: parsed URL variable not identified")
    pu = parsed[0]
    un = [c for c in q.calls(uc.node) if q.call_attr(c) in ("urlunparse", "urlunsplit")]
    ck.floor("C43.url-concat", len(un), 1, "urlunparse calls")
    for c in un:
        tup = c.args[0] if c.args else None
        if isinstance(tup, ast.Call) and q.call_attr(tup) == "_replace":
            ck.ob("C43.url-concat", uc, c, q.dotted(tup.func.value) == pu and [k.arg for k in tup.keywords] == ["query"], "only the query component is replaced")
            continue
        elts = _seq_elems(expand(uc, tup, keep=[pu]) if tup is not None else None, pu)
        if elts is None:
            raise AnalysisError("url_concat: urlunparse argument is not a recognisable sequence of components (unknown idiom)")
        tup = ast.Tuple(elts=elts, ctx=ast.Load())
        nq = 4 if len(tup.elts) == 6 else 3
        for i, e in enumerate(tup.elts):
            if i == nq:
                continue
            ok = isinstance(e, ast.Subscript) and q.dotted(e.value) == pu and q.is_const(e.slice, i) or (isinstance(e, ast.Attribute) and q.dotted(e.value) == pu)
            ck.ob("C43.url-concat", uc, e, bool(ok), "component %d (%s) of the URL is carried over unchanged" % (i, "fragment" if i == len(tup.elts) - 1 else "scheme/netloc/path/params"[:]))
    # the query handed to urlencode is the parsed existing query, extended (not replaced) by the arguments
    enc = [c for c in q.calls(uc.node) if q.call_attr(c) == "urlencode"]
    ck.floor("C43.url-concat", len(enc), 1, "urlencode calls")
    for c in enc:
        qv = q.dotted(c.args[0]) if c.args else None
        if qv is None:
            raise AnalysisError("url_concat: urlencode argument is not a variable")
        binds = [a.value for a in q.walk_body(uc.node) if isinstance(a, ast.Assign) and qv in q.assigned_paths(a)]
        ck.ob("C43.url-concat", uc, c, bool(binds) and all(isinstance(b, ast.Call) and q.call_attr(b) in ("parse_qsl",) and b.args and pu in q.names_in(b.args[0]) for b in binds), "the new query starts from the pairs parsed out of the existing query")
        exts = [x for x in q.walk_body(uc.node) if isinstance(x, ast.Call) and isinstance(x.func, ast.Attribute) and q.dotted(x.func.value) == qv]
        from ..x_exact import derive
        for x in exts:
            if x.func.attr not in ("extend", "append", "__iadd__") or not x.args:
                raise AnalysisError("url_concat: unrecognised operation %s on the parsed query" % q.unparse(x.func))
            steps = derive(uc, x.args[0], [args_param(uc)], passthrough={"items": -1, "list": 0, "tuple": 0})
            ck.ob("C43.url-concat", uc, x, any(s_.kind == "source" and s_.note != "literal" for s_ in steps), "the arguments are appended after the existing pairs (%s.%s)" % (qv, x.func.attr))
        ck.floor("C43.url-concat", len(exts), 1, "extensions of the parsed query")

    # _encode_header: a valueless parameter is exactly v is None (0 / '' are values)
    from ..x_optint import check_truthiness
    eh = ck.func(HU, "_encode_header")
    # the rendering may live in a private helper (e.g. a generator of encoded parameters): search the callees too
    from ..x_resolve import callee as _callee
    scope = [eh.node]
    for c_ in q.calls(eh.node):
        h_ = _callee(ck.repo, eh, c_)
        if h_ is not None and h_.node is not eh.node and h_.name.startswith("_"):
            scope.append(h_.node)
            ck.use(h_)

    class _Scope:
        body = [st for fn in scope for st in fn.body]

    ehs = ast.Module(body=_Scope.body, type_ignores=[])
    gens = [(l.target, l) for fn in scope for l in q.walk_body(fn) if isinstance(l, ast.For)] + [(g.target, g) for g in ast.walk(ehs) if isinstance(g, ast.comprehension)]
    gens = [(t, l) for t, l in gens if isinstance(t, ast.Tuple) and len(t.elts) == 2 and all(isinstance(e, ast.Name) for e in t.elts)]
    if len(gens) != 1:
        raise AnalysisError("_encode_header: the loop/comprehension over the (name, value) parameters was not found")
    kname, vname = [e.id for e in gens[0][0].elts]
    for fn_ in scope:
        fi_ = eh if fn_ is eh.node else next(f for f in eh.module.funcs.values() if f.node is fn_)
        check_truthiness(ck, "C43.encode-header", fi_, extra=[vname])
    nones = [c for c in ast.walk(ehs) if isinstance(c, ast.Compare) and q.dotted(c.left) == vname and isinstance(c.ops[0], (ast.Is, ast.IsNot)) and q.is_const(c.comparators[0], None)]
    tests_on_v = [t for t in ast.walk(ehs) if isinstance(t, (ast.If, ast.IfExp)) and vname in q.names_in(t.test)]
    if not tests_on_v:
        raise AnalysisError("_encode_header: no test distinguishing valueless parameters found")
    ck.ob("C43.encode-header", eh, tests_on_v[0].test, len(nones) >= 1, "valueless parameters are recognised by 'is None'")
    tmpl = []
    for x in ast.walk(ehs):
        if isinstance(x, ast.JoinedStr) or (isinstance(x, ast.BinOp) and isinstance(x.op, ast.Mod) and isinstance(x.left, ast.Constant) and isinstance(x.left.value, str)) or (isinstance(x, ast.Call) and q.call_attr(x) == "format" and isinstance(x.func.value, ast.Constant)):
            t, holes = _template(x)
            if t is not None and {kname, vname} <= {q.dotted(h) for h in holes}:
                tmpl.append((x, t, holes))
    if not tmpl:
        raise AnalysisError("_encode_header: rendering of a valued parameter not recognised")
    for x, t, holes in tmpl:
        ck.ob("C43.encode-header", eh, x, t == "{}={}" and [q.dotted(h) for h in holes] == [kname, vname], "a valued parameter is rendered as '<name>=<value>'")
    joins = [c for c in q.calls(eh.node) if q.call_attr(c) == "join" and isinstance(c.func.value, ast.Constant)]
    if not joins:
        raise AnalysisError("_encode_header: joining of the parameters not recognised")
    for c in joins:
        ck.ob("C43.encode-header", eh, c, c.func.value.value == "; ", "parameters are separated by '; ' (what _parse_header splits on ';' and strips)")

    # format_timestamp: every broken-down time is interpreted as UTC and rendered as GMT
    ft = ck.func(HU, "format_timestamp")
    fd = [c for c in q.calls(ft.node) if q.call_attr(c) == "formatdate"]
    ck.floor("C43.timestamp", len(fd), 1, "formatdate calls")
    for c in fd:
        g = q.arg(c, 2, "usegmt")
        ck.ob("C43.timestamp", ft, c, g is not None and q.is_const(g, True), "HTTP dates are rendered with the literal 'GMT' zone (usegmt=True)")
        lt = q.arg(c, 1, "localtime")
        ck.ob("C43.timestamp", ft, c, lt is None or q.is_const(lt, False), "HTTP dates are never rendered in local time")
    conv = [c for c in q.calls(ft.node) if q.dotted(c.func) in ("calendar.timegm", "time.mktime", "time.mktime") or q.call_attr(c) in ("timegm", "mktime", "timestamp")]
    ck.floor("C43.timestamp", len(conv), 2, "time-tuple conversions")
    for c in conv:
        ck.ob("C43.timestamp", ft, c, q.call_attr(c) == "timegm", "time tuples are converted with calendar.timegm (UTC), not mktime/timestamp() (local zone for naive values)")
        a0 = c.args[0] if c.args else None
        if isinstance(a0, ast.Call) and q.call_attr(a0) in ("timetuple", "utctimetuple"):
            ck.ob("C43.timestamp", ft, a0, q.call_attr(a0) == "utctimetuple", "aware datetimes are converted to UTC before formatting (utctimetuple)")
    return 1


def _template(e):
    """Format skeleton of an f-string / %-format / str.format expression: (text with {} holes, hole expressions)."""
    if isinstance(e, ast.JoinedStr):
        out, holes = "", []
        for v in e.values:
            if isinstance(v, ast.Constant):
                out += v.value
            else:
                out += "{}"
                holes.append(v.value)
        return out, holes
    if isinstance(e, ast.BinOp) and isinstance(e.op, ast.Mod) and isinstance(e.left, ast.Constant) and isinstance(e.left.value, str):
        t = _re.sub(r"%[sdir]", "{}", e.left.value)
        return t, (list(e.right.elts) if isinstance(e.right, ast.Tuple) else [e.right])
    if isinstance(e, ast.Call) and isinstance(e.func, ast.Attribute) and e.func.attr == "format" and isinstance(e.func.value, ast.Constant):
        return _re.sub(r"\{\d*\}", "{}", e.func.value.value), list(e.args)
    return None, []


def _seq_elems(e, pu):
    """Element expressions of a tuple-valued expression built from literals, ``+`` and ``tuple(pu[:k])`` / ``pu[a:b]``
    slices of the parsed URL (a 6- or 5-tuple); None when not foldable."""
    if e is None:
        return None
    if isinstance(e, (ast.Tuple, ast.List)):
        out = []
        for x in e.elts:
            if isinstance(x, ast.Starred):
                sub = _seq_elems(x.value, pu)
                if sub is None:
                    return None
                out += sub
            else:
                out.append(x)
        return out
    if isinstance(e, ast.BinOp) and isinstance(e.op, ast.Add):
        a, b = _seq_elems(e.left, pu), _seq_elems(e.right, pu)
        return None if a is None or b is None else a + b
    if isinstance(e, ast.Call) and q.dotted(e.func) in ("tuple", "list") and len(e.args) == 1:
        return _seq_elems(e.args[0], pu)
    if isinstance(e, ast.Subscript) and q.dotted(e.value) == pu and isinstance(e.slice, ast.Slice) and e.slice.step is None:
        lo = e.slice.lower.value if isinstance(e.slice.lower, ast.Constant) else (0 if e.slice.lower is None else None)
        hi = e.slice.upper.value if isinstance(e.slice.upper, ast.Constant) else (6 if e.slice.upper is None else None)
        if isinstance(lo, int) and isinstance(hi, int) and 0 <= lo <= hi <= 6:
            return [ast.Subscript(value=ast.Name(id=pu, ctx=ast.Load()), slice=ast.Constant(value=i), ctx=ast.Load()) for i in range(lo, hi)]
    return None


def args_param(fi):
    return fi.params()[1]


def run(ck):
    from ..x_resolve import install_prepared
    install_prepared(ck, __file__)
    ck.rule("C43.rx", "each _ABNF pattern denotes exactly the RFC 9110/9112 language (automaton equivalence against an independently written reference)")
    ck.rule("C43.start-line", "start-line parsers: fullmatch of the whole line with the RFC language; groups map to fields; only after success; rejection = HTTPInputError")
    ck.rule("C43.sint", "SINT on the status code")
    ck.rule("C43.total", "_parse_header/_parseparam/parse_cookie/_unquote_cookie/_unquote_replace/split_host_and_port cannot raise (frozen table; guards dominate every index/unpack/next/int)")
    ck.rule("C43.ip", "is_valid_ip: empty and NUL rejected first, AI_NUMERICHOST, gaierror/UnicodeError answered False")
    ck.rule("C43.re-unescape", "re_unescape: pattern is backslash + any char incl. newline; whole-string sub; replacement is group 1")
    ck.rule("C43.encode-header", "_encode_header: valueless = 'is None' (not falsy); 'name=value' joined by '; '")
    ck.rule("C43.timestamp", "format_timestamp: tuples/datetimes -> calendar.timegm(UTC); formatdate(usegmt=True)")
    ck.rule("C43.url-concat", "url_concat keeps blank-valued pairs and carries scheme/netloc/path/params/fragment over")
    n = rule_rx(ck)
    ck.floor("C43.rx", n, 30, "_ABNF patterns compared")
    rule_start_lines(ck)
    n = rule_total(ck)
    ck.floor("C43.total", n, 15, "governed operations in the total helpers")
    rule_ip(ck)
    rule_misc(ck)


# ---------------------------------------------------------------------------


def _abnf(name, new_src):
    """Replace the value of _ABNF.<name> by the expression ``new_src``."""
    def edit(root):
        for st in root.body:
            if isinstance(st, ast.Assign) and isinstance(st.targets[0], ast.Name) and st.targets[0].id == name:
                st.value = parse_expr(new_src)
                return True
        return False
    return lambda repo: mutate(repo, HU, "_ABNF", edit)


def _h(qn, edit, rel=HU):
    return lambda repo: mutate(repo, rel, qn, edit)


def _src(x):
    return ast.unparse(x)


def _module_assign(rel, name, new_src):
    def edit(root):
        for st in root.body:
            if isinstance(st, ast.Assign) and isinstance(st.targets[0], ast.Name) and st.targets[0].id == name:
                st.value = parse_expr(new_src)
                return True
        return False
    return lambda repo: mutate(repo, rel, None, edit)


def _meth(frm, to):
    return replace_expr(lambda n: isinstance(n, ast.Attribute) and n.attr == frm, lambda n: ast.Attribute(value=n.value, attr=to, ctx=ast.Load()))


MUTANTS = [
    ("_encode_header: valueless parameter decided by truthiness (0 / '' lose their value)", _h("_encode_header", replace_expr(lambda n: isinstance(n, ast.Compare) and _src(n) == "v is None", lambda n: parse_expr("not v"))), "C43.encode-header"),
    ("_encode_header: parameters joined with ';' + no space is fine, but ',' breaks the round trip", _h("_encode_header", replace_expr(lambda n: isinstance(n, ast.Constant) and n.value == "; ", lambda n: ast.Constant(value=", "))), "C43.encode-header"),
    ("undo the F24 repair: int(match.group(2)) outside any ValueError handler", _h("split_host_and_port", lambda root: _unwrap_try_int(root)), "C43.total"),
    ("seeded C43-adv1: [0-9] rewritten as \\d in uri_port", _abnf("uri_port", "re.compile(r'\\d*')"), "C43.rx"),
    ("uri_pct_encoded with \\w-style hex ([0-9A-Za-z]{2})", _abnf("uri_pct_encoded", "re.compile(r'%[0-9A-Za-z]{2}')"), "C43.rx"),
    ("uri_host loses the brackets (IPv6 literals rejected)", _abnf("uri_host", "re.compile(rf'(?::|{uri_unreserved.pattern}|{uri_sub_delims.pattern}|{uri_pct_encoded.pattern})*')"), "C43.rx"),
    ("obs_text uses \\S-like class reaching above U+00FF", _abnf("obs_text", "re.compile(r'[\\x80-\\uffff]')"), "C43.rx"),
    ("format_timestamp: struct_time converted with time.mktime (local zone)", _h("format_timestamp", replace_expr(lambda n: isinstance(n, ast.Call) and q.dotted(n.func) == "calendar.timegm" and "utctimetuple" not in _src(n), lambda n: ast.Call(func=parse_expr("time.mktime"), args=n.args, keywords=[]))), "C43.timestamp"),
    ("format_timestamp: aware datetime formatted from its local timetuple()", _h("format_timestamp", replace_expr(lambda n: isinstance(n, ast.Attribute) and n.attr == "utctimetuple", lambda n: ast.Attribute(value=n.value, attr="timetuple", ctx=ast.Load()))), "C43.timestamp"),
    ("format_timestamp: usegmt dropped ('-0000' instead of 'GMT')", _h("format_timestamp", replace_expr(lambda n: isinstance(n, ast.Call) and q.call_attr(n) == "formatdate", lambda n: ast.Call(func=n.func, args=n.args, keywords=[]))), "C43.timestamp"),
    ("url_concat: dict arguments replace the existing query", _h("url_concat", replace_stmt(lambda st: isinstance(st, ast.Assign) and "parse_qsl" in _src(st), lambda st: [parse_stmt("parsed_query = []")], limit=1)), "C43.url-concat"),
    ("status_code [0-9]{3} -> [0-9]+", _abnf("status_code", "re.compile(r'[0-9]+')"), ("C43.rx", "C43.start-line", "C43.sint")),
    ("tchar admits ':'", _abnf("tchar", "re.compile(r\"[!#$%&'*+\\-.^_`|~0-9A-Za-z:]\")"), ("C43.rx", "C43.start-line")),
    ("HTTP_version with unescaped dot", _abnf("HTTP_version", "re.compile(r'HTTP/[0-9].[0-9]')"), ("C43.rx", "C43.start-line")),
    ("HTTP_version uses \\d (non-ASCII digits)", _abnf("HTTP_version", "re.compile(r'HTTP/\\d\\.\\d')"), ("C43.rx", "C43.start-line")),
    ("reason_phrase loses obs-text", _abnf("reason_phrase", "re.compile(rf'(?:[\\t ]|{VCHAR.pattern})+')"), ("C43.rx", "C43.start-line")),
    ("field_value allows trailing whitespace", _abnf("field_value", "re.compile(rf'(?:{field_vchar.pattern}(?:{field_vchar.pattern}| |\\t)*)?')"), "C43.rx"),
    ("request_target admits DEL (0x7f)", _abnf("request_target", "re.compile(r'[\\x21-\\xFF]+')"), ("C43.rx", "C43.start-line")),
    ("status_line: reason and its preceding space optional together", _abnf("status_line", "re.compile(rf'({HTTP_version.pattern}) ({status_code.pattern})(?: ({reason_phrase.pattern}))?')"), ("C43.rx", "C43.start-line")),
    ("parse_request_start_line: fullmatch -> match", _h("parse_request_start_line", _meth("fullmatch", "match")), "C43.start-line"),
    ("parse_response_start_line: fullmatch -> match (trailing garbage accepted)", _h("parse_response_start_line", _meth("fullmatch", "match")), "C43.start-line"),
    ("parse_request_start_line: line stripped before matching", _h("parse_request_start_line", replace_expr(lambda n: isinstance(n, ast.Call) and q.call_attr(n) == "fullmatch", lambda n: ast.Call(func=n.func, args=[parse_expr("line.strip()")], keywords=[]))), "C43.start-line"),
    ("parse_request_start_line: method and version groups swapped", _h("parse_request_start_line", lambda root: _swap_groups(root)), "C43.start-line"),
    ("parse_response_start_line: malformed line raises ValueError", _h("parse_response_start_line", replace_expr(lambda n: isinstance(n, ast.Call) and q.dotted(n.func) == "HTTPInputError" and "Error parsing" in _src(n), lambda n: parse_expr("ValueError('Error parsing response start line')"))), "C43.start-line"),
    ("parse_cookie: '=' test dropped before the 2-way unpack", _h("parse_cookie", replace_stmt(lambda st: isinstance(st, ast.If) and "'=' in chunk" in _src(st.test), lambda st: st.body)), "C43.total"),
    ("_unquote_cookie: length guard dropped", _h("_unquote_cookie", remove_stmts(lambda st: isinstance(st, ast.If) and "len(s) < 2" in _src(st.test))), "C43.total"),
    ("_parse_header: quote stripping without the length guard", _h("_parse_header", replace_expr(lambda n: isinstance(n, ast.BoolOp) and "len(value) >= 2" in _src(n), lambda n: ast.BoolOp(op=ast.And(), values=n.values[1:]))), "C43.total"),
    ("_parse_header: _parseparam called without the ';' prefix (StopIteration on '')", _h("_parse_header", replace_expr(lambda n: isinstance(n, ast.BinOp) and isinstance(n.left, ast.Constant) and n.left.value == ";", lambda n: n.right)), "C43.total"),
    ("_unquote_sub: octal escape up to \\777 (chr fine, but 4-digit variant overflows) -> [0-7]{3,}", _module_assign(HU, "_unquote_sub", "re.compile(r'\\\\(?:([0-7]{3,})|(.))').sub"), "C43.total"),
    ("split_host_and_port: raises on a missing port", _h("split_host_and_port", replace_stmt(lambda st: isinstance(st, ast.Assign) and "netloc" in _src(st.value) and "host" in _src(st.targets[0]) and not isinstance(st.value, ast.Call), lambda st: [parse_stmt("raise ValueError('no port in %r' % netloc)")])), "C43.total"),
    ("seeded C43-adv3: is_valid_ip rejects everything longer than 39 characters (IPv4-mapped full forms are 45)", _h("is_valid_ip", lambda root: _add_len_guard(root, 39), NU), "C43.ip"),
    ("is_valid_ip: NUL test dropped", _h("is_valid_ip", replace_expr(lambda n: isinstance(n, ast.BoolOp) and "x00" in _src(n), lambda n: n.values[0]), NU), "C43.ip"),
    ("is_valid_ip: empty-string test dropped", _h("is_valid_ip", replace_expr(lambda n: isinstance(n, ast.BoolOp) and "x00" in _src(n), lambda n: n.values[1]), NU), "C43.ip"),
    ("is_valid_ip: AI_NUMERICHOST dropped (host names resolve and are accepted)", _h("is_valid_ip", replace_expr(lambda n: isinstance(n, ast.Attribute) and n.attr == "AI_NUMERICHOST", lambda n: ast.Constant(value=0)), NU), "C43.ip"),
    ("is_valid_ip: UnicodeError handler removed (long input raises)", _h("is_valid_ip", lambda root: _drop_handler(root, "UnicodeError"), NU), "C43.ip"),
    ("re_unescape: DOTALL dropped (escaped newline not unescaped)", _module_assign(UT, "_re_unescape_pattern", "re.compile(r'\\\\(.)')"), "C43.re-unescape"),
    ("url_concat: blank-valued pairs dropped", _h("url_concat", replace_expr(lambda n: isinstance(n, ast.Constant) and n.value is True, lambda n: ast.Constant(value=False), limit=2)), "C43.url-concat"),
    ("url_concat: fragment dropped", _h("url_concat", replace_expr(lambda n: isinstance(n, ast.Subscript) and _src(n) == "parsed_url[5]", lambda n: ast.Constant(value=""))), "C43.url-concat"),
]


def _swap_groups(root):
    cs = [n for n in ast.walk(root) if isinstance(n, ast.Constant) and n.value in (1, 3) and True]
    gs = [n for n in ast.walk(root) if isinstance(n, ast.Call) and isinstance(n.func, ast.Attribute) and n.func.attr == "group"]
    done = 0
    for g in gs:
        if g.args and isinstance(g.args[0], ast.Constant) and g.args[0].value in (1, 3):
            g.args[0] = ast.Constant(value=4 - g.args[0].value)
            done += 1
    return done == 2


def _drop_handler(root, name):
    for node in ast.walk(root):
        if isinstance(node, ast.Try):
            for h in list(node.handlers):
                if h.type is not None and name in _src(h.type):
                    node.handlers.remove(h)
                    return True
    return False


def _unwrap_try_int(root):
    for node in ast.walk(root):
        for fld in ("body", "orelse"):
            body = getattr(node, fld, None)
            if isinstance(body, list):
                for i, st in enumerate(body):
                    if isinstance(st, ast.Try) and "int(" in _src(st):
                        body[i:i + 1] = st.body
                        return True
    return False


def _add_len_guard(root, n):
    i = 0
    if root.body and isinstance(root.body[0], ast.Expr) and isinstance(root.body[0].value, ast.Constant):
        i = 1
    root.body.insert(i + 1, parse_stmt("if len(ip) > %d:\n    return False" % n))
    return True
