"""C29 — gzip output encoding is transparent to the client.

Decided statically:

* an exhaustive case analysis (partial evaluation of the CFG) of
  ``GZipContentEncoding.transform_first_chunk`` over the valuation space
  (request accepted gzip x finishing x {Vary, Content-Length, Content-Encoding}
  present x compressible type x size): ``Vary: Accept-Encoding`` on every path;
  compression is on at exit only if the request asked for gzip, the type is
  compressible and no encoding was present; ``Content-Encoding: gzip`` is set
  exactly when compression is on; the first chunk is then compressed and
  returned; a Content-Length that survives was recomputed from the compressed
  chunk of a finishing flush, otherwise it is removed; when compression is off
  nothing about length/encoding is touched;
* ``transform_chunk``: when compressing, write -> close (iff finishing) /
  flush -> getvalue -> truncate+seek; identity otherwise;
* ``__init__`` derives the flag from the request's Accept-Encoding, nothing
  else ever turns it on; ``_compressible_type`` depends on the type;
* ``RequestHandler.flush`` runs every transform over the chunk that is written
  and forwards its finishing flag; only ``finish`` flushes with the flag set,
  and it always does.

Not decided: that the gzip stream decodes to the bytes written (zlib),
behaviour of application-defined transforms.
"""
from __future__ import annotations

import ast
import itertools

from .. import q
from ..cfg import explore
from ..rules import call_sites, node_calls
from ..mutate import mutate, remove_stmts, replace_expr, replace_stmt, parse_stmt, parse_expr
from ..model import AnalysisError
from ..x_taint import flow_taint, expr_tainted
from ..x_flow import expand_locals
from ..x_sites import method_calls
from ..x_peval import UNK, make_resolver, pure_self_methods, module_constants, class_constants, peval, try_fold

from ..x_http import norm_func
from ..x_objalias import subst_object_aliases, inline_constants, through_local

# private helpers that the rules model by name (sanitisers / summarised effects) and therefore must stay calls
KEEP_CALLS = {"_format_chunk", "_convert_header_value", "_clear_representation_headers", "_can_keep_alive",
              "_on_write_complete", "_finish_request", "_clear_callbacks"}


def F(ck, relpath, qualname):
    """The anchored function with its private same-file helpers inlined (function splitting is followed, depth 3)."""
    fi = ck.func(relpath, qualname)
    try:
        return inline_constants(subst_object_aliases(norm_func(ck.repo, fi, depth=3, no_inline=KEEP_CALLS)))
    except AnalysisError:
        raise
    except Exception as e:  # the normaliser must never turn into a verdict
        raise AnalysisError("cannot normalise %s: %r" % (qualname, e))


def fully_inlined(fi, keep=()):
    """No call of a private method of ``self`` is left in the normalised function (other than the ones the rules
    model by name): only then may the *absence* of an effect be reported as a violation."""
    for c in q.calls(fi.node):
        if isinstance(c.func, ast.Attribute) and q.dotted(c.func.value) in ("self", "cls") and c.func.attr.startswith("_") and not c.func.attr.startswith("__") and c.func.attr not in KEEP_CALLS and c.func.attr not in keep:
            return False
    return True


def absent(fi, what, keep=()):
    """Verdict for 'the required effect was not found': False (a violation) only when the function was fully
    recognised; otherwise the analysis fails closed."""
    if not fully_inlined(fi, keep):
        raise AnalysisError("%s: %s not found, and private helpers remain that could not be inlined" % (fi.qualname, what))
    return False


def OB(ck, env, rule, fi, node, ok, what, construct=None):
    """ck.ob for verdicts derived from a partial evaluation: a failing verdict reached through a test that involves a
    fixed input but could not be decided is not positive evidence — fail closed instead of reporting it."""
    if not ok and env is not None and env.get("@partial"):
        raise AnalysisError("%s: not decidable here - the evaluation went through the test '%s', which involves a fixed input but could not be folded" % (fi.qualname, env["@partial"]))
    return ck.ob(rule, fi, node, ok, what, construct=construct)


TECHNIQUE = "partial evaluation of the transform's CFG over the full valuation space + call-sequence typestate + who-may-write / who-may-call"
EXPLANATION = (
    "GZipContentEncoding.transform_first_chunk is partially evaluated for all 128 valuations of (gzip accepted, finishing, header presence, "
    "compressible, size); the header/flag state at every normal exit is compared with the property's clauses.  transform_chunk is evaluated "
    "for the 4 (gzipping, finishing) cases and the sequence of calls on the GzipFile/BytesIO pair is checked.  flush/finish call sites are checked structurally."
)
NOT_DECIDED = "which media types count as compressible beyond the probes used (text/* must be allowed to compress; image/png, application/zip, application/octet-stream, video/mp4 must not): the property does not enumerate the set and tornado's whitelist CONTENT_TYPES is a tunable class attribute, so widening it (e.g. a generic '+xml' rule, red-team C29-adv4) changes which responses are compressed but not the transparency of the encoding and is not reported; equality of the decoded body with the bytes written (the deflate stream itself is zlib's); output transforms other than GZipContentEncoding"
LEVEL_NOTE = "HTTPHeaders modelled as the set of names present; GzipFile/BytesIO semantics from the CPython documentation"

WEB = "tornado/web.py"
GZ = "GZipContentEncoding"
FLAG = "self._gzipping"
GZ_MARK = b"\x1f\x8b" + b"z" * 11  # stands for the compressed first chunk (13 bytes, unlike any probe length)
RH = "RequestHandler"


def self_writes(fi):
    out = set()
    for n in q.walk_body(fi.node):
        if isinstance(n, (ast.Assign, ast.AugAssign, ast.AnnAssign, ast.Delete)):
            for p in q.assigned_paths(n):
                if p.startswith("self."):
                    out.add(p.split(".")[1].rstrip("[]"))
    return out


def check_first_chunk(ck):
    fi = F(ck, WEB, GZ + ".transform_first_chunk")
    ps = fi.params()
    if len(ps) != 5:
        raise AnalysisError("transform_first_chunk signature changed: %s" % ps)
    _self, status, hd, chunk, fin = ps
    tc = F(ck, WEB, GZ + ".transform_chunk")
    if "_gzipping" in self_writes(tc):
        raise AnalysisError("transform_chunk stores to the compression flag; not modelled")
    try:
        min_len = q.fold(ck.repo.class_attr(WEB, GZ, "MIN_LENGTH"), {})
    except (q.NotFoldable, AnalysisError):
        min_len = UNK
    try:
        whitelist = q.fold(ck.repo.class_attr(WEB, GZ, "CONTENT_TYPES"), {})
        whitelist = frozenset(whitelist) if isinstance(whitelist, (tuple, frozenset)) else UNK
    except (q.NotFoldable, AnalysisError):
        whitelist = UNK
    # every class-level constant of the transform is available to the evaluation as self.<NAME> (a refactoring may
    # move a literal there, or add a table next to CONTENT_TYPES)
    class_consts = module_constants(fi)
    class_consts.update(class_constants(ck.repo, WEB, GZ))
    # Content types used as probes.  The property does not enumerate the compressible set (tornado's whitelist is a
    # tunable class attribute); what it does fix is that opaque, already-compressed media are not compressible.
    PROBES = [("text/html; charset=UTF-8", True), ("image/png", False), ("application/zip", False), ("application/octet-stream; x=1", False), ("video/mp4", False)]
    # membership in the transform's own whitelist is decided on the exact media type: a type that merely starts or ends
    # with a listed one (application/json-seq, x-application/json) is a different type and not declared compressible
    if isinstance(whitelist, frozenset):
        listed = sorted(w for w in whitelist if isinstance(w, str))
        for w in listed[:3]:
            for probe in (w + "-seq", "x-" + w):
                if probe not in whitelist and not probe.startswith("text/"):
                    PROBES.append((probe, False))
    len_key = "call:len(%s)" % chunk

    def hook(n, env):
        if n.kind != "stmt":
            return None
        st = n.ast
        if isinstance(st, (ast.Assign, ast.AugAssign)):
            tgts = st.targets if isinstance(st, ast.Assign) else [st.target]
            for t in tgts:
                if isinstance(t, ast.Subscript) and q.dotted(t.value) == hd and isinstance(t.slice, ast.Constant):
                    key = t.slice.value
                    v = st.value
                    if key == "Vary":
                        env2 = dict(env)
                        env2["%s[%r]" % (hd, "Vary")] = "<previous>"
                        val = try_fold(v, env2, None)
                        if isinstance(st, ast.AugAssign) and isinstance(val, str):
                            val = ("<previous>" + val) if isinstance(st.op, ast.Add) else None
                        if isinstance(val, str):
                            env["@vary"] = "Accept-Encoding" in [tok.strip() for tok in val.split(",")]
                        else:
                            env["@vary"] = "?"
                    elif key == "Content-Encoding":
                        env["@ce"] = v.value if isinstance(v, ast.Constant) else "?"
                    elif key == "Content-Length":
                        # the compressed chunk is a marker of known length: the value stored must be that length
                        val = try_fold(v, env)
                        if val is UNK:
                            env["@cl"] = "?"
                        else:
                            env["@cl"] = "recomputed" if (env.get("@transformed") is True and str(val) == str(len(GZ_MARK))) else "stale"
            if isinstance(st, ast.Assign) and q.is_call(st.value, "self.transform_chunk"):
                c = st.value
                a_chunk, a_fin = q.arg(c, 0, "chunk"), q.arg(c, 1, "finishing")
                ok_args = a_chunk is not None and a_fin is not None and q.dotted(a_chunk) == chunk and q.dotted(a_fin) == fin
                names = [t.id for t in st.targets if isinstance(t, ast.Name)]
                if ok_args and names and env.get(FLAG) is True:
                    env["@transformed"] = True
                    env["@chunkvar"] = names[0]
                    env[len_key] = UNK
                    env["call:" + q.unparse(c)] = GZ_MARK  # what transform_chunk returns: "the compressed bytes"
                else:
                    env["@transformed"] = "bad-call"
            elif isinstance(st, ast.Assign) and any(isinstance(t, ast.Name) and t.id == env.get("@chunkvar") for t in st.targets):
                env["@transformed"] = False
        elif isinstance(st, ast.Delete):
            pass
        elif isinstance(st, ast.Return):
            v = st.value
            if isinstance(v, ast.Tuple) and len(v.elts) == 3:
                env["@ret"] = (q.dotted(v.elts[0]), q.dotted(v.elts[1]), q.dotted(v.elts[2]))
            else:
                env["@ret"] = "?"
        return None

    resolver = make_resolver(ck.repo, WEB, GZ)
    ksm = {m: None for m in pure_self_methods(ck.repo, WEB, GZ)}
    ksm.update({"transform_chunk": None})
    n_val = 0
    names = ("Vary", "Content-Length", "Content-Encoding")
    for (gz_in, finishing, big), (ctype_probe, compressible) in itertools.product(itertools.product((False, True), repeat=3), PROBES):
        for present in itertools.product((False, True), repeat=3):
            hin = frozenset(nm for nm, p in zip(names, present) if p) | {"Content-Type"}
            init = dict(class_consts)
            init.update({FLAG: gz_in, fin: finishing, hd: hin, "%s[%r]" % (hd, "Content-Type"): ctype_probe, "self.CONTENT_TYPES": whitelist, len_key: (10 ** 6 if big else 0), "self.MIN_LENGTH": min_len,
                    "@vary": None, "@ce": None, "@cl": None, "@transformed": False, "@chunkvar": chunk, "@ret": None, "@resolve": resolver})
            states = peval(fi.cfg, init, hook=hook, known_self_methods=ksm, track=lambda t: True)
            exits = states.get(fi.cfg.exit.id, [])
            if not exits:
                raise AnalysisError("transform_first_chunk has no normal exit")
            n_val += 1
            label = "accepts_gzip=%s finishing=%s content_type=%r large=%s headers_in={%s}" % (gz_in, finishing, ctype_probe, big, ",".join(sorted(hin - {"Content-Type"})))
            seen = set()
            for _f, env in exits:
                gz = env.get(FLAG, UNK)
                hout = env.get(hd, UNK)
                if gz is UNK or not isinstance(hout, frozenset):
                    raise AnalysisError("transform_first_chunk: flag/headers not determined at exit under " + label)
                gz = bool(gz)
                if env.get("@cl") == "?":
                    raise AnalysisError("transform_first_chunk: the value stored in Content-Length cannot be evaluated under " + label)
                if env.get("@vary") == "?":
                    raise AnalysisError("transform_first_chunk: the value stored in Vary cannot be evaluated statically under " + label)
                key = (gz, hout, env.get("@vary"), env.get("@ce"), env.get("@cl"), env.get("@transformed"), env.get("@ret"), env.get("@chunkvar"))
                if key in seen:
                    continue
                seen.add(key)
                desc = "%s -> gzipping=%s headers_out={%s}" % (label, gz, ",".join(sorted(hout)))
                OB(ck, env, "C29.vary", fi, fi.node, "Vary" in hout and env.get("@vary") is True, "Vary includes Accept-Encoding on every path: " + desc, construct="Vary: Accept-Encoding not set (gzipping=%s)" % gz)
                allowed = gz_in and compressible and "Content-Encoding" not in hin
                OB(ck, env, "C29.only-when-allowed", fi, fi.node, (not gz) or allowed, "compression is on only if the request accepted gzip, the type is not opaque/already-compressed media and no Content-Encoding was set: " + desc,
                      construct="compressing although accepts_gzip=%s content_type=%s encoding_present=%s" % (gz_in, ctype_probe.split(";")[0], "Content-Encoding" in hin))
                OB(ck, env, "C29.only-when-allowed", fi, fi.node, not (gz and finishing and not big), "an empty single-flush body (304/204/HEAD-style responses) is never turned into a non-empty gzip body: " + desc,
                      construct="compressing an empty final body")
                ce_ok = (env.get("@ce") == "gzip" and "Content-Encoding" in hout) if gz else (env.get("@ce") is None and (("Content-Encoding" in hout) == ("Content-Encoding" in hin)))
                OB(ck, env, "C29.encoding-header", fi, fi.node, ce_ok, "Content-Encoding: gzip is set exactly when the body is compressed: " + desc, construct="gzipping=%s but Content-Encoding set=%s" % (gz, env.get("@ce")))
                ret = env.get("@ret")
                ret_ok = isinstance(ret, tuple) and ret[0] == status and ret[1] == hd and ret[2] == env.get("@chunkvar")
                if gz:
                    OB(ck, env, "C29.first-chunk", fi, fi.node, env.get("@transformed") is True and ret_ok, "when compressing, the first chunk goes through transform_chunk(chunk, finishing) and that result is returned: " + desc,
                          construct="first chunk not compressed/returned (transformed=%s)" % env.get("@transformed"))
                    cl_out = "Content-Length" in hout
                    if cl_out:
                        OB(ck, env, "C29.content-length", fi, fi.node, finishing and env.get("@cl") == "recomputed", "a Content-Length kept on a compressed response was recomputed from the compressed chunk of a finishing flush: " + desc,
                              construct="compressed response keeps Content-Length (finishing=%s, %s)" % (finishing, env.get("@cl") or "untouched"))
                    else:
                        OB(ck, env, "C29.content-length", fi, fi.node, True, "no Content-Length on the compressed response (falls back to chunked/close): " + desc)
                else:
                    same = ("Content-Length" in hout) == ("Content-Length" in hin) and env.get("@cl") is None
                    OB(ck, env, "C29.content-length", fi, fi.node, same and ret_ok and env.get("@transformed") is False, "when not compressing, chunk and Content-Length pass through untouched: " + desc,
                          construct="uncompressed response altered (Content-Length %s, transformed=%s)" % (env.get("@cl") or ("kept" if same else "changed"), env.get("@transformed")))
    ck.floor("C29.vary", n_val, 128, "valuations of transform_first_chunk")


def check_transform_chunk(ck):
    fi = F(ck, WEB, GZ + ".transform_chunk")
    ps = fi.params()
    if len(ps) != 3:
        raise AnalysisError("transform_chunk signature changed")
    _s, chunk, fin = ps

    def hook(n, env):
        if n.kind == "stmt":
            for c in q.calls(n.ast):
                if isinstance(c.func, ast.Attribute):
                    r = q.dotted(c.func.value)
                    if r in ("self._gzip_file", "self._gzip_value"):
                        arg = None
                        if c.args:
                            arg = q.dotted(c.args[0]) or try_fold(c.args[0], {}, "?")
                        env["@seq"] = env.get("@seq", ()) + ((r.split("_")[-1], c.func.attr, arg),)
            if isinstance(n.ast, ast.Assign) and any(isinstance(t, ast.Name) for t in n.ast.targets):
                v = n.ast.value
                for t in n.ast.targets:
                    if isinstance(t, ast.Name):
                        # what the local holds: the buffer content, the untouched parameter (directly or through
                        # another such local), or something else
                        if q.is_call(v, "self._gzip_value.getvalue"):
                            env["@def:" + t.id] = "buffer"
                        elif isinstance(v, ast.Name) and (v.id == chunk or env.get("@def:" + v.id) == "param") and t.id != chunk:
                            env["@def:" + t.id] = "param"
                        else:
                            env["@def:" + t.id] = "other"
            if isinstance(n.ast, ast.Return):
                env["@ret"] = q.dotted(n.ast.value) if n.ast.value is not None else None
        return None

    for gz in (False, True):
        for finishing in (False, True):
            init = module_constants(fi)
            init.update(class_constants(ck.repo, WEB, GZ))
            init.update({FLAG: gz, fin: finishing, "@seq": (), "@ret": None})
            states = peval(fi.cfg, init, hook=hook, track=lambda t: True, pure_methods=("getvalue",))
            exits = states.get(fi.cfg.exit.id, [])
            if not exits:
                raise AnalysisError("transform_chunk has no normal exit")
            label = "gzipping=%s finishing=%s" % (gz, finishing)
            for seq, ret, rdef, empty, partial in sorted({(env.get("@seq"), env.get("@ret"), env.get("@def:%s" % env.get("@ret")), (chunk, False) in _f, env.get("@partial")) for _f, env in exits}, key=repr):
                env = {"@partial": partial}
                calls = [(o, m) for o, m, _a in seq]
                unchanged = (ret == chunk and rdef is None) or rdef == "param"  # the parameter itself, possibly via a result variable
                if gz and not finishing and empty and seq == () and unchanged:
                    OB(ck, env, "C29.stream-discipline", fi, fi.node, True, "an empty, non-final chunk may be passed through without touching the stream (%s)" % label)
                    continue
                if not gz:
                    OB(ck, env, "C29.stream-discipline", fi, fi.node, seq == () and unchanged, "not compressing: the chunk is returned unchanged and the gzip objects are not touched (%s)" % label,
                          construct="identity broken: calls=%s" % (calls,))
                    continue
                want_end = ("file", "close") if finishing else ("file", "flush")
                other_end = ("file", "flush") if finishing else ("file", "close")
                ok = (
                    len(seq) >= 3 and seq[0] == ("file", "write", chunk) and calls.count(("file", "write")) == 1
                    and want_end in calls and (finishing or other_end not in calls) and calls.count(("file", "close")) <= 1
                    and ("value", "getvalue") in calls
                    and calls.index(("file", "write")) < calls.index(want_end) < calls.index(("value", "getvalue"))
                )
                OB(ck, env, "C29.stream-discipline", fi, fi.node, ok, "compressing: write(chunk), then %s, then read the buffer (%s; calls=%s)" % ("close() because this is the last chunk" if finishing else "flush() and never close() before the last chunk", label, calls),
                      construct="write/%s/getvalue order broken: %s %s" % (want_end[1], label, calls))
                gv = calls.index(("value", "getvalue")) if ("value", "getvalue") in calls else -1
                after = seq[gv + 1:] if gv >= 0 else ()
                reset = ("value", "truncate", 0) in after and ("value", "seek", 0) in after
                if not reset and ("value", "seek", 0) in after and ("value", "truncate", None) in after:
                    reset = after.index(("value", "seek", 0)) < after.index(("value", "truncate", None))  # truncate() at position 0
                OB(ck, env, "C29.stream-discipline", fi, fi.node, reset, "the buffer is emptied (truncate(0), seek(0)) after it was read, so no compressed byte is sent twice (%s)" % label, construct="buffer not reset after getvalue: %s" % label)
                OB(ck, env, "C29.stream-discipline", fi, fi.node, ret is not None and rdef == "buffer", "the compressed bytes read from the buffer are what is returned (%s)" % label, construct="returned value is not the buffer content: %s" % label)


def check_flag_sources(ck):
    init = F(ck, WEB, GZ + ".__init__")
    req = [p for p in init.params() if p != "self"]
    if not req:
        raise AnalysisError("GZipContentEncoding.__init__ lost its request parameter")
    reads = [c for c in q.calls(init.node) if isinstance(c.func, ast.Attribute) and c.func.attr == "get" and q.dotted(c.func.value) == "%s.headers" % req[0]
             and isinstance(q.arg(c, 0), ast.Constant) and q.arg(c, 0).value == "Accept-Encoding"]
    others = [c for c in q.calls(init.node) if isinstance(c.func, ast.Attribute) and (q.dotted(c.func.value) or "").startswith(req[0] + ".") and c not in reads]
    wrong_header = [c for c in others if isinstance(c.func, ast.Attribute) and c.func.attr == "get" and q.dotted(c.func.value) == "%s.headers" % req[0] and isinstance(q.arg(c, 0), ast.Constant)]
    if not reads and wrong_header and len(wrong_header) == len(others) and fully_inlined(init):
        ck.ob("C29.only-when-allowed", init, wrong_header[0], False, "the transform consults the request's Accept-Encoding header (it reads %r instead)" % q.arg(wrong_header[0], 0).value, construct="decision taken from another request header")
    elif not reads:
        if others or not fully_inlined(init):
            raise AnalysisError("GZipContentEncoding.__init__: the request's Accept-Encoding is not read through %s.headers.get('Accept-Encoding', ..): unknown idiom" % req[0])
        ck.ob("C29.only-when-allowed", init, init.node, False, "the transform consults the request's Accept-Encoding header", construct="Accept-Encoding not consulted")
    else:
        key = "call:" + q.unparse(reads[0])
        base = module_constants(init)
        base.update(class_constants(ck.repo, WEB, GZ))
        for accept, want in (("gzip, deflate", True), ("br, gzip;q=0.5", True), ("identity", False), ("deflate, br", False), ("", False), ("*", False), ("identity;q=1, *;q=0.1", False)):
            env0 = dict(base)
            env0[key] = accept
            states = peval(init.cfg, env0, track=lambda t: True)
            for _f, env in states.get(init.cfg.exit.id, []):
                got = env.get(FLAG, UNK)
                if got is UNK:
                    raise AnalysisError("GZipContentEncoding.__init__: the initial compression flag cannot be evaluated for Accept-Encoding %r" % accept)
                OB(ck, env, "C29.only-when-allowed", init, init.node, (not bool(got)) or want, "the transform starts enabled only when the request's Accept-Encoding mentions gzip (Accept-Encoding: %r -> %s)" % (accept, bool(got)),
                   construct="initial flag %s for Accept-Encoding %r" % (bool(got), accept.split(",")[0]))
    for fi in ck.repo.direct_methods(WEB, GZ):
        if fi.name in ("__init__", "transform_first_chunk"):
            continue
        for st in q.stores_to(fi.node, FLAG):
            ck.ob("C29.only-when-allowed", fi, st, False, "only __init__ and transform_first_chunk decide whether to compress")
    # (whether the compressibility test really depends on the content type is decided by the content-type probes of
    # transform_first_chunk — a syntactic look at _compressible_type's return expressions adds nothing and is brittle)


def check_application(ck):
    fl = F(ck, WEB, RH + ".flush")
    ps = fl.params()
    if len(ps) < 2:
        raise AnalysisError("flush lost its include_footers parameter")
    footers = ps[1]
    cfg = fl.cfg
    WB = "self._write_buffer"
    loops = cfg.stmt_nodes(lambda n: n.kind == "for" and q.dotted(expand_locals(fl, n.ast.iter)) == "self._transforms")
    tcalls = [(n, c) for n, c in cfg.find(lambda x: isinstance(x, ast.Call) and isinstance(x.func, ast.Attribute) and x.func.attr in ("transform_first_chunk", "transform_chunk"))]
    first_ids, later_ids = set(), set()
    buf = flow_taint(fl, [WB])
    for node, c in tcalls:
        first = c.func.attr == "transform_first_chunk"
        owner = None
        for l in loops:
            tv = l.ast.target.id if isinstance(l.ast.target, ast.Name) else None
            if tv and q.dotted(c.func.value) == tv and any(c is x for st in l.ast.body for x in ast.walk(st)):
                owner = l
        if owner is None:
            raise AnalysisError("RequestHandler.flush applies %s outside a 'for t in self._transforms' loop: unknown idiom" % c.func.attr)
        (first_ids if first else later_ids).add(owner.id)
        fin_arg = q.arg(c, 3 if first else 1, "finishing")
        if fin_arg is None or q.arg(c, 2 if first else 0, "chunk") is None:
            raise AnalysisError("RequestHandler.flush: arguments of %s not recognised" % c.func.attr)
        ck.ob("C29.transform-applied", fl, c, fin_arg is not None and q.dotted(expand_locals(fl, fin_arg)) == footers, "the transform is told whether this is the finishing flush (%s)" % footers)
        chunk_arg = q.arg(c, 2 if first else 0, "chunk")
        fed = chunk_arg is not None and any(expr_tainted(chunk_arg, t) for t in buf.get(node.id, []))
        ck.ob("C29.transform-applied", fl, c, fed, "the transform is given the pending output (data taken from the write buffer, possibly already transformed)")
        if first:
            h = q.arg(c, 1, "headers")
            ck.ob("C29.transform-applied", fl, c, h is not None and q.dotted(expand_locals(fl, h)) == "self._headers", "the transform edits the handler's header set")

    def transfer(n, val):
        f, l = val
        if n.id in first_ids:
            f = True
        if n.id in later_ids:
            l = True
        return (f, l)

    seen = explore(cfg, (False, False), transfer, lambda t: False, follow_exc=False)
    out_first = flow_taint(fl, [], source_calls=(".transform_first_chunk",))
    out_later = flow_taint(fl, [], source_calls=(".transform_chunk",))
    wh = method_calls(fl, "write_headers", "self.request.connection")
    w = method_calls(fl, "write", "self.request.connection")
    if not wh or not w:
        raise AnalysisError("RequestHandler.flush: connection.write_headers / connection.write call sites not found")
    for node, c in wh:
        for _f, (f, l) in seen.get(node.id, ()):
            ck.ob("C29.transform-applied", fl, c, f, "the header block and first chunk are written only after every transform saw them", construct="write_headers before transform_first_chunk")
        a = q.arg(c, 2, "chunk")
        ck.ob("C29.transform-applied", fl, c, a is not None and any(expr_tainted(a, t, (), (".transform_first_chunk",)) for t in out_first.get(node.id, [])), "the first chunk written is the output of the transforms",
              construct="first chunk written is not the transform output")
        h = q.arg(c, 1, "headers")
        ck.ob("C29.transform-applied", fl, c, h is not None and q.dotted(expand_locals(fl, h)) == "self._headers", "the header set written is the one the transforms edited")
    for node, c in w:
        for _f, (f, l) in seen.get(node.id, ()):
            ck.ob("C29.transform-applied", fl, c, l, "later chunks are written only after every transform processed them", construct="write before transform_chunk")
        a = q.arg(c, 0, "chunk")
        ck.ob("C29.transform-applied", fl, c, a is not None and any(expr_tainted(a, t, (), (".transform_chunk",)) for t in out_later.get(node.id, [])), "the chunk written is the output of the transforms",
              construct="later chunk written is not the transform output")
    # who flushes with the finishing flag
    fin = F(ck, WEB, RH + ".finish")
    n_true = 0
    for fi in ck.repo.module(WEB).funcs.values():
        for c in q.calls(fi.node):
            if isinstance(c.func, ast.Attribute) and c.func.attr == "flush" and q.dotted(c.func.value) in ("self", "handler", "self.handler"):
                a = q.arg(c, 0, "include_footers")
                if a is None:
                    continue
                val = try_fold(a, {}, "?")
                if val is False:
                    continue
                n_true += 1
                ck.ob("C29.finishing-flag", fi, c, fi.qualname == fin.qualname and fi.file == fin.file and val is True, "only RequestHandler.finish flushes with the finishing flag set")
    fcalls = call_sites(fin, "self.flush")
    ck.floor("C29.finishing-flag", len(fcalls), 1, "flush calls in finish")
    for _n, c in fcalls:
        a = q.arg(c, 0, "include_footers")
        ck.ob("C29.finishing-flag", fin, c, a is not None and try_fold(a, {}, "?") is True, "finish() flushes with the finishing flag, so the gzip stream is closed")


def run(ck):
    ck.rule("C29.vary", "transform_first_chunk: Vary includes Accept-Encoding at every normal exit, for every valuation")
    ck.rule("C29.only-when-allowed", "compression is on only if the request's Accept-Encoding mentioned gzip, the Content-Type is compressible and no Content-Encoding was already set")
    ck.rule("C29.encoding-header", "Content-Encoding: gzip is set exactly when the body is compressed")
    ck.rule("C29.first-chunk", "when compressing, the first chunk is compressed by transform_chunk(chunk, finishing) and that result is returned")
    ck.rule("C29.content-length", "a compressed response keeps a Content-Length only if it was recomputed from the compressed, final chunk; an uncompressed response is untouched")
    ck.rule("C29.stream-discipline", "transform_chunk: write, close iff finishing else flush, read the buffer, reset it, return what was read; identity when not compressing")
    ck.rule("C29.transform-applied", "RequestHandler.flush passes every chunk and the finishing flag through every transform before it is written")
    ck.rule("C29.finishing-flag", "flush(include_footers=True) is issued by RequestHandler.finish and only there")
    check_first_chunk(ck)
    check_transform_chunk(ck)
    check_flag_sources(ck)
    check_application(ck)



def _in(qn, edit):
    return lambda repo: mutate(repo, WEB, qn, edit)


def _u(n):
    return ast.unparse(n)


def _vary_only_when_gzipping(root):
    body = root.body
    for i, st in enumerate(body):
        if isinstance(st, ast.If) and "'Vary' in" in _u(st.test):
            vary = body.pop(i)
            for st2 in body:
                if isinstance(st2, ast.If) and q.dotted(st2.test) == FLAG and any("Content-Encoding" in _u(x) for x in st2.body):
                    st2.body.insert(0, vary)
                    return True
    return False


def _cl_before_transform(root):
    for n in ast.walk(root):
        body = getattr(n, "body", None)
        if isinstance(body, list):
            for i, st in enumerate(body):
                if isinstance(st, ast.Assign) and "self.transform_chunk" in _u(st.value):
                    for j in range(i + 1, len(body)):
                        if isinstance(body[j], ast.If) and "Content-Length" in _u(body[j].test):
                            body.insert(i, body.pop(j))
                            return True
    return False


def _recompute_always(root):
    """Move the recomputation of the flag out of ``if self._gzipping:``."""
    body = root.body
    for i, st in enumerate(body):
        if isinstance(st, ast.If) and q.dotted(st.test) == FLAG and any(isinstance(x, ast.Assign) and FLAG in q.assigned_paths(x) for x in st.body):
            body[i:i + 1] = st.body
            return True
    return False


def _ce_early(root):
    """Set Content-Encoding as soon as the request accepts gzip (before the type/size decision)."""
    body = root.body
    for st in body:
        if isinstance(st, ast.If) and q.dotted(st.test) == FLAG and any(isinstance(x, ast.Assign) and FLAG in q.assigned_paths(x) for x in st.body):
            for st2 in body:
                if st2 is not st and isinstance(st2, ast.If) and q.dotted(st2.test) == FLAG:
                    for k, x in enumerate(st2.body):
                        if isinstance(x, ast.Assign) and "Content-Encoding" in _u(x):
                            st.body.insert(0, st2.body.pop(k))
                            return True
    return False


def _drop_conj(text):
    def edit(root):
        for n in ast.walk(root):
            if isinstance(n, ast.Assign) and FLAG in q.assigned_paths(n) and isinstance(n.value, ast.BoolOp):
                before = len(n.value.values)
                n.value.values = [v for v in n.value.values if text not in _u(v)]
                return len(n.value.values) < before
        return False

    return edit


MUTANTS = [
    ("Vary set only when compressing", _in(GZ + ".transform_first_chunk", _vary_only_when_gzipping), "C29.vary"),
    ("Vary header overwritten with an unrelated value", _in(GZ + ".transform_first_chunk", replace_expr(lambda n: isinstance(n, ast.Constant) and n.value == ", Accept-Encoding", lambda n: ast.Constant(value=", Accept"))), "C29.vary"),
    ("existing Content-Encoding no longer prevents compression", _in(GZ + ".transform_first_chunk", _drop_conj("Content-Encoding")), "C29.only-when-allowed"),
    ("size rule dropped: empty finishing bodies get compressed", _in(GZ + ".transform_first_chunk", _drop_conj("MIN_LENGTH")), "C29.only-when-allowed"),
    ("whitelist matched by prefix: application/json-seq etc. get compressed (seeded C29-adv5)", _in(GZ + "._compressible_type", replace_expr(lambda n: isinstance(n, ast.BoolOp), lambda n: parse_expr("ctype.startswith(('text/', *self.CONTENT_TYPES))"))), "C29.only-when-allowed"),
    ("whitelist matched by substring", _in(GZ + "._compressible_type", replace_expr(lambda n: isinstance(n, ast.Compare) and "CONTENT_TYPES" in _u(n), lambda n: parse_expr("any(t in ctype for t in self.CONTENT_TYPES)"))), "C29.only-when-allowed"),
    ("content type no longer consulted", _in(GZ + ".transform_first_chunk", _drop_conj("_compressible_type")), "C29.only-when-allowed"),
    ("compression decision recomputed even if the request did not accept gzip", _in(GZ + ".transform_first_chunk", _recompute_always), "C29.only-when-allowed"),
    ("_compressible_type accepts everything", _in(GZ + "._compressible_type", replace_expr(lambda n: isinstance(n, ast.BoolOp), lambda n: ast.Constant(value=True))), "C29.only-when-allowed"),
    ("Accept-Encoding replaced by Accept in __init__", _in(GZ + ".__init__", replace_expr(lambda n: isinstance(n, ast.Constant) and n.value == "Accept-Encoding", lambda n: ast.Constant(value="Accept"))), "C29.only-when-allowed"),
    ("Content-Encoding: gzip announced before the type/size decision", _in(GZ + ".transform_first_chunk", _ce_early), "C29.encoding-header"),
    ("stale Content-Length kept on a compressed response", _in(GZ + ".transform_first_chunk", remove_stmts(lambda st: isinstance(st, ast.If) and "'Content-Length' in" in _u(st.test))), "C29.content-length"),
    ("Content-Length kept when more chunks follow", _in(GZ + ".transform_first_chunk", replace_stmt(lambda st: isinstance(st, ast.Delete) and "Content-Length" in _u(st), lambda st: [ast.Pass()])), "C29.content-length"),
    ("Content-Length recomputed from the uncompressed chunk", _in(GZ + ".transform_first_chunk", _cl_before_transform), "C29.content-length"),
    ("first chunk returned uncompressed", _in(GZ + ".transform_first_chunk", replace_stmt(lambda st: isinstance(st, ast.Assign) and "self.transform_chunk" in _u(st.value), lambda st: [parse_stmt("self.transform_chunk(b'', False)")])), "C29.first-chunk"),
    ("first chunk compressed with finishing=False", _in(GZ + ".transform_first_chunk", replace_expr(lambda n: q.is_call(n, "self.transform_chunk"), lambda n: ast.Call(func=n.func, args=[n.args[0], ast.Constant(value=False)], keywords=[]))), "C29.first-chunk"),
    ("transform_chunk skips empty chunks, so an empty finishing chunk never closes the stream (seeded C29-adv1)", _in(GZ + ".transform_chunk", replace_expr(lambda n: isinstance(n, ast.Attribute) and q.dotted(n) == FLAG, lambda n: parse_expr("self._gzipping and chunk"))), "C29.stream-discipline"),
    ("first chunk only compressed when non-empty", _in(GZ + ".transform_first_chunk", lambda root: _first_chunk_if_nonempty(root)), "C29.first-chunk"),
    ("gzip stream closed on every flush", _in(GZ + ".transform_chunk", replace_expr(lambda n: isinstance(n, ast.Attribute) and n.attr == "flush" and "_gzip_file" in _u(n), lambda n: ast.Attribute(value=n.value, attr="close", ctx=ast.Load()))), "C29.stream-discipline"),
    ("gzip stream never closed", _in(GZ + ".transform_chunk", replace_expr(lambda n: isinstance(n, ast.Attribute) and n.attr == "close" and "_gzip_file" in _u(n), lambda n: ast.Attribute(value=n.value, attr="flush", ctx=ast.Load()))), "C29.stream-discipline"),
    ("buffer not truncated after reading", _in(GZ + ".transform_chunk", remove_stmts(lambda st: "truncate" in _u(st))), "C29.stream-discipline"),
    ("buffer read before the flush", _in(GZ + ".transform_chunk", lambda root: _getvalue_first(root)), "C29.stream-discipline"),
    ("flush() tells later transforms they are never finishing", _in(RH + ".flush", replace_expr(lambda n: isinstance(n, ast.Call) and q.call_attr(n) == "transform_chunk", lambda n: ast.Call(func=n.func, args=[n.args[0], ast.Constant(value=False)], keywords=[]))), "C29.transform-applied"),
    ("later chunks bypass the transforms", _in(RH + ".flush", remove_stmts(lambda st: isinstance(st, ast.For) and "transform_chunk" in _u(st))), "C29.transform-applied"),
    ("finish() flushes without the finishing flag", _in(RH + ".finish", replace_expr(lambda n: q.is_call(n, "self.flush"), lambda n: ast.Call(func=n.func, args=[], keywords=[]))), "C29.finishing-flag"),
    ("send_error's flush claims to be finishing", _in("StaticFileHandler.get", replace_expr(lambda n: q.is_call(n, "self.flush"), lambda n: ast.Call(func=n.func, args=[], keywords=[ast.keyword(arg="include_footers", value=ast.Constant(value=True))]))), "C29.finishing-flag"),
]


def _getvalue_first(root):
    for n in ast.walk(root):
        body = getattr(n, "body", None)
        if isinstance(body, list):
            for i, st in enumerate(body):
                if isinstance(st, ast.Assign) and "getvalue" in _u(st.value):
                    for j in range(i):
                        if isinstance(body[j], ast.If) and "close" in _u(body[j]):
                            body.insert(j, body.pop(i))
                            return True
    return False


def _first_chunk_if_nonempty(root):
    for n in ast.walk(root):
        body = getattr(n, "body", None)
        if isinstance(body, list):
            for i, st in enumerate(body):
                if isinstance(st, ast.Assign) and "self.transform_chunk" in _u(st.value):
                    body[i] = ast.If(test=ast.Name(id="chunk", ctx=ast.Load()), body=[st], orelse=[])
                    return True
    return False
