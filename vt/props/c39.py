"""C39 — PeriodicCallback stays on its grid, skips missed periods, never overlaps.

Thin clause set (DESIGN.md §4 C39, §5).  Decided statically: who-may-call of
``_schedule_next`` (only ``start`` and the ``finally`` of ``_run``, i.e. after the
awaited callback — no overlap), the ``_running`` guards of ``_run`` and
``_schedule_next``, ``stop`` clearing the flag and cancelling + forgetting the
timer, the timer armed with ``_next_timeout``/``_run`` and its handle stored,
callback errors logged and not preventing the re-schedule.  In addition the body
of ``_update_next`` (jitter = 0) is *evaluated by folding its AST with exact
rationals* over a finite grid of (period, previous deadline, clock reading) and
the four arithmetic clauses of the property are checked on every sample.  Not
decided: the arithmetic for all values and for binary floating point (the core
of the property), jitter, real clocks.
"""
from __future__ import annotations

import ast
import math
from fractions import Fraction

from .. import q
from ..cfg import must_facts, holds
from ..rules import callers_of, references_to, event_facts, node_calls, node_assigns, is_true, is_false, is_none
from ..mutate import mutate, remove_stmts, replace_expr, replace_stmt, parse_stmt, parse_expr
from ..model import AnalysisError
from ..x_syncnorm import normalized

NORM_MODULES = ("tornado/locks.py", "tornado/queues.py", "tornado/gen.py", "tornado/concurrent.py", "tornado/ioloop.py", "tornado/platform/asyncio.py")
from .. import x_tdeval as tdeval
from ..x_sync import check_none_tests, own_walk, own_find, node_counts, method_call_on, exit_states, guard_models

TECHNIQUE = "who-may-call lint, guard dominance, exit-state typestate, finite-domain abstract evaluation (exact rationals) of _update_next's AST"
EXPLANATION = (
    "Callers of _schedule_next enumerated over the whole tree (start; finally-block of _run, whose try body holds the callback call and its await); _running facts at "
    "the callback call and at the timer registration; stop()/start() exit states; timer registration shape; Exception handler around the callback; _update_next "
    "interpreted statement by statement with Fractions for every (period, previous deadline, now) of a finite grid: strictly later, on the grid, not before now, at most one period ahead."
)
NOT_DECIDED = (
    "the arithmetic of _update_next for ALL periods/clock values and under IEEE floating point (only a finite exact-rational grid is evaluated); jitter; "
    "what happens when start() is called twice or while a coroutine callback of a previous start is still running; loop clock behaviour"
)
LEVEL_NOTE = "thin clause set; the grid evaluation is exhaustive only over its finite sample"

IO = "tornado/ioloop.py"
PC = "PeriodicCallback"
RUNNING = "self._running"
TIMEOUT = "self._timeout"
NEXT = "self._next_timeout"


def _sched_calls(fi):
    return own_find(fi, lambda x: method_call_on(x, "self", "_schedule_next"))


def check_callers(ck):
    run = ck.func(IO, PC + "._run")
    start = ck.func(IO, PC + ".start")
    # whole-tree search, skipping modules whose source cannot contain the identifier at all
    mods_ = [rel for rel, m in ck.repo.modules.items() if "_schedule_next" in m.source]
    allc = callers_of(ck.repo, "_schedule_next", mods_)
    ck.floor("C39.schedule-sites", len(allc), 2, "callers of _schedule_next")
    for fi, c in allc:
        ck.ob("C39.schedule-sites", fi, c, fi is run or fi is start, "_schedule_next is called only from start() and _run()")
    refs = [(fi, n) for fi, n in references_to(ck.repo, "_schedule_next", mods_) if not any(n is c.func for _f, c in allc)]
    for fi, n in refs:
        ck.ob("C39.schedule-sites", fi, n, False, "_schedule_next is not handed out as a callback")
    # in _run: only in the finally of the try that runs (and awaits) the callback
    calls = own_find(run, lambda x: isinstance(x, ast.Call) and q.dotted(x.func) == "self.callback")
    ck.floor("C39.schedule-sites", len(calls), 1, "callback invocations in _run")
    pm = q.parent_map(run.node)
    tries = [t for t in own_walk(run.node) if isinstance(t, ast.Try) and t.finalbody and any(c is y for _n, c in calls for st in t.body for y in ast.walk(st))]
    ck.ob("C39.schedule-sites", run, run.node, len(tries) == 1, "the callback runs inside a try/finally", construct="callback in try/finally")
    for t in tries:
        awaits = [y for st in t.body for y in ast.walk(st) if isinstance(y, ast.Await)]
        ck.ob("C39.schedule-sites", run, t, len(awaits) >= 1, "an awaitable returned by the callback is awaited inside the same try (the re-schedule waits for it)", construct="await inside try")
        for a in awaits:
            # what is awaited is the callback's return value
            v = a.value
            src = [st for st in q.stores_to(run.node, v.id)] if isinstance(v, ast.Name) else []
            ok = (isinstance(v, ast.Call) and q.dotted(v.func) == "self.callback") or any(isinstance(getattr(st, "value", None), ast.Call) and q.dotted(st.value.func) == "self.callback" for st in src)
            ck.ob("C39.schedule-sites", run, a, ok, "the awaited object is the callback's return value")
        n = 0
        for nd, c in _sched_calls(run):
            n += 1
            in_final = any(c is y for st in t.finalbody for y in ast.walk(st))
            ck.ob("C39.schedule-sites", run, c, in_final, "in _run the next run is scheduled only in the finally block, i.e. after the callback (and its awaitable) finished — runs never overlap")
        ck.ob("C39.schedule-sites", run, t, n >= 1 and any(any(c is y for st in t.finalbody for y in ast.walk(st)) for _n, c in _sched_calls(run)), "the finally block re-schedules (also after a failing callback)", construct="finally re-schedules")
    # errors of the callback are logged, not propagated
    for nd, c in calls:
        h = q.protected_by(pm, c, "Exception")
        ok = h is not None and not any(isinstance(y, ast.Raise) for st in h.body for y in ast.walk(st)) and any(isinstance(y, ast.Call) and (q.dotted(y.func) or "").endswith("_log.error") for st in h.body for y in ast.walk(st))
        ck.ob("C39.schedule-sites", run, c, ok, "an exception from the callback is logged and swallowed (the period continues)")


def check_guards(ck):
    run = ck.func(IO, PC + "._run")
    sn = ck.func(IO, PC + "._schedule_next")
    # _running is written only by __init__/start/stop (checked below), so inside these functions its tested value
    # can only be invalidated by a suspension point or a local rebinding: stable facts
    from ..x_sync import stable_facts
    facts = stable_facts(run.cfg, lambda t: t == RUNNING)
    for nd, c in own_find(run, lambda x: isinstance(x, ast.Call) and q.dotted(x.func) == "self.callback"):
        ck.ob("C39.running", run, c, (RUNNING, True) in facts[nd.id], "_run invokes the callback only while _running (a timer that fires after stop() does nothing)")
    facts = stable_facts(sn.cfg, lambda t: t == RUNNING)
    regs = own_find(sn, lambda x: isinstance(x, ast.Call) and q.call_attr(x) in ("add_timeout", "call_at", "call_later"))
    ck.floor("C39.running", len(regs), 1, "timer registrations in _schedule_next")
    upd = event_facts(sn, {"upd": node_calls("self._update_next")}, cond_facts=False)
    for nd, c in regs:
        ck.ob("C39.running", sn, c, (RUNNING, True) in facts[nd.id], "a new timer is armed only while _running (stop() during a coroutine callback prevents further runs)")
        ck.ob("C39.timer", sn, c, q.call_attr(c) == "add_timeout" and q.dotted(q.arg(c, 0)) == NEXT and q.dotted(q.arg(c, 1)) == "self._run" and len(c.args) == 2, "the timer fires at _next_timeout and runs _run")
        ck.ob("C39.timer", sn, c, ("@upd", True) in upd[nd.id], "_next_timeout is advanced before the timer is armed")
        st = nd.ast if nd.kind == "stmt" else None
        ck.ob("C39.timer", sn, c, isinstance(st, ast.Assign) and st.value is c and TIMEOUT in q.assigned_paths(st), "the timer handle is kept in _timeout (so stop() can cancel it)")
    for nd, c in own_find(sn, lambda x: method_call_on(x, "self", "_update_next")):
        a = c.args[0] if len(c.args) == 1 else None
        ck.ob("C39.timer", sn, c, method_call_on(a, "self.io_loop", "time") and not a.args if a is not None else False, "_update_next is given the loop's current time")
    rc = node_counts(sn, lambda x: any(x is c for _, c in regs))
    normal, _ = exit_states(sn.cfg, 0, lambda nd, v: min(2, v + rc.get(nd.id, 0)), track=lambda t: t == RUNNING, follow_exc=False)
    for f, k in normal:
        running = (RUNNING, False) not in f
        ck.ob("C39.running", sn, sn.node, k == (1 if running else 0), "_schedule_next arms exactly one timer when running and none otherwise (running=%s timers=%d)" % (running, k), construct="exit running=%s timers=%d" % (running, k))
    # writers of _running
    for fi in ck.repo.methods(IO, PC):
        for st in q.stores_to(fi.node, RUNNING):
            ck.ob("C39.running", fi, st, fi.name in ("__init__", "start", "stop"), "_running is written only by __init__/start/stop")


def check_start_stop(ck):
    stop = ck.func(IO, PC + ".stop")
    start = ck.func(IO, PC + ".start")
    cfg = stop.cfg
    fa = {nd.id for nd in cfg.stmt_nodes(node_assigns(RUNNING, is_false))}
    # local names bound (once) to the handle
    handles = {TIMEOUT} | {st.targets[0].id for st in own_walk(stop.node) if isinstance(st, ast.Assign) and len(st.targets) == 1 and isinstance(st.targets[0], ast.Name)
                           and q.dotted(st.value) == TIMEOUT and len(q.stores_to(stop.node, st.targets[0].id)) == 1}
    rm = node_counts(stop, lambda x: isinstance(x, ast.Call) and q.call_attr(x) == "remove_timeout" and len(x.args) == 1 and q.dotted(x.args[0]) in handles)
    cl = {nd.id for nd in cfg.stmt_nodes(node_assigns(TIMEOUT, is_none))}
    nonefs = {"%s is None" % h for h in handles}

    def edge(nd, kind, v):
        a, r, c, had = v
        if nd.kind == "test" and kind in ("true", "false"):
            from ..cfg import canon_fact
            t, pol = canon_fact(nd.ast, kind == "true")
            if t in nonefs:
                had = not pol
            elif t in handles:
                had = pol
        return (a, r, c, had)

    normal, _ = exit_states(cfg, (0, 0, 0, None), lambda nd, v: (min(2, v[0] + (nd.id in fa)), min(2, v[1] + rm.get(nd.id, 0)), min(2, v[2] + (nd.id in cl)), v[3]), edge_transfer=edge, follow_exc=False)
    ck.floor("C39.stop", len(normal), 1, "exit states of stop")
    for _f, (a, r, c, had) in normal:
        if had is False:
            ok = a >= 1 and r == 0
        else:
            ok = a >= 1 and r == 1 and c >= 1
        ck.ob("C39.stop", stop, stop.node, ok, "stop() clears _running and, if a timer is pending, removes it and forgets the handle (flag-cleared=%d removed=%d handle-cleared=%d timer-pending=%s)" % (a, r, c, had),
              construct="exit cleared=%d removed=%d forgot=%d pending=%s" % (a, r, c, had))
    # start: flag set and the grid origin taken before the first schedule
    ev = event_facts(start, {"run": node_assigns(RUNNING, is_true), "origin": lambda nd: nd.kind == "stmt" and isinstance(nd.ast, ast.Assign) and NEXT in q.assigned_paths(nd.ast) and method_call_on(nd.ast.value, "self.io_loop", "time")}, cond_facts=False)
    sc = _sched_calls(start)
    ck.floor("C39.stop", len(sc), 1, "_schedule_next calls in start")
    for nd, c in sc:
        ck.ob("C39.stop", start, c, ("@run", True) in ev[nd.id] and ("@origin", True) in ev[nd.id], "start() sets _running and takes the grid origin (_next_timeout = now) before scheduling the first run")
    k = node_counts(start, lambda x: any(x is c for _, c in sc))
    normal, _ = exit_states(start.cfg, 0, lambda nd, v: min(2, v + k.get(nd.id, 0)), follow_exc=False)
    for _f, n in normal:
        ck.ob("C39.stop", start, start.node, n == 1, "start() schedules exactly once (count=%d)" % n, construct="exit schedules=%d" % n)
    init = ck.func(IO, PC + ".__init__")
    ok = any(q.is_const(getattr(st, "value", None), False) for st in q.stores_to(init.node, RUNNING)) and any(q.is_const(getattr(st, "value", None), None) for st in q.stores_to(init.node, TIMEOUT))
    ck.ob("C39.stop", init, init.node, ok, "a new PeriodicCallback is not running and has no timer", construct="initial state")


# ---------------------------------------------------------------------------
# finite-domain abstract evaluation of _update_next


PERIODS_MS = (Fraction(250), Fraction(500), Fraction(1000), Fraction(1500), Fraction(1, 1000))
OLD = (Fraction(0), Fraction(1), Fraction(5, 2), Fraction(10), Fraction(1700000000))
DELTAS = tuple(Fraction(a, b) for a, b in ((-3, 2), (-1, 2), (-1, 4), (0, 1), (1, 8), (1, 4), (1, 2), (3, 4), (1, 1), (5, 4), (3, 2), (2, 1), (3, 1), (15, 2), (10, 1), (1000, 3)))


def check_update_next(ck):
    fi = ck.func(IO, PC + "._update_next")
    cparam = [x for x in fi.params() if x != "self"]
    if len(cparam) != 1:
        raise AnalysisError("%s: unexpected signature" % fi.site())
    # the only state it writes is _next_timeout
    for st in own_walk(fi.node):
        if isinstance(st, (ast.Assign, ast.AugAssign, ast.AnnAssign)):
            for p in q.assigned_paths(st):
                if p.startswith("self.") and p != NEXT:
                    ck.ob("C39.grid", fi, st, False, "_update_next writes only _next_timeout")
    bad = {"later": [], "grid": [], "not-before-now": [], "one-period": []}
    n = 0
    for pms in PERIODS_MS:
        p = pms / 1000
        for old in OLD:
            for dl in DELTAS:
                now = old + dl * p if pms >= 1 else old + dl * p
                env = {"self.callback_time": pms, "self.jitter": Fraction(0), NEXT: old, cparam[0]: now}
                try:
                    tdeval.run(fi.node.body, env)
                except tdeval.Unsupported as e:
                    raise AnalysisError("%s: _update_next uses a construct the evaluator does not model: %s" % (fi.site(), e))
                except tdeval.Raised as e:
                    bad["later"].append("(period=%ss prev=%s now=%s raises %s)" % (p, old, now, e.name))
                    continue
                new = env[NEXT]
                n += 1
                sample = "(period=%ss prev=%s now=prev%+.3gp -> %s)" % (p, old, float(dl), new)
                if not new > old:
                    bad["later"].append(sample)
                k = (new - old) / p
                if k.denominator != 1 or k < 1:
                    bad["grid"].append(sample)
                if not new >= now:
                    bad["not-before-now"].append(sample)
                if now >= old and not (new - now <= p):
                    bad["one-period"].append(sample)
                if now < old and new != old + p:
                    bad["one-period"].append(sample)
    what = {
        "later": "each scheduled time is later than the previously scheduled one",
        "grid": "the step is a positive whole number of periods (stays on the grid start + k*period)",
        "not-before-now": "the scheduled time is not before the current time",
        "one-period": "with the clock not behind the previous deadline the next run is at most one period ahead (missed periods are skipped, not bunched); an early firing advances exactly one period",
    }
    for k, w in what.items():
        ck.ob("C39.grid", fi, fi.node, not bad[k], "%s — on all %d exact-rational samples%s" % (w, n, ("; fails e.g. " + bad[k][0]) if bad[k] else ""), construct="grid clause %s" % k)
    ck.note("_update_next evaluated on %d samples (periods %s ms x previous deadlines x clock offsets) with exact rationals, jitter = 0" % (n, [str(x) for x in PERIODS_MS]))
    # the jitter factor is only applied under `if self.jitter`
    facts = must_facts(fi.cfg)
    for nd, c in own_find(fi, lambda x: isinstance(x, ast.Call) and (q.dotted(x.func) or "").startswith("random.")):
        ck.ob("C39.grid", fi, c, holds(facts[nd.id], "self.jitter", True), "randomness enters only when jitter is requested")


def check_period(ck):
    """__init__: the stored period is the caller's period in milliseconds, for numbers and for
    timedeltas of any length (evaluated with an abstract timedelta: days/seconds/microseconds as in CPython)."""
    fi = ck.func(IO, PC + ".__init__")
    ps = [x for x in fi.params() if x != "self"]
    if len(ps) < 2:
        raise AnalysisError("%s: unexpected signature" % fi.site())
    cb, ct = ps[0], ps[1]
    base = {p_: None for p_ in ps}
    for a, d in zip(reversed(fi.node.args.args), reversed(fi.node.args.defaults)):
        if isinstance(d, ast.Constant) and isinstance(d.value, (int, float)):
            base[a.arg] = Fraction(d.value)
    # numeric periods include values that are not a whole number of microseconds: the stored period must be the caller's
    # number exactly (any round trip through timedelta / int / round loses them and the deadlines drift off the grid)
    samples = [("number", Fraction(v)) for v in (Fraction(1, 1000), 1, 250, 1000, 86400000 * 2, Fraction(1, 3), Fraction(2001, 2000), Fraction(100001, 3000), Fraction(5, 10000))] + \
              [("timedelta", tdeval.TD(v)) for v in (Fraction(1, 10 ** 6), Fraction(1, 4), 1, 90, 3600, 86399, 86400, 93600, 129600, 7 * 86400, 86400 * 30 + Fraction(5, 2))]
    bad = []
    n = 0
    for kind, v in samples:
        env = dict(base)
        env[ct] = v
        want = v if kind == "number" else v.s * 1000
        try:
            tdeval.run(fi.node.body, env)
        except tdeval.Unsupported as e:
            raise AnalysisError("%s: __init__ uses a construct the evaluator does not model: %s" % (fi.site(), e))
        except tdeval.Raised as e:
            bad.append("%s %s -> raises %s" % (kind, v, e.name))
            n += 1
            continue
        except tdeval.Returned:
            pass
        got = env.get("self.callback_time")
        n += 1
        if got != want:
            bad.append("%s %s -> stored %s ms, expected %s ms" % (kind, v, got, want))
    ck.ob("C39.period", fi, fi.node, not bad, "the stored period equals the caller's period in milliseconds — numbers exactly (also fractions of a microsecond), timedeltas from 1 microsecond to 30 days (%d samples%s)" % (n, ("; wrong: " + "; ".join(bad[:3])) if bad else ""),
          construct="period conversion mismatches=%d" % len(bad))
    rej = []
    for v in (Fraction(0), Fraction(-5)):
        env = dict(base)
        env[ct] = v
        try:
            tdeval.run(fi.node.body, env)
            rej.append("%s accepted" % v)
        except tdeval.Raised as e:
            if e.name != "ValueError":
                rej.append("%s raises %s" % (v, e.name))
        except tdeval.Unsupported as e:
            raise AnalysisError("%s: %s" % (fi.site(), e))
    ck.ob("C39.period", fi, fi.node, not rej, "a non-positive numeric period is rejected with ValueError%s" % (("; " + ", ".join(rej)) if rej else ""), construct="non-positive rejected=%s" % (not rej))
    # nobody else rescales the period
    for f in ck.repo.methods(IO, PC):
        if f is not fi:
            for st in q.stores_to(f.node, "self.callback_time"):
                ck.ob("C39.period", f, st, False, "callback_time is fixed at construction")


def check_chain_identity(ck):
    """After stop() a timer chain must stay dead.  The re-arm that an in-flight `_run` performs in its finally block is
    guarded by facts (in `_run` at the `_schedule_next()` call, and in `_schedule_next` at the timer registration).  If every
    one of those guards is a plain flag attribute that start() itself stores back to the guarded value, a stop(); start()
    issued while a coroutine callback is still running makes the old chain indistinguishable from the new one: both re-arm,
    two chains run, invocations overlap.  Any other guard (a generation/token comparison, an identity test on the handle)
    is taken as chain-specific and accepted."""
    from ..x_sync import stable_facts
    run_ = ck.func(IO, PC + "._run")
    sn = ck.func(IO, PC + "._schedule_next")
    start = ck.func(IO, PC + ".start")
    stop = ck.func(IO, PC + ".stop")
    guards = set()
    anyf = lambda t: True
    sf = stable_facts(sn.cfg, anyf)
    regs = own_find(sn, lambda x: isinstance(x, ast.Call) and q.call_attr(x) in ("add_timeout", "call_at", "call_later"))
    if not regs:
        raise AnalysisError("%s: no timer registration found" % sn.site())
    for nd, c in regs:
        guards |= set(sf[nd.id])
    rf = stable_facts(run_.cfg, anyf)
    calls = _sched_calls(run_)
    if not calls:
        raise AnalysisError("%s: _run does not call _schedule_next" % run_.site())
    for nd, c in calls:
        guards |= set(rf[nd.id])
    # what start() stores
    restored = {}
    for st in own_walk(start.node):
        if isinstance(st, ast.Assign) and len(st.targets) == 1 and isinstance(st.value, ast.Constant):
            p_ = q.dotted(st.targets[0])
            if p_:
                restored[p_] = bool(st.value.value)
    flag_guards = [(t, pol) for t, pol in guards if t in restored and restored[t] == pol]
    other = [(t, pol) for t, pol in guards if not (t in restored and restored[t] == pol)]
    # the flags must be what stop() clears (otherwise this is not the stop mechanism at all)
    cleared = {q.dotted(st.targets[0]) for st in own_walk(stop.node) if isinstance(st, ast.Assign) and len(st.targets) == 1 and isinstance(st.value, ast.Constant)}
    if not guards:
        raise AnalysisError("%s: the re-arm is not guarded at all (covered by C39.running)" % sn.site())
    ok = bool(other)
    ck.ob("C39.chain-identity", sn, regs[0][1], ok,
          "the re-arm performed for an in-flight _run depends on something stop() invalidates for that chain; here it is guarded only by %s, which start() stores back — after stop(); start() during a running coroutine callback the old chain re-arms too (two timer chains, overlapping invocations)"
          % ", ".join(sorted(t for t, _ in flag_guards)),
          construct="re-arm guarded only by flags start() re-sets: %s" % ",".join(sorted(t for t, _ in flag_guards)))


def run(ck):
    ck._orig_repo = getattr(ck, "_orig_repo", None) or ck.repo
    ck.repo = normalized(ck.repo, NORM_MODULES, only=('tornado/ioloop.py',))  # alias / named-boolean / temporary / setter-helper normalisation (vt/x_syncnorm.py)
    ck.rule("C39.schedule-sites", "_schedule_next is called only from start() and from the finally block of _run (after the callback and its awaitable finished); callback errors are logged and swallowed")
    ck.rule("C39.running", "_run invokes the callback only while _running; _schedule_next arms exactly one timer while _running and none otherwise; _running has no other writers than __init__/start/stop")
    ck.rule("C39.timer", "the timer is add_timeout(_next_timeout, _run), armed after _update_next(now), its handle kept in _timeout")
    ck.rule("C39.stop", "stop() clears _running and removes + forgets a pending timer; start() sets _running and the grid origin before its single _schedule_next(); non-positive periods rejected")
    ck.rule("C39.period", "__init__ stores the period in milliseconds: numbers unchanged, timedeltas converted with their days included (abstract evaluation over numbers and timedeltas up to 30 days); non-positive numbers rejected")
    ck.rule("C39.none-test", "the callback's return value is compared with None by identity before it is awaited")
    ck.rule("C39.chain-identity", "a timer chain stopped by stop() stays dead: the re-arm reached from _run's finally is guarded by something start() does not restore (generation/token/handle identity), not only by the _running flag")
    ck.rule("C39.grid", "_update_next (jitter 0), evaluated with exact rationals on a finite grid: strictly later, whole number of periods, not before now, at most one period ahead / exactly one period on early firing")

    check_callers(ck)
    check_guards(ck)
    check_start_stop(ck)
    check_update_next(ck)
    check_period(ck)
    check_chain_identity(ck)
    run_ = ck.func(IO, PC + "._run")
    vals = {st.targets[0].id: "return value of the user callback (None or an awaitable, which may be falsy)" for st in own_walk(run_.node)
            if isinstance(st, ast.Assign) and len(st.targets) == 1 and isinstance(st.targets[0], ast.Name) and isinstance(st.value, ast.Call) and q.dotted(st.value.func) == "self.callback"}
    check_none_tests(ck, "C39.none-test", run_, extra=vals, only=list(vals))


# ---------------------------------------------------------------------------


def _in(qn, edit):
    return lambda repo: mutate(repo, IO, PC + "." + qn, edit)


def _schedule_before_await(root):
    for t in ast.walk(root):
        if isinstance(t, ast.Try) and t.finalbody:
            for i, st in enumerate(t.body):
                if isinstance(st, ast.If) and any(isinstance(y, ast.Await) for y in ast.walk(st)):
                    t.body.insert(i, parse_stmt("self._schedule_next()"))
                    t.finalbody = [ast.Pass()]
                    return True
    return False


def _finally_to_else(root):
    for i, t in enumerate(root.body):
        if isinstance(t, ast.Try) and t.finalbody and t.handlers:
            t.orelse = t.finalbody
            t.finalbody = []
            return True
    return False


def _unguard(root):
    """`if self._running: BODY` -> BODY ;  `if not self._running: return` -> removed"""
    for node in ast.walk(root):
        body = getattr(node, "body", None)
        if isinstance(body, list):
            for i, st in enumerate(body):
                if isinstance(st, ast.If) and "_running" in ast.unparse(st.test):
                    if isinstance(st.test, ast.UnaryOp):
                        del body[i]
                    else:
                        body[i:i + 1] = st.body
                    return True
    return False


MUTANTS = [
    ("(after the double-chain fix) the generation guard is dropped again", _in("_run", lambda root: _drop_generation_guard(root)), "C39.chain-identity"),
    ("numeric period sent through timedelta and back (rounded to whole microseconds; seeded C39-adv5)", _in("__init__", lambda root: _roundtrip(root)), "C39.period"),
    ("numeric period truncated to whole milliseconds (int())", _in("__init__", replace_stmt(lambda st: isinstance(st, ast.Assign) and ast.unparse(st.targets[0]) == "self.callback_time" and isinstance(st.value, ast.Name), lambda st: [parse_stmt("self.callback_time = int(callback_time)")])), "C39.period"),
    ("timedelta period converted via .seconds (days dropped)", _in("__init__", replace_expr(lambda n: isinstance(n, ast.BinOp) and isinstance(n.op, ast.Div) and "timedelta" in ast.unparse(n.right), lambda n: parse_expr("callback_time.seconds * 1000 + callback_time.microseconds / 1000"))), "C39.period"),
    ("timedelta period stored in seconds (total_seconds without * 1000)", _in("__init__", replace_expr(lambda n: isinstance(n, ast.BinOp) and isinstance(n.op, ast.Div) and "timedelta" in ast.unparse(n.right), lambda n: parse_expr("callback_time.total_seconds()"))), "C39.period"),
    ("zero period accepted (<= 0 -> < 0)", _in("__init__", replace_expr(lambda n: isinstance(n, ast.Compare) and isinstance(n.ops[0], ast.LtE), lambda n: ast.Compare(left=n.left, ops=[ast.Lt()], comparators=n.comparators))), "C39.period"),
    ("awaitable return value tested by truthiness", _in("_run", replace_expr(lambda n: isinstance(n, ast.Compare) and isinstance(n.ops[0], ast.IsNot), lambda n: n.left)), "C39.none-test"),
    ("next run scheduled before the coroutine callback is awaited (runs can overlap)", _in("_run", _schedule_before_await), "C39.schedule-sites"),
    ("re-schedule only after a successful callback (finally -> else)", _in("_run", _finally_to_else), "C39.schedule-sites"),
    ("callback exception propagates out of _run", _in("_run", lambda root: _reraise(root)), "C39.schedule-sites"),
    ("_run fires although stopped (guard removed)", _in("_run", _unguard), "C39.running"),
    ("_schedule_next re-arms although stopped (guard removed)", _in("_schedule_next", _unguard), "C39.running"),
    ("timer handle not kept (stop cannot cancel)", _in("_schedule_next", replace_stmt(lambda st: isinstance(st, ast.Assign) and "add_timeout" in ast.unparse(st), lambda st: [ast.Expr(value=st.value)])), "C39.timer"),
    ("timer armed before _next_timeout is advanced", _in("_schedule_next", lambda root: _swap_update(root)), "C39.timer"),
    ("stop() leaves the pending timer armed", _in("stop", remove_stmts(lambda st: isinstance(st, ast.Expr) and "remove_timeout" in ast.unparse(st))), "C39.stop"),
    ("stop() forgets to clear _running", _in("stop", remove_stmts(lambda st: isinstance(st, ast.Assign) and "_running" in ast.unparse(st))), "C39.stop"),
    ("start() schedules before setting _running", _in("start", lambda root: _sched_first(root)), "C39.stop"),
    ("_update_next drops the +1 (may re-schedule the same instant)", _in("_update_next", replace_expr(lambda n: isinstance(n, ast.BinOp) and isinstance(n.op, ast.Add) and isinstance(n.right, ast.Constant) and n.right.value == 1, lambda n: n.left)), "C39.grid"),
    ("_update_next rounds up (skips one period too many)", _in("_update_next", replace_expr(lambda n: isinstance(n, ast.Attribute) and n.attr == "floor", lambda n: ast.Attribute(value=n.value, attr="ceil", ctx=ast.Load()))), "C39.grid"),
    ("_update_next catches up without the grid (next = now + period)", _in("_update_next", replace_stmt(lambda st: isinstance(st, ast.AugAssign) and "floor" in ast.unparse(st), lambda st: [parse_stmt("self._next_timeout = current_time + callback_time_sec")])), "C39.grid"),
    ("_update_next bunches missed periods (always += one period)", _in("_update_next", replace_expr(lambda n: isinstance(n, ast.Compare) and "_next_timeout" in ast.unparse(n), lambda n: ast.Constant(value=False))), "C39.grid"),
    ("_update_next forgets the ms -> s conversion", _in("_update_next", replace_expr(lambda n: isinstance(n, ast.BinOp) and isinstance(n.op, ast.Div) and isinstance(n.right, ast.Constant) and n.right.value == 1000.0, lambda n: n.left)), "C39.grid"),
]


def _reraise(root):
    for h in ast.walk(root):
        if isinstance(h, ast.ExceptHandler):
            h.body.append(ast.Raise())
            return True
    return False


def _swap_update(root):
    for node in ast.walk(root):
        body = getattr(node, "body", None)
        if isinstance(body, list):
            for i, st in enumerate(body[:-1]):
                if "_update_next" in ast.unparse(st) and "add_timeout" in ast.unparse(body[i + 1]) and not isinstance(st, ast.If):
                    body[i], body[i + 1] = body[i + 1], body[i]
                    return True
    return False


def _sched_first(root):
    for i, st in enumerate(root.body):
        if isinstance(st, ast.Expr) and "_schedule_next" in ast.unparse(st):
            root.body.insert(1 if isinstance(root.body[0], ast.Expr) and isinstance(root.body[0].value, ast.Constant) else 0, root.body.pop(i))
            return True
    return False


def _roundtrip(root):
    for n in ast.walk(root):
        if isinstance(n, ast.Assign) and ast.unparse(n.targets[0]) == "self.callback_time" and isinstance(n.value, ast.Name):
            n.value = parse_expr("datetime.timedelta(milliseconds=callback_time) / datetime.timedelta(milliseconds=1)")
            return True
    return False


def _drop_generation_guard(root):
    for t in ast.walk(root):
        if isinstance(t, ast.Try) and t.finalbody:
            for i, st in enumerate(t.finalbody):
                if isinstance(st, ast.If) and "_schedule_next" in ast.unparse(st) and isinstance(st.test, ast.Compare):
                    t.finalbody[i:i + 1] = st.body
                    return True
    return False
