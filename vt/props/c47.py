"""C47 — WSGI container: environ construction never raises and is CGI-shaped;
default response headers are added only when absent.

Decided statically (DESIGN.md §4 C47):
* EXC on ``WSGIContainer.environ``: no raise/assert; every call is in a frozen
  no-raise table or justified (``headers.pop(K)`` under ``K in headers``;
  ``to_wsgi_str`` only on ``url_unescape(.., encoding=None)`` = bytes); SINT on
  any ``int()`` (the port); unknown operations fail closed.
* host/port: split through ``httputil.split_host_and_port(request.host)`` (or a
  SINT-compliant conversion); SERVER_PORT is ``str(port)`` with ``port`` never
  None at that point (protocol default).
* required CGI/PEP 3333 keys present in the dict literal with the right
  provenance (method, query, protocol, version, body, path percent-decoded
  with ``plus=False``).
* headers: CONTENT_TYPE/CONTENT_LENGTH set from the header map under a presence
  test; other headers exported as ``HTTP_`` + ``-``→``_`` + upper-case.
* response: Content-Length/Content-Type/Server defaults only under an
  "absent" test against the lower-cased set of application header names;
  every application header is forwarded with ``add`` (duplicates preserved);
  status, reason and the joined body are what ``write_headers`` receives.
Not decided: byte-for-byte response fidelity, executor/iteration behaviour.
"""
from __future__ import annotations

import ast

from .. import q
from ..cfg import must_facts, holds
from ..rules import call_sites, require_before, node_has
from ..mutate import mutate, remove_stmts, replace_expr, replace_stmt, parse_stmt, parse_expr
from ..model import AnalysisError
from ..x_sint import check_sint
from ..x_paths import path_states, satisfied
from ..x_resolve import normalise, expand, resolve, unique_def, callee, arg_map, in_annotation, concat_pieces, lazy_widened, call_arg

TECHNIQUE = "exception-escape lint against a frozen raise table + SINT + provenance table of the environ dict literal + guard dominance of the default-header insertions"
EXPLANATION = (
    "WSGIContainer.environ is linted statement by statement (calls, subscripts, raises) against a closed no-raise table with guard facts; the environ dict literal is read as a table "
    "key -> value expression and compared with the PEP 3333/CGI requirements by provenance (which request attribute, through which decoding call with which flags); "
    "handle_request's default-header insertions must each be dominated by an 'absent' test on the lower-cased application header set, headers are forwarded with add()."
)
NOT_DECIDED = "that the application's status/headers/body reach the client byte for byte, iteration/close protocol of the app iterable, executor threading; IPv6 literal handling inside split_host_and_port (C43)"
LEVEL_NOTE = "split_host_and_port is treated as total for requests accepted by HTTPServerRequest.__init__ (which already called it on the same Host value; see C43/F24)"

W = "tornado/wsgi.py"
ENV = "WSGIContainer.environ"
HR = "WSGIContainer.handle_request"

REQUIRED_KEYS = ["REQUEST_METHOD", "REMOTE_ADDR", "SCRIPT_NAME", "PATH_INFO", "QUERY_STRING", "SERVER_NAME", "SERVER_PORT", "SERVER_PROTOCOL",
                 "wsgi.version", "wsgi.url_scheme", "wsgi.input", "wsgi.errors", "wsgi.multithread", "wsgi.multiprocess", "wsgi.run_once"]
SAFE_METHODS = {"replace", "upper", "lower", "items", "get_all", "split", "strip", "get", "startswith", "endswith", "partition", "rpartition", "lstrip", "rstrip"}
SAFE_CALLS = {"str", "BytesIO", "escape.utf8", "utf8", "httputil.split_host_and_port", "split_host_and_port", "escape.url_unescape", "url_unescape", "len", "bool", "dict", "io.BytesIO"}


def _req(fi):
    ps = [p for p in fi.params() if p != "self"]
    if not ps:
        raise AnalysisError("%s has no request parameter" % fi.qualname)
    return ps[0]


def rule_total(ck, fi):
    req = _req(fi)
    facts = lazy_widened(fi)
    pm = q.parent_map(fi.node)
    n = 0
    for x in q.walk_body(fi.node):
        if isinstance(x, (ast.Raise, ast.Assert)):
            n += 1
            ck.ob("C47.environ-total", fi, x, False, "building the environ must never raise: explicit %s" % type(x).__name__.lower())
        if isinstance(x, ast.Try):
            raise AnalysisError("C47: try statement in environ (unknown idiom)")
    for nd, x in fi.cfg.find(lambda x: isinstance(x, (ast.Call, ast.Subscript, ast.Assign))):
        if in_annotation(pm, x):
            continue
        F = facts[nd.id]
        if isinstance(x, ast.Assign):
            t = x.targets[0]
            if isinstance(t, (ast.Tuple, ast.List)):
                n += 1
                v = x.value
                ok = isinstance(v, ast.Call) and q.call_attr(v) == "split_host_and_port" and len(t.elts) == 2 or isinstance(v, ast.Call) and q.call_attr(v) in ("partition", "rpartition") and len(t.elts) == 3 \
                    or isinstance(v, (ast.Tuple, ast.List)) and len(v.elts) == len(t.elts)
                if not ok and not (isinstance(v, ast.Call) and q.call_attr(v) in ("split", "rsplit")):
                    raise AnalysisError("C47.environ-total: unmodelled tuple unpack %s" % q.unparse(x))
                ck.ob("C47.environ-total", fi, x, bool(ok), "tuple unpack of a fixed-arity result (a split() of Host text has arbitrary arity: 'a:b:c', '[::1]')")
            continue
        if isinstance(x, ast.Subscript):
            if not isinstance(x.ctx, ast.Load) or isinstance(x.slice, ast.Slice):
                continue
            base = q.unparse(x.value)
            try:
                idx = q.fold(x.slice, {})
            except q.NotFoldable:
                idx = None
            n += 1
            if isinstance(idx, int):
                need = idx + 1 if idx >= 0 else -idx
                ok = any(_len_fact(t, pol, base, need) for t, pol in F)
                b = _binding(fi, x.value.id) if isinstance(x.value, ast.Name) else None
                if not ok and idx == 0 and isinstance(b, ast.Call) and q.call_attr(b) in ("split", "rsplit", "partition", "rpartition"):
                    ok = True
                ck.ob("C47.environ-total", fi, x, ok, "%s[%s] needs a dominating length guard" % (base, idx))
            elif isinstance(idx, str):
                ok = holds(F, "%r in %s" % (idx, base), True)
                ck.ob("C47.environ-total", fi, x, ok, "%s[%r] needs a dominating membership test" % (base, idx))
            else:
                raise AnalysisError("C47.environ-total: unmodelled subscript %s" % q.unparse(x))
            continue
        c = x
        d = q.dotted(c.func)
        name = q.call_attr(c)
        if d == "int":
            continue  # SINT below
        if name == "pop" and isinstance(c.func, ast.Attribute) and len(c.args) == 1:
            recv = q.unparse(c.func.value)
            n += 1
            ck.ob("C47.environ-total", fi, c, any(pol and t == "%s in %s" % (q.unparse(c.args[0]), recv) for t, pol in F), "%s.pop(%s) without default needs a dominating membership test (KeyError otherwise)" % (recv, q.unparse(c.args[0])))
            continue
        if name == "pop" and isinstance(c.func, ast.Attribute) and len(c.args) == 2:
            continue
        if name == "to_wsgi_str":
            # asserts isinstance(s, bytes): the argument must be url_unescape(.., encoding=None) / utf8(..) / a bytes literal
            a = resolve(fi, c.args[0]) if c.args else None
            if not isinstance(a, ast.Call):
                raise AnalysisError("C47.environ-total: argument of to_wsgi_str is not a recognisable call (%s)" % (q.unparse(a) if a is not None else "?"))
            enc_ = call_arg(ck.repo, fi, a, 1, "encoding") if q.call_attr(a) == "url_unescape" else None
            ok = isinstance(a, ast.Call) and ((q.call_attr(a) == "url_unescape" and enc_ is not None and q.is_const(enc_, None)) or q.call_attr(a) == "utf8")
            n += 1
            ck.ob("C47.environ-total", fi, c, ok, "to_wsgi_str() asserts a bytes argument: it is fed url_unescape(.., encoding=None) (bytes) or utf8(..)")
            continue
        if d in SAFE_CALLS or (isinstance(c.func, ast.Attribute) and name in SAFE_METHODS):
            continue
        if isinstance(c.func, ast.Attribute) and name == "join" and isinstance(c.func.value, ast.Constant) and isinstance(c.func.value.value, str) and len(c.args) == 1 and isinstance(c.args[0], (ast.List, ast.Tuple)):
            continue   # "".join([str pieces]) of header-derived strings cannot raise
        raise AnalysisError("C47.environ-total: unmodelled call %s in environ (not in the frozen no-raise table)" % q.unparse(c.func))
    n += check_sint(ck, "C47.environ-total", fi, mode="total", ascii_only=True, lookup_callers=False)
    # to_wsgi_str itself: decode('latin1') is total
    tw = ck.func(W, "to_wsgi_str")
    decs = [c for c in q.calls(tw.node) if q.call_attr(c) == "decode"]
    ck.ob("C47.environ-total", tw, tw.node, len(decs) == 1 and decs[0].args and isinstance(decs[0].args[0], ast.Constant) and str(decs[0].args[0].value).lower().replace("-", "").replace("_", "") in ("latin1", "iso88591"),
          "to_wsgi_str decodes with latin-1 (total on bytes; PEP 3333 native strings)", construct="to_wsgi_str decode codec")
    return n


def _reach(cfg, node):
    from ..x_paths import reachable_from
    return reachable_from(cfg, node)


def _len_fact(t, pol, base, need):
    if t.startswith("@"):
        return False
    try:
        e = ast.parse(t, mode="eval").body
    except SyntaxError:
        return False
    if isinstance(e, ast.Compare) and len(e.ops) == 1 and q.is_call(e.left, "len") and e.left.args and q.unparse(e.left.args[0]) == base and isinstance(e.comparators[0], ast.Constant) and type(e.comparators[0].value) is int:
        v = e.comparators[0].value
        op = e.ops[0]
        return (isinstance(op, ast.Eq) and pol and v >= need) or (isinstance(op, ast.GtE) and pol and v >= need) or (isinstance(op, ast.Gt) and pol and v + 1 >= need) or (isinstance(op, ast.Lt) and not pol and v >= need)
    return False


def _binding(fi, name):
    vals = [a.value for a in q.walk_body(fi.node) if isinstance(a, ast.Assign) and name in q.assigned_paths(a)]
    return vals[0] if len(vals) == 1 else None


def _env_dict(fi):
    ds = [a for a in q.walk_body(fi.node) if isinstance(a, ast.Assign) and isinstance(a.value, ast.Dict) and len(a.value.keys) >= 4 and isinstance(a.targets[0], ast.Name)]
    for a in q.walk_body(fi.node):   # annotated form: environ: dict[str, Any] = {...}
        if isinstance(a, ast.AnnAssign) and isinstance(a.value, ast.Dict) and len(a.value.keys) >= 4 and isinstance(a.target, ast.Name):
            a.targets = [a.target]
            ds.append(a)
    if len(ds) != 1:
        raise AnalysisError("C47: environ dict literal not found (unknown idiom)")
    a = ds[0]
    table = {}
    for k, v in zip(a.value.keys, a.value.values):
        if not (isinstance(k, ast.Constant) and isinstance(k.value, str)):
            raise AnalysisError("C47: non-literal key in the environ dict")
        table[k.value] = v
    # keys added right after the literal by constant-key stores (outside loops/conditions) belong to the table too
    envname = a.targets[0].id
    for st in fi.node.body:
        if isinstance(st, ast.Assign) and len(st.targets) == 1 and isinstance(st.targets[0], ast.Subscript) and q.dotted(st.targets[0].value) == envname:
            k = st.targets[0].slice
            if isinstance(k, ast.Constant) and isinstance(k.value, str) and k.value not in table:
                table[k.value] = st.value
    return a, envname, table


def rule_keys(ck, fi):
    req = _req(fi)
    asg, envname, table = _env_dict(fi)
    n = 0
    for k in REQUIRED_KEYS:
        n += 1
        ck.ob("C47.cgi-keys", fi, asg, k in table, "environ contains the required key %s" % k, construct="environ key %s" % k)
    # the function returns that dict
    rets = [nd.ast for nd in fi.cfg.stmt_nodes(lambda nd: nd.kind == "stmt" and isinstance(nd.ast, ast.Return))]   # reachable returns only
    if not rets:
        raise AnalysisError("C47.cgi-keys: environ() has no reachable return statement")
    ck.ob("C47.cgi-keys", fi, fi.node, all(q.dotted(r.value) == envname for r in rets), "environ() returns the dict it built", construct="return environ")

    def prov(key, pred, what):
        nonlocal n
        if key in table:
            n += 1
            ck.ob("C47.cgi-keys", fi, table[key], bool(pred(expand(fi, table[key]))), "%s %s" % (key, what), construct="environ[%s] = %s" % (key, q.normalize_construct(table[key], q.local_names(fi.node))))

    prov("REQUEST_METHOD", lambda v: q.dotted(v) == req + ".method", "is the request method")
    prov("REMOTE_ADDR", lambda v: q.dotted(v) == req + ".remote_ip", "is the peer address of the request")
    prov("QUERY_STRING", lambda v: q.dotted(v) == req + ".query", "is the raw query string")
    prov("SERVER_PROTOCOL", lambda v: q.dotted(v) == req + ".version", "is the request's HTTP version")
    prov("wsgi.url_scheme", lambda v: q.dotted(v) == req + ".protocol", "is the request protocol (http/https)")
    prov("SCRIPT_NAME", lambda v: q.is_const(v, ""), "is the empty string (application mounted at the root)")
    prov("wsgi.version", lambda v: isinstance(v, ast.Tuple) and [getattr(e, "value", None) for e in v.elts] == [1, 0], "is (1, 0)")
    prov("wsgi.input", lambda v: isinstance(v, ast.Call) and q.call_attr(v) == "BytesIO" and any(q.dotted(x) == req + ".body" for x in ast.walk(v)), "is a byte stream over the request body")
    prov("wsgi.errors", lambda v: q.dotted(v) in ("sys.stderr",) or isinstance(v, ast.Call), "is a text stream")
    prov("wsgi.run_once", lambda v: q.is_const(v, False), "is False (long-running server)")

    def path_ok(v):
        v = expand(fi, v)
        calls = [c for c in ast.walk(v) if isinstance(c, ast.Call) and q.call_attr(c) == "url_unescape"]
        if len(calls) != 1:
            if req + ".path" in q.paths_in(v) and any(isinstance(c, ast.Call) and q.call_attr(c) not in ("to_wsgi_str",) for c in ast.walk(v)):
                raise AnalysisError("C47.cgi-keys: PATH_INFO is decoded in an unrecognised way: %s" % q.unparse(v))
            return False
        c = calls[0]
        plus = call_arg(ck.repo, fi, c, 2, "plus")
        val_ = call_arg(ck.repo, fi, c, 0, "value")
        return val_ is not None and q.dotted(val_) == req + ".path" and plus is not None and q.is_const(plus, False)

    prov("PATH_INFO", path_ok, "is the percent-decoded request path, decoded with plus=False ('+' stays '+')")
    # SERVER_NAME / SERVER_PORT from the canonical splitter
    split = [a for a in q.walk_body(fi.node) if isinstance(a, ast.Assign) and isinstance(a.value, ast.Call) and q.call_attr(a.value) == "split_host_and_port"]
    hostv = portv = None
    if split:
        s = split[0]
        ck.ob("C47.host-port", fi, s, s.value.args and q.dotted(s.value.args[0]) == req + ".host" and isinstance(s.targets[0], ast.Tuple) and len(s.targets[0].elts) == 2, "host and port are split from request.host by httputil.split_host_and_port")
        if isinstance(s.targets[0], ast.Tuple) and len(s.targets[0].elts) == 2:
            hostv, portv = [q.dotted(e) for e in s.targets[0].elts]
    else:
        # no canonical helper: any int() in the function has been held to SINT by rule_total; name/port variables are whatever feeds the keys
        ck.ob("C47.host-port", fi, fi.node, False, "host and port are split by the canonical helper httputil.split_host_and_port (IPv6 literals, empty ports)", construct="no split_host_and_port call")
    if "SERVER_NAME" in table and hostv:
        n += 1
        ck.ob("C47.host-port", fi, table["SERVER_NAME"], q.dotted(table["SERVER_NAME"]) == hostv, "SERVER_NAME is the host part returned by the splitter")
    if "SERVER_PORT" in table:
        v = table["SERVER_PORT"]
        n += 1
        isstr = isinstance(v, ast.Call) and q.dotted(v.func) == "str" and len(v.args) == 1
        if not isstr:
            # f"{port}" / "%d" % port / "{}".format(port): a string made of exactly the port
            pcs_ = concat_pieces(v)
            if pcs_ is None and isinstance(v, ast.Call) and q.call_attr(v) == "format" and isinstance(v.func.value, ast.Constant) and v.func.value.value == "{}" and len(v.args) == 1:
                pcs_ = [v.args[0]]
            if pcs_ is not None and len(pcs_) == 1 and not isinstance(pcs_[0], ast.Constant):
                v = ast.Call(func=ast.Name(id="str", ctx=ast.Load()), args=[pcs_[0]], keywords=[])
                ast.copy_location(v, table["SERVER_PORT"])
                ast.fix_missing_locations(v)
                isstr = True
            elif pcs_ is not None or isinstance(v, (ast.JoinedStr, ast.BinOp, ast.Call)):
                raise AnalysisError("C47.host-port: SERVER_PORT is rendered by %s, not recognised" % q.unparse(v))
        ck.ob("C47.host-port", fi, table["SERVER_PORT"], isstr, "SERVER_PORT is a str (PEP 3333)")
        if isstr and portv:
            ck.ob("C47.host-port", fi, v, q.dotted(v.args[0]) == portv, "SERVER_PORT is the port part returned by the splitter")
            # never None when the dict is built
            st = path_states(fi, ["%s is None" % portv], {"dflt": lambda nd: nd.kind == "stmt" and isinstance(nd.ast, ast.Assign) and portv in q.assigned_paths(nd.ast) and not (isinstance(nd.ast.value, ast.Call) and q.call_attr(nd.ast.value) == "split_host_and_port") and not q.is_const(nd.ast.value, None)}, follow_exc=False)
            for nd in fi.cfg.nodes_for(v):
                n += 1
                ck.ob("C47.host-port", fi, v, satisfied(st, nd, [("fact", "%s is None" % portv, False), ("event", "dflt")]) is True, "a missing port is replaced by the protocol default before SERVER_PORT is rendered (never 'None')")
            # the default depends on the protocol: evaluate the statements between the split and the dict for every case
            from ..x_eval import Evaluator
            body = fi.node.body
            i0 = [i for i, st in enumerate(body) if st is split[0]] if split else []
            i1 = [i for i, st in enumerate(body) if st is asg]
            if len(i0) != 1 or len(i1) != 1 or i0[0] >= i1[0]:
                raise AnalysisError("C47.host-port: the statements between the host/port split and the environ dict are not at the top level (unknown idiom)")
            region = body[i0[0] + 1:i1[0]]
            bad = None
            for proto, given, want in (("https", None, 443), ("http", None, 80), ("https", 8443, 8443), ("http", 0, 0), ("http", 8080, 8080)):
                from ..x_eval import Opaque
                ev = Evaluator(call=lambda name, args, kwargs, node, ev2: Opaque(name), consts=lambda nm: fi.module.assigns.get(nm))
                env = {portv: given, hostv or "_host": "h", req + ".protocol": proto, req + ".path": "/p", req + ".host": "h"}
                kind, val = ev.run(region, env)
                if kind != "fall":
                    bad = bad or "protocol=%s port=%r: environ %ss %r before the dict is built" % (proto, given, kind, val)
                elif isinstance(env.get(portv), Opaque):
                    raise AnalysisError("C47.host-port: the port is computed by %r, which is not modelled" % env.get(portv))
                elif env.get(portv) != want:
                    bad = bad or "protocol=%s, Host port %r -> SERVER_PORT %r (expected %r)" % (proto, given, env.get(portv), want)
            n += 1
            ck.ob("C47.host-port", fi, v, bad is None, "an explicit port is kept; a missing one becomes 443 for https and 80 otherwise (evaluated for https/http x port None/0/8080/8443)%s" % ("" if bad is None else " — " + bad), construct="port default by protocol")
    return n


def rule_headers(ck, fi):
    req = _req(fi)
    asg, envname, table = _env_dict(fi)
    hdrs = req + ".headers"
    n = 0
    facts = lazy_widened(fi)
    # CONTENT_TYPE / CONTENT_LENGTH
    stores = {}
    dynamic = 0
    for nd, s in fi.cfg.find(lambda x: isinstance(x, ast.Subscript) and isinstance(x.ctx, ast.Store) and q.dotted(x.value) == envname):
        ke = expand(fi, s.slice)
        if not isinstance(ke, ast.Constant):
            dynamic += 1
        stores.setdefault(q.unparse(ke), []).append((nd, s))
    pm = q.parent_map(fi.node)
    deferred = []
    for key, hname in (("CONTENT_TYPE", "Content-Type"), ("CONTENT_LENGTH", "Content-Length")):
        got = stores.get(repr(key), [])
        n += 1
        if not got and dynamic > 1:
            deferred.append(key)
            continue
        ck.ob("C47.headers", fi, fi.node, len(got) >= 1, "environ[%r] is set from the %s header" % (key, hname), construct="environ[%r] store" % key)
        for nd, s in got:
            a = pm.get(s)
            v = getattr(a, "value", None)
            ok = isinstance(v, ast.Call) and q.dotted(v.func) in (hdrs + ".pop", hdrs + ".get") and q.is_const(v.args[0], hname) or (isinstance(v, ast.Subscript) and q.dotted(v.value) == hdrs and q.is_const(v.slice, hname))
            ck.ob("C47.headers", fi, a, bool(ok), "%s comes from request.headers[%r]" % (key, hname))
            ck.ob("C47.headers", fi, a, holds(facts[nd.id], "%r in %s" % (hname, hdrs), True), "%s is only set when the header is present" % key)
    # HTTP_* loop
    loops = [l for l in q.walk_body(fi.node) if isinstance(l, ast.For) and isinstance(l.iter, ast.Call) and q.dotted(l.iter.func) in (hdrs + ".items", hdrs + ".get_all")]
    ck.floor("C47.headers", len(loops), 1, "loops over request.headers")
    for l in loops:
        # HTTP_* variables are single-valued: they must be fed from the combined-value view (items()); get_all() yields
        # one pair per field line, so a repeated header would keep only its last line
        n += 1
        ck.ob("C47.headers", fi, l.iter, q.call_attr(l.iter) == "items", "the HTTP_* variables are built from request.headers.items() (comma-joined values of repeated headers), not from the per-line pairs of get_all()")
        kname = l.target.elts[0].id if isinstance(l.target, ast.Tuple) else None
        vname = l.target.elts[1].id if isinstance(l.target, ast.Tuple) else None
        sts = [s for st0 in l.body for s in q.walk_local(st0) if isinstance(s, ast.Assign) and isinstance(s.targets[0], ast.Subscript) and q.dotted(s.targets[0].value) == envname]
        ck.floor("C47.headers", len(sts), 1, "environ stores in the header loop")
        CONTENT = {"content_type", "content_length", "content-type", "content-length"}
        for s in sts:
            ke = expand(fi, s.targets[0].slice)
            pcs = concat_pieces(ke)
            ok_prefix = bool(pcs) and q.is_const(pcs[0], "HTTP_")
            if not ok_prefix:
                # a header stored without the HTTP_ prefix: allowed only for the two CGI content headers
                restricted = unknown = False
                for nd in fi.cfg.nodes_for(s):
                    for t, pol in facts[nd.id]:
                        if t.startswith("@") or not pol:
                            continue
                        try:
                            e = ast.parse(t, mode="eval").body
                        except SyntaxError:
                            continue
                        if isinstance(e, ast.Compare) and len(e.ops) == 1 and isinstance(e.ops[0], (ast.In, ast.Eq)) and kname in q.names_in(expand(fi, e.left)):
                            rhs = e.comparators[0]
                            if isinstance(rhs, ast.Name) and rhs.id in fi.module.assigns:
                                rhs = fi.module.assigns[rhs.id]
                            vals = [x.value for x in (rhs.elts if isinstance(rhs, (ast.Tuple, ast.List, ast.Set)) else [rhs]) if isinstance(x, ast.Constant) and isinstance(x.value, str)]
                            n_el = len(rhs.elts) if isinstance(rhs, (ast.Tuple, ast.List, ast.Set)) else 1
                            if vals and len(vals) == n_el:
                                restricted = restricted or all(v.lower() in CONTENT for v in vals)
                            else:
                                unknown = True
                if unknown and not restricted:
                    raise AnalysisError("C47.headers: the test selecting headers stored without the HTTP_ prefix is not recognised")
                n += 1
                ck.ob("C47.headers", fi, s, restricted, "a request header is stored in environ without the HTTP_ prefix only if it is Content-Type or Content-Length (any other header, e.g. Content-Encoding, must appear as HTTP_<NAME>)")
                continue
            meths = [c.func.attr for c in ast.walk(ke) if isinstance(c, ast.Call) and isinstance(c.func, ast.Attribute)]
            repl = [c for c in ast.walk(ke) if isinstance(c, ast.Call) and isinstance(c.func, ast.Attribute) and c.func.attr == "replace" and [getattr(a, "value", None) for a in c.args] == ["-", "_"]]
            n += 3
            ck.ob("C47.headers", fi, s, ok_prefix, "other headers are exported under the HTTP_ prefix")
            ck.ob("C47.headers", fi, s, bool(repl), "'-' in the header name becomes '_'")
            ck.ob("C47.headers", fi, s, "upper" in meths and kname in q.names_in(ke), "the header name is upper-cased")
            ck.ob("C47.headers", fi, s, q.dotted(expand(fi, s.value)) == vname, "the header value is passed unchanged")
    if deferred and not any(v.rule == "C47.headers" for v in ck.violations):
        raise AnalysisError("C47.headers: environ is written under computed keys; cannot tell whether %s is set" % "/".join(deferred))
    return n


def rule_response(ck):
    fi = ck.func(W, HR)
    facts = must_facts(fi.cfg)
    n = 0
    # the application's header list L: what is copied into the HTTPHeaders handed to write_headers
    wh_ = [c for c in q.calls(fi.node) if q.call_attr(c) == "write_headers"]
    ck.floor("C47.response", len(wh_), 1, "write_headers calls")
    Hs = {q.dotted(w.args[1] if len(w.args) > 1 else q.kwarg(w, "headers")) for w in wh_}
    Lc = set()
    for l in q.walk_body(fi.node):
        if isinstance(l, ast.For) and (any(isinstance(c, ast.Call) and isinstance(c.func, ast.Attribute) and c.func.attr in ("add", "__setitem__", "setdefault") and q.dotted(c.func.value) in Hs for st in l.body for c in q.calls(st))
                                       or any(isinstance(x, ast.Subscript) and isinstance(x.ctx, ast.Store) and q.dotted(x.value) in Hs for st in l.body for x in ast.walk(st))):
            Lc.add(q.dotted(l.iter))
    for a in q.walk_body(fi.node):
        if isinstance(a, (ast.Assign, ast.AnnAssign)) and isinstance(a.value, ast.Call) and q.call_attr(a.value) == "HTTPHeaders" and a.value.args and set(q.assigned_paths(a)) & Hs:
            Lc.add(q.dotted(a.value.args[0]))
        if isinstance(a, ast.Call) and isinstance(a.func, ast.Attribute) and a.func.attr == "update" and q.dotted(a.func.value) in Hs and a.args:
            Lc.add(q.dotted(a.args[0]))
    if len(Lc) != 1 or None in Lc:
        raise AnalysisError("C47.response: the application's header list copied into the response headers is not a single variable (%s)" % sorted(map(str, Lc)))
    L0 = next(iter(Lc))

    # default-header insertions into L: in handle_request itself or in a same-class helper it calls (one level)
    def ins_on(listname):
        return lambda x: isinstance(x, ast.Call) and isinstance(x.func, ast.Attribute) and x.func.attr in ("append", "insert", "extend") and q.dotted(x.func.value) == listname and x.args

    sites = []   # (function holding the insertion, its cfg node, call, node in handle_request that runs it, name->expr map into handle_request)
    for nd, c in fi.cfg.find(ins_on(L0)):
        sites.append((fi, nd, c, nd, None))
    for nd, call in fi.cfg.find(lambda x: isinstance(x, ast.Call)):
        h = callee(ck.repo, fi, call)
        if h is None or h.node is fi.node:
            continue
        mp = arg_map(h, call)
        if mp is None:
            continue
        for p_, a_ in mp.items():
            if q.dotted(a_) == L0:
                ck.use(h)
                for nd2, c2 in h.cfg.find(ins_on(p_)):
                    sites.append((h, nd2, c2, nd, mp))
    ck.floor("C47.response", len(sites), 1, "default header insertions into the application's header list")
    wchunks = [q.kwarg(w, "chunk") or (w.args[2] if len(w.args) > 2 else None) for w in wh_]

    def to_caller(mp, name):
        """expression in handle_request that a name of the helper stands for"""
        if mp is None:
            return name
        return q.dotted(mp[name]) if name in mp else None

    def lowered_set(sfi, sv, recv):
        if sv == recv:
            return False, True   # the test looks into the list of (name, value) pairs itself: a str is never an element of it
        b = unique_def(sfi, sv) if sv.isidentifier() else None
        if b is None and not sv.isidentifier():
            try:
                b = ast.parse(sv, mode="eval").body   # the tested collection written in place
            except SyntaxError:
                b = None
        if b is None:
            raise AnalysisError("C47.response: the set %s tested for header presence has no unique definition" % sv)
        low = isinstance(b, (ast.SetComp, ast.ListComp, ast.GeneratorExp)) and isinstance(b.elt, ast.Call) and q.call_attr(b.elt) == "lower" or (isinstance(b, ast.Call) and q.dotted(b.func) in ("set", "frozenset", "list", "tuple") and any(isinstance(c2, ast.Call) and q.call_attr(c2) == "lower" for c2 in ast.walk(b)))
        src = [q.dotted(g.iter) for g in getattr(b, "generators", [])] or [q.dotted(x) for x in ast.walk(b) if isinstance(x, ast.Name)]
        empty = (isinstance(b, ast.Call) and q.dotted(b.func) in ("set", "list") and not b.args) or (isinstance(b, (ast.List, ast.Set)) and not b.elts)
        if empty:
            # filled by a loop: every S.add(x) / S.append(x) decides
            adds = [(c2, l2) for l2 in q.walk_body(sfi.node) if isinstance(l2, ast.For) for st2 in l2.body for c2 in q.calls(st2) if isinstance(c2.func, ast.Attribute) and c2.func.attr in ("add", "append") and q.dotted(c2.func.value) == sv and c2.args]
            if not adds:
                raise AnalysisError("C47.response: how the set %s is filled is not recognised" % sv)
            low = all(isinstance(c2.args[0], ast.Call) and q.call_attr(c2.args[0]) == "lower" for c2, _l in adds)
            src = [q.dotted(l2.iter) for _c, l2 in adds]
        elif not low and not isinstance(b, (ast.SetComp, ast.ListComp, ast.GeneratorExp, ast.Call)):
            raise AnalysisError("C47.response: definition of %s (%s) not recognised" % (sv, q.unparse(b)))
        return bool(low), recv in src

    appends = []   # (anchor node in handle_request, call) for the ordering rule below
    applists = {L0}
    cl_values = []   # (function, value expression) of every default Content-Length
    for sfi, nd, c, anchor, mp in sites:
        appends.append((anchor, c))
        recv = q.dotted(c.func.value)
        el = c.args[-1]
        if c.func.attr == "extend" or not (isinstance(el, ast.Tuple) and len(el.elts) == 2):
            raise AnalysisError("C47.response: insertion %s into the header list is not an append of a (name, value) pair" % q.unparse(c))
        N, V = el.elts
        F = lazy_widened(sfi)[nd.id]
        if isinstance(N, ast.Constant) and isinstance(N.value, str):
            hname = N.value
            want = repr(hname.lower()) + " in "
            if hname.lower() == "content-length":
                cl_values.append((sfi, V, mp))
        elif isinstance(N, ast.Name):
            hname = "<%s>" % N.id
            want = "%s.lower() in " % N.id
            # the pairs come from a table of defaults built in the same function: its Content-Length entry is checked below
            for t_ in ast.walk(sfi.node):
                if isinstance(t_, ast.Tuple) and len(t_.elts) == 2 and isinstance(t_.elts[0], ast.Constant) and str(t_.elts[0].value).lower() == "content-length":
                    cl_values.append((sfi, t_.elts[1], mp))
        else:
            raise AnalysisError("C47.response: name of the inserted default header %s not recognised" % q.unparse(N))
        # presence tests that guard this insertion: `<probe> in <S>` known false, where the probe is the header name as a
        # literal (any spelling) or the name variable (raw or lower-cased)
        guards = []   # (probe is lower-cased?, text of S)
        scanned = False
        scans = []    # the same fact may appear in several spellings (explaining locals expanded): any spelling decides
        for t, pol in F:
            if pol or t.startswith("@"):
                continue
            try:
                e = ast.parse(t, mode="eval").body
            except SyntaxError:
                continue
            if isinstance(e, ast.Call) and q.dotted(e.func) == "any" and len(e.args) == 1 and isinstance(e.args[0], ast.GeneratorExp) and len(e.args[0].generators) == 1 and isinstance(N, ast.Constant):
                # not any(k.lower() == "server" for k, _ in headers): the same test written as a scan of the list
                g_ = e.args[0]
                cmp_ = g_.elt
                if isinstance(cmp_, ast.Compare) and len(cmp_.ops) == 1 and isinstance(cmp_.ops[0], ast.Eq):
                    sides = [cmp_.left, cmp_.comparators[0]]
                    lit = [x for x in sides if isinstance(x, ast.Constant) and isinstance(x.value, str) and x.value.lower() == hname.lower()]
                    var = [x for x in sides if not isinstance(x, ast.Constant)]
                    if lit and var:
                        lowered_var = isinstance(var[0], ast.Call) and q.call_attr(var[0]) in ("lower", "casefold")
                        scan_ok = lowered_var and lit[0].value == lit[0].value.lower()
                        scans.append((scan_ok, q.dotted(g_.generators[0].iter) == recv))
                        scanned = True
                continue
            if not (isinstance(e, ast.Compare) and len(e.ops) == 1 and isinstance(e.ops[0], ast.In)):
                continue
            probe, coll = e.left, q.unparse(e.comparators[0])
            if isinstance(N, ast.Constant):
                if isinstance(probe, ast.Constant) and isinstance(probe.value, str) and probe.value.lower() == hname.lower():
                    guards.append((probe.value == probe.value.lower(), coll))
            else:
                if isinstance(probe, ast.Call) and q.call_attr(probe) in ("lower", "casefold") and q.dotted(probe.func.value) == N.id:
                    guards.append((True, coll))
                elif q.dotted(probe) == N.id:
                    guards.append((False, coll))
        if scanned and not guards:
            n += 2
            ck.ob("C47.response", sfi, c, any(a_ for a_, _b in scans), "the absence test for %s compares lower-cased application header names with the lower-case name" % hname)
            ck.ob("C47.response", sfi, c, any(b_ for _a, b_ in scans), "the names scanned are those of the list the default is appended to (%s)" % recv)
            continue
        if not guards and any((hname.strip("<>").lower() in t.lower()) for t, _pol in F):
            raise AnalysisError("C47.response: the presence test guarding the default %s is not of a recognised form" % hname)
        n += 1
        ck.ob("C47.response", sfi, c, bool(guards), "default %s is added only under a '<name> not in <app header names>' test (the application's header is never overridden or duplicated)" % hname)
        ident = [g for g in guards if g[1].isidentifier()]
        for probe_lower, sv in (ident or guards[:1]):
            low, from_list = lowered_set(sfi, sv, recv)
            n += 2
            ck.ob("C47.response", sfi, c, low and probe_lower,
                  "the absence test for %s is case-insensitive: a lower-cased probe against the lower-cased set of application header names (%s) — %s" % (
                      hname, sv, "ok" if (low and probe_lower) else ("the set keeps the application's spelling, so 'content-type' does not count as present" if not low else "the probe is not lower-case, so it can never be found in a lower-cased set")))
            ck.ob("C47.response", sfi, c, from_list, "the names tested are those of the list the default is appended to (%s)" % recv)
    if not cl_values:
        raise AnalysisError("C47.response: default Content-Length value not found")
    for sfi, v, mp in cl_values:
        bodyv = [q.dotted(x.args[0]) for x in ast.walk(expand(sfi, v)) if isinstance(x, ast.Call) and q.is_call(x, "len") and x.args]
        if len(bodyv) != 1 or bodyv[0] is None:
            raise AnalysisError("C47.response: default Content-Length value %s not recognised" % q.unparse(v))
        n += 1
        ck.ob("C47.response", sfi, v, any(w is not None and q.dotted(w) == to_caller(mp, bodyv[0]) for w in wchunks), "the default Content-Length is the length of the body that is actually written")
    # multimap-preserving transfer of the application's header list into the HTTPHeaders handed to write_headers
    wh0 = [c for c in q.calls(fi.node) if q.call_attr(c) == "write_headers"]
    ck.floor("C47.response", len(wh0), 1, "write_headers calls")
    if len(applists) != 1 or None in applists:
        raise AnalysisError("C47.response: the application's header list (receiver of the default appends) is not a single variable")
    L = applists.pop()
    for w in wh0:
        harg = w.args[1] if len(w.args) > 1 else q.kwarg(w, "headers")
        H = q.dotted(harg) if harg is not None else None
        if H is None:
            # constructed inline: HTTPHeaders(<something>) directly in the call
            n += 1
            ck.ob("C47.response", fi, w, False, "the response headers must be an HTTPHeaders filled with add() per application header; an inline/dict-style construction collapses repeated names")
            continue
        binds = [a for a in q.walk_body(fi.node) if isinstance(a, (ast.Assign, ast.AnnAssign)) and H in q.assigned_paths(a)]
        if not binds:
            raise AnalysisError("C47.response: header object %s has no binding in handle_request" % H)
        for a in binds:
            v = a.value
            if not (isinstance(v, ast.Call) and q.call_attr(v) == "HTTPHeaders"):
                raise AnalysisError("C47.response: header object %s is not constructed as HTTPHeaders(..) (unknown idiom)" % H)
            n += 1
            ck.ob("C47.response", fi, a, not v.args and not v.keywords, "the response header map starts empty: HTTPHeaders(<pairs>) is dict-style initialisation (update/__setitem__), which keeps only the last of repeated names (Set-Cookie, Link) and skips add()'s validation")
        fw = 0
        for x in q.walk_body(fi.node):
            if isinstance(x, ast.Call) and isinstance(x.func, ast.Attribute) and q.dotted(x.func.value) == H and x.func.attr in ("update", "setdefault", "__setitem__"):
                fw += 1
                n += 1
                ck.ob("C47.response", fi, x, False, "%s.%s() replaces instead of appending: repeated application headers collapse" % (H, x.func.attr))
            if isinstance(x, ast.Assign) and isinstance(x.targets[0], ast.Subscript) and q.dotted(x.targets[0].value) == H:
                fw += 1
                n += 1
                ck.ob("C47.response", fi, x, False, "application headers must be forwarded with add(name, value): item assignment collapses repeated headers (Set-Cookie)")
        loops = [l for l in q.walk_body(fi.node) if isinstance(l, ast.For) and isinstance(l.target, ast.Tuple) and len(l.target.elts) == 2 and q.dotted(l.iter) == L]
        added = 0
        for l in loops:
            tn = [e.id for e in l.target.elts if isinstance(e, ast.Name)]
            for st in l.body:
                for c in q.calls(st):
                    if q.dotted(c.func) == H + ".add":
                        added += 1
                        n += 1
                        ck.ob("C47.response", fi, c, [q.dotted(a2) for a2 in c.args[:2]] == tn, "every (name, value) pair of the application's list is forwarded unchanged with add()")
            # the add is unconditional inside the loop (no filtering of pairs)
            for st in l.body:
                if isinstance(st, (ast.If, ast.Try, ast.Continue, ast.Break)):
                    n += 1
                    ck.ob("C47.response", fi, st, False, "the forwarding loop must not filter or skip application headers")
        if not added and not fw:
            n += 1
            ck.ob("C47.response", fi, w, False, "no loop over the application's header list %s forwards its pairs with %s.add() — the headers handed to write_headers do not carry every application header" % (L, H), construct="no add() forwarding loop")
        # defaults were appended to the list before it was copied: the loop comes after the last default insertion
        for l in loops:
            for nd in fi.cfg.nodes_for(l.iter):
                for and_, c in appends:
                    n += 1
                    ck.ob("C47.response", fi, c, nd.id in _reach(fi.cfg, and_), "the default %s is inserted before the list is copied into the response headers" % q.unparse(c.args[-1].elts[0]))
    # body bytes: app chunks -> response list -> b"".join -> utf8 -> write_headers(chunk=...), nothing lossy in between
    from ..x_exact import check_exact
    for w in wh0:
        ch = q.kwarg(w, "chunk") or (w.args[2] if len(w.args) > 2 else None)
        if ch is None:
            raise AnalysisError("C47.response: write_headers without chunk")
        steps = check_exact(ck, "C47.response", fi, ch, ["response"], "response body handed to write_headers", passthrough={"escape.utf8": 0, "utf8": 0, "join": 0}, site=w)
        for s_ in steps:
            if s_.kind == "passthrough" and s_.note == "join":
                n += 1
                ck.ob("C47.response", fi, s_.node, isinstance(s_.node.func, ast.Attribute) and isinstance(s_.node.func.value, ast.Constant) and s_.node.func.value.value in (b"", ""), "the application's chunks are concatenated with an empty separator")
    for nd, c in fi.cfg.find(lambda x: isinstance(x, ast.Call) and q.dotted(x.func) == "response.append" and x.args):
        check_exact(ck, "C47.response", fi, c.args[0], [], "application chunk collected for the body", passthrough={"run_in_executor": None, "next": None}, site=c)
        n += 1
    # end-of-iteration sentinel: distinguishable from every legal chunk (b"" is a legal chunk, PEP 3333)
    from ..x_optint import check_truthiness
    helpers = {h.name: h for h in ck.repo.nested(fi)}
    pulls = []
    for a in q.walk_body(fi.node):
        if isinstance(a, ast.NamedExpr):   # while (chunk := await ...) is not None:
            a = ast.Assign(targets=[ast.Name(id=a.target.id, ctx=ast.Store())], value=a.value)
        if isinstance(a, ast.Assign) and isinstance(a.targets[0], ast.Name):
            v = a.value.value if isinstance(a.value, ast.Await) else a.value
            if isinstance(v, ast.Call) and q.call_attr(v) == "run_in_executor":
                hs = [x.id for x in v.args if isinstance(x, ast.Name) and x.id in helpers and any(q.is_call(c2, "next") for c2 in q.calls(helpers[x.id].node))]
                if hs:
                    pulls.append((a.targets[0].id, helpers[hs[0]]))
                else:
                    # functools.partial(next, <iterator>, <sentinel>) is the closure `lambda: next(it, sentinel)`
                    for x in v.args:
                        d = resolve(fi, x)
                        if isinstance(d, ast.Call) and q.dotted(d.func) in ("functools.partial", "partial") and d.args and q.dotted(d.args[0]) == "next":
                            pulls.append((a.targets[0].id, d))
                        elif isinstance(d, ast.Lambda) and isinstance(d.body, ast.Call) and q.is_call(d.body, "next"):
                            # lambda: next(it, sentinel)  ==  partial(next, it, sentinel)
                            pulls.append((a.targets[0].id, ast.Call(func=ast.Name(id="partial", ctx=ast.Load()), args=[ast.Name(id="next", ctx=ast.Load())] + list(d.body.args), keywords=[])))
    if not pulls:
        raise AnalysisError("C47.response: the step that pulls the next chunk from the application iterable was not found (unknown idiom)")
    for chunkv, h in pulls:
        if isinstance(h, ast.Call):   # partial(next, it[, sentinel])
            if len(h.args) < 3:
                raise AnalysisError("C47.response: partial(next, it) without a default lets StopIteration escape into the executor future")
            n += 1
            ck.ob("C47.response", fi, h.args[2], q.is_const(h.args[2], None), "the end-of-iteration sentinel is None, which no application chunk can equal (an empty bytestring is a legal chunk)")
            continue
        ck.use(h)
        sentinels = []
        hpm = q.parent_map(h.node)
        for c2 in q.calls(h.node):
            if q.is_call(c2, "next"):
                if len(c2.args) == 2:
                    sentinels.append(c2.args[1])
                elif q.protected_by(hpm, c2, "StopIteration") is not None:
                    hd = q.protected_by(hpm, c2, "StopIteration")
                    rets = [r for st in hd.body for r in q.walk_local(st) if isinstance(r, ast.Return)]
                    if not rets:
                        raise AnalysisError("C47.response: StopIteration handler of %s does not return a sentinel" % h.qualname)
                    sentinels += [r.value if r.value is not None else ast.Constant(value=None) for r in rets]
                else:
                    raise AnalysisError("C47.response: next() in %s has neither a default nor a StopIteration handler" % h.qualname)
        for sv in sentinels:
            n += 1
            ck.ob("C47.response", h, sv, q.is_const(sv, None), "the end-of-iteration sentinel is None, which no application chunk can equal (an empty bytestring is a legal chunk)")
    nn = check_truthiness(ck, "C47.response", fi, extra={cv for cv, _h in pulls})
    explicit = [c2 for c2 in ast.walk(fi.node) if isinstance(c2, ast.Compare) and ((isinstance(c2.left, ast.Name) and c2.left.id in {cv for cv, _h in pulls}) or (isinstance(c2.left, ast.NamedExpr) and c2.left.target.id in {cv for cv, _h in pulls})) and isinstance(c2.ops[0], (ast.Is, ast.IsNot)) and q.is_const(c2.comparators[0], None)]
    if not explicit and not any(v.rule == "C47.response" and "truthiness" in v.message for v in ck.violations):
        raise AnalysisError("C47.response: the test that ends the chunk collection was not recognised")
    # status / reason / body plumbing
    wh = [c for c in q.calls(fi.node) if q.call_attr(c) == "write_headers"]
    ck.floor("C47.response", len(wh), 1, "write_headers calls")
    rsl = [a for a in q.walk_body(fi.node) if isinstance(a, ast.Assign) and isinstance(a.value, ast.Call) and q.call_attr(a.value) == "ResponseStartLine"]
    ck.floor("C47.response", len(rsl), 1, "ResponseStartLine constructions")
    # status text split once at the first space
    sp = [a for a in q.walk_body(fi.node) if isinstance(a, ast.Assign) and isinstance(a.targets[0], ast.Tuple) and isinstance(a.value, ast.Call) and q.call_attr(a.value) == "split"]
    for a in sp:
        v = a.value
        n += 1
        sep_, mx_ = call_arg(ck.repo, fi, v, 0, "sep"), call_arg(ck.repo, fi, v, 1, "maxsplit")
        ck.ob("C47.response", fi, a, sep_ is not None and q.is_const(sep_, " ") and mx_ is not None and q.is_const(mx_, 1), "the status line is split once at the first space (the reason phrase keeps its spaces)")
        codev, reasonv = [q.dotted(e) for e in a.targets[0].elts]
        for r in rsl:
            args = list(r.value.args)
            kwmap = {k.arg: k.value for k in r.value.keywords}
            for fld in ("version", "code", "reason")[len(args):]:
                if fld in kwmap:
                    args.append(kwmap[fld])
            intsrc = [b.value for b in q.walk_body(fi.node) if isinstance(b, ast.Assign) and len(args) > 1 and q.dotted(args[1]) in q.assigned_paths(b)]
            okc = len(args) == 3 and any(isinstance(b, ast.Call) and q.is_call(b, "int") and q.dotted(b.args[0]) == codev for b in intsrc)
            n += 1
            ck.ob("C47.response", fi, r, okc and q.dotted(args[2]) == reasonv, "the response start line carries the application's status code and reason phrase")
    for c in wh:
        ch = q.kwarg(c, "chunk") or (c.args[2] if len(c.args) > 2 else None)
        joins = [a for a in q.walk_body(fi.node) if isinstance(a, ast.Assign) and ch is not None and q.dotted(ch) in q.assigned_paths(a) and isinstance(a.value, ast.Call) and q.call_attr(a.value) == "join"]
        n += 1
        ck.ob("C47.response", fi, c, bool(joins) and len(c.args) >= 2 and q.dotted(c.args[0]) in {q.dotted(r.targets[0]) for r in rsl}, "write_headers receives the start line and the joined application body")
    return n


def run(ck):
    from ..x_resolve import install_prepared
    install_prepared(ck, __file__)
    ck.rule("C47.environ-total", "WSGIContainer.environ cannot raise: no raise/assert, frozen no-raise table, guarded pop/index, SINT on int()")
    ck.rule("C47.host-port", "host/port via httputil.split_host_and_port(request.host); SERVER_PORT = str(port) with protocol default when None")
    ck.rule("C47.cgi-keys", "required CGI/PEP 3333 keys present with the right provenance (PATH_INFO percent-decoded with plus=False)")
    ck.rule("C47.headers", "CONTENT_TYPE/LENGTH from the header map under a presence test; other headers as HTTP_<UPPER_WITH_UNDERSCORES> with unchanged values")
    ck.rule("C47.response", "default Content-Length/Content-Type/Server only when absent (case-insensitive); headers forwarded with add(); status/reason/body plumbing")
    fi = ck.func(W, ENV)   # prepared: helpers inlined, aliases (headers = request.headers) and literal-table loops looked through
    n = rule_total(ck, fi)
    ck.floor("C47.environ-total", n, 1, "governed operations in environ")
    from ..x_optint import check_truthiness
    check_truthiness(ck, "C47.host-port", fi)
    n = rule_keys(ck, fi)
    ck.floor("C47.cgi-keys", n, 20, "environ table obligations")
    n = rule_headers(ck, fi)
    ck.floor("C47.headers", n, 5, "header obligations")
    n = rule_response(ck)
    ck.floor("C47.response", n, 8, "response obligations")


# ---------------------------------------------------------------------------


def _e(edit, qn=ENV):
    return lambda repo: mutate(repo, W, qn, edit)


def _src(x):
    return ast.unparse(x)


def _undo_f27(root):
    """Restore the pre-repair shape: split(':') + bare int()."""
    for i, st in enumerate(root.body):
        if isinstance(st, ast.Assign) and "split_host_and_port" in _src(st):
            nxt = root.body[i + 1]
            if isinstance(nxt, ast.If) and "port is None" in _src(nxt.test):
                new = ast.parse(
                    "hostport = request.host.split(':')\n"
                    "if len(hostport) == 2:\n"
                    "    host = hostport[0]\n"
                    "    port = int(hostport[1])\n"
                    "else:\n"
                    "    host = request.host\n"
                    "    port = 443 if request.protocol == 'https' else 80\n").body
                root.body[i:i + 2] = new
                return True
    return False


def _dict_value(key, new_src):
    def edit(root):
        for n in ast.walk(root):
            if isinstance(n, ast.Dict):
                for i, k in enumerate(n.keys):
                    if isinstance(k, ast.Constant) and k.value == key:
                        n.values[i] = parse_expr(new_src)
                        return True
        return False
    return edit


def _dict_drop(key):
    def edit(root):
        for n in ast.walk(root):
            if isinstance(n, ast.Dict):
                for i, k in enumerate(n.keys):
                    if isinstance(k, ast.Constant) and k.value == key:
                        del n.keys[i]
                        del n.values[i]
                        return True
        return False
    return edit


MUTANTS = [
    ("undo the F27 repair: request.host.split(':') + bare int() (Host 'example.com:' -> ValueError)", _e(_undo_f27), ("C47.environ-total", "C47.host-port")),
    ("port default dropped: SERVER_PORT 'None' for a Host without port", _e(remove_stmts(lambda st: isinstance(st, ast.If) and "port is None" in _src(st.test))), "C47.host-port"),
    ("port default applied by truthiness ('if not port': an explicit port 0 is replaced)", _e(replace_expr(lambda n: isinstance(n, ast.Compare) and _src(n) == "port is None", lambda n: parse_expr("not port"))), "C47.host-port"),
    ("port default ignores the protocol (always 80)", _e(replace_expr(lambda n: isinstance(n, ast.IfExp) and "https" in _src(n), lambda n: ast.Constant(value=80))), "C47.host-port"),
    ("SERVER_PORT passed as int", _e(_dict_value("SERVER_PORT", "port")), "C47.host-port"),
    ("PATH_INFO decoded with plus=True ('+' becomes space)", _e(replace_expr(lambda n: isinstance(n, ast.keyword) and n.arg == "plus", lambda n: ast.keyword(arg="plus", value=ast.Constant(value=True)))), "C47.cgi-keys"),
    ("PATH_INFO not percent-decoded", _e(_dict_value("PATH_INFO", "request.path")), "C47.cgi-keys"),
    ("PATH_INFO decoded to str (utf-8) then handed to to_wsgi_str (assert fails)", _e(replace_expr(lambda n: isinstance(n, ast.keyword) and n.arg == "encoding", lambda n: ast.keyword(arg="encoding", value=ast.Constant(value="utf-8")))), "C47.environ-total"),
    ("REMOTE_ADDR taken from the Host header", _e(_dict_value("REMOTE_ADDR", "request.host")), "C47.cgi-keys"),
    ("PATH_INFO dropped", _e(_dict_drop("PATH_INFO")), "C47.cgi-keys"),
    ("QUERY_STRING taken from the full uri", _e(_dict_value("QUERY_STRING", "request.uri")), "C47.cgi-keys"),
    ("Content-Type popped without presence test (KeyError when absent)", _e(replace_stmt(lambda st: isinstance(st, ast.If) and "'Content-Type' in" in _src(st.test), lambda st: st.body)), ("C47.environ-total", "C47.headers")),
    ("seeded C47-adv4: every CONTENT_* header stored without the HTTP_ prefix (HTTP_CONTENT_ENCODING lost)", _e(lambda root: _content_prefix(root)), "C47.headers"),
    ("seeded C47-adv6: HTTP_* built from request.headers.get_all() (a repeated header keeps only its last line)", _e(replace_expr(lambda n: isinstance(n, ast.Attribute) and n.attr == "items" and "headers" in _src(n), lambda n: ast.Attribute(value=n.value, attr="get_all", ctx=ast.Load()))), "C47.headers"),
    ("HTTP_ keys not upper-cased", _e(replace_expr(lambda n: isinstance(n, ast.Call) and q.call_attr(n) == "upper", lambda n: n.func.value)), "C47.headers"),
    ("HTTP_ keys keep '-'", _e(replace_expr(lambda n: isinstance(n, ast.Call) and q.call_attr(n) == "replace", lambda n: n.func.value)), "C47.headers"),
    ("response: application header names not lower-cased before the absence tests", _e(replace_expr(lambda n: isinstance(n, ast.Call) and q.call_attr(n) == "lower", lambda n: n.func.value), HR), "C47.response"),
    ("response: Content-Length added unconditionally (duplicates the application's)", _e(replace_stmt(lambda st: isinstance(st, ast.If) and "'content-length' not in" in _src(st.test), lambda st: st.body), HR), "C47.response"),
    ("response: headers forwarded by item assignment (repeated Set-Cookie collapsed)", _e(replace_stmt(lambda st: isinstance(st, ast.Expr) and "header_obj.add" in _src(st), lambda st: [parse_stmt("header_obj[key] = value")]), HR), "C47.response"),
    ("seeded C47-adv1: header_obj = httputil.HTTPHeaders(headers) (dict-style init, duplicates collapse)", lambda repo: mutate(repo, W, HR, _dict_style_headers), "C47.response"),
    ("response: header_obj.update(headers) instead of the add() loop", _e(replace_stmt(lambda st: isinstance(st, ast.For) and "header_obj.add" in _src(st), lambda st: [parse_stmt("header_obj.update(headers)")]), HR), "C47.response"),
    ("response: forwarding loop skips headers already present (first value wins)", _e(replace_stmt(lambda st: isinstance(st, ast.Expr) and "header_obj.add" in _src(st), lambda st: [parse_stmt("if key not in header_obj:\n    header_obj.add(key, value)")]), HR), "C47.response"),
    ("response: body chunks stripped while collecting", _e(replace_expr(lambda n: isinstance(n, ast.Call) and q.dotted(n.func) == "response.append" and "chunk" in _src(n), lambda n: parse_expr("response.append(chunk.strip())")), HR), "C47.response"),
    ("response: chunks joined with a newline", _e(replace_expr(lambda n: isinstance(n, ast.Constant) and n.value == b"", lambda n: ast.Constant(value=b"\n")), HR), "C47.response"),
    ("seeded C47-adv2: sentinel b'' and 'if not chunk' (an empty chunk ends the body early)", _e(lambda root: _empty_sentinel(root), HR), "C47.response"),
    ("response: chunk loop stops on a falsy chunk (sentinel still None)", _e(replace_expr(lambda n: isinstance(n, ast.Compare) and _src(n) == "chunk is None", lambda n: parse_expr("not chunk")), HR), "C47.response"),
    ("seeded C47-adv5: presence tests compare canonical spellings with the application's own spellings (no lower-casing on either side)", _e(lambda root: _case_sensitive_defaults(root), HR), "C47.response"),
    ("response: probes title-cased but the set still lower-cased (defaults always added)", _e(replace_expr(lambda n: isinstance(n, ast.Constant) and n.value in ("content-length", "content-type", "server"), lambda n: ast.Constant(value=n.value.title()), limit=3), HR), "C47.response"),
    ("response: status split at every space (reason truncated, unpack error for 3 words)", _e(replace_expr(lambda n: isinstance(n, ast.Call) and q.call_attr(n) == "split" and "status" in _src(n), lambda n: ast.Call(func=n.func, args=n.args[:1], keywords=[])), HR), "C47.response"),
    ("response: Server default tested against the raw header list", _e(replace_expr(lambda n: isinstance(n, ast.Compare) and "'server'" in _src(n), lambda n: parse_expr("'server' not in headers")), HR), "C47.response"),
]


def _dict_style_headers(root):
    body = root.body
    for i, st in enumerate(body):
        if isinstance(st, ast.Assign) and "HTTPHeaders()" in _src(st) and i + 1 < len(body) and isinstance(body[i + 1], ast.For) and ".add(" in _src(body[i + 1]):
            lst = _src(body[i + 1].iter)
            body[i:i + 2] = [parse_stmt("%s = httputil.HTTPHeaders(%s)" % (_src(st.targets[0]), lst))]
            return True
    return False


def _empty_sentinel(root):
    done = 0
    for node in ast.walk(root):
        if isinstance(node, ast.FunctionDef) and node.name == "next_chunk":
            node.body = [parse_stmt("return next(app_response_iter, b'')")]
            done += 1
    for node in ast.walk(root):
        if isinstance(node, ast.If) and _src(node.test) == "chunk is None":
            node.test = parse_expr("not chunk")
            done += 1
    return done == 2


def _content_prefix(root):
    body = root.body
    idx = [i for i, st in enumerate(body) if isinstance(st, ast.If) and "in request.headers" in _src(st.test)]
    loops = [i for i, st in enumerate(body) if isinstance(st, ast.For) and "request.headers.items" in _src(st.iter)]
    if len(idx) != 2 or len(loops) != 1:
        return False
    new = ast.parse(
        "for key, value in request.headers.items():\n"
        "    name = key.replace('-', '_').upper()\n"
        "    if name.startswith('CONTENT_'):\n"
        "        environ[name] = value\n"
        "    else:\n"
        "        environ['HTTP_' + name] = value\n").body
    body[loops[0]:loops[0] + 1] = new
    for i in sorted(idx, reverse=True):
        del body[i]
    return True


def _case_sensitive_defaults(root):
    done = 0
    for node in ast.walk(root):
        if isinstance(node, ast.SetComp) and isinstance(node.elt, ast.Call) and q.call_attr(node.elt) == "lower":
            node.elt = node.elt.func.value
            done += 1
    for node in ast.walk(root):
        if isinstance(node, ast.Compare) and isinstance(node.left, ast.Constant) and node.left.value in ("content-length", "content-type", "server"):
            node.left = ast.Constant(value=node.left.value.title())
            done += 1
    return done == 4
