"""C03 — connection persistence follows the request's keep-alive semantics.

Decided statically (DESIGN.md §4 C03) by exhaustive finite-domain abstract
interpretation over the AST (vt.x_absint; nothing of tornado is executed) of the four anchored
mechanisms plus guard dominance on ``_read_message``:

* ``_can_keep_alive`` equals the reference decision table over {no_keep_alive,
  version, Connection value (case variants), Content-Length, chunked, method};
* ``_read_message`` (server) derives ``_disconnect_on_finish`` from that table
  before the delegate sees the headers, and sets ``_read_finished`` only after
  the body was read;
* ``finish`` arms ``_disconnect_on_finish`` before the request is finished iff
  the request body was not read completely;
* ``write_headers`` (server): ``Connection: close`` announced to HTTP/1.1 clients
  whenever the flag is set; ``Connection: Keep-Alive`` only when the flag is
  known false, and acknowledged to HTTP/1.0 keep-alive clients otherwise; a
  response that is neither bodiless, chunked nor Content-Length-delimited closes;
* ``_finish_request`` closes iff server and the flag is set.

Not decided: closes decided after the headers were sent (early finish) cannot be
announced by the code at all; observable persistence across pipelined requests.
"""
from __future__ import annotations

import ast
import itertools

from .. import q
from ..model import AnalysisError
from ..rules import call_sites
from ..mutate import mutate, remove_stmts, replace_expr, replace_stmt, parse_stmt, parse_expr
from ..x_http import norm_func, argx, mk_evaluator, module_consts, atom_edges, reach_without, resolve_call, single_bindings, node_mentions, self_modsets
from ..x_absint import Evaluator, HeaderMap, Obj, UNK

TECHNIQUE = "exhaustive finite-domain abstract interpretation of the keep-alive decision, header emission and close functions + guard dominance on the CFG"
EXPLANATION = (
    "The bodies of HTTP1Connection._can_keep_alive / write_headers (server branch) / finish / _finish_request are evaluated on abstract stub "
    "objects for every valuation of a finite input domain (version x Connection value x method x status x Content-Length x flags); unknown "
    "conditions fork; the resulting decision / emitted Connection header / flag / close call is compared with the reference table written "
    "from the property.  _read_message is checked by edge-guard dominance (flag assignment before headers_received, _read_finished after the body)."
)
NOT_DECIDED = (
    "announcing closes that are decided after the headers were sent (early finish); list-valued Connection headers ('close, x'); observable "
    "persistence across pipelined requests and the event loop's scheduling"
)

H1 = "tornado/http1connection.py"
CONN_VALUES = (None, "close", "Close", "keep-alive", "Keep-Alive", "upgrade")


def _F(ck, rel, qn):
    """the anchored function with private single-purpose helpers inlined (same qualified name)"""
    return norm_func(ck.repo, ck.func(rel, qn))


def _lc(v):
    return v.lower() if isinstance(v, str) else v


def keep_ref(no_keep_alive, version, conn, has_cl, chunked, method):
    """Reference (from the property): HTTP/1.1 without 'close', or HTTP/1.0 with
    'keep-alive' and a delimited request body; never when no_keep_alive."""
    if no_keep_alive:
        return False
    c = _lc(conn)
    if version == "HTTP/1.1":
        return c != "close"
    return c == "keep-alive" and (has_cl or chunked or method in ("GET", "HEAD"))


def _req_headers(conn, has_cl, chunked):
    h = HeaderMap()
    if conn is not None:
        h["Connection"] = conn
    if has_cl:
        h["Content-Length"] = "5"
    if chunked:
        h["Transfer-Encoding"] = "chunked"
    return h


def _te_hook(st, h=None, *a):
    if isinstance(h, HeaderMap):
        return _lc(h.get("Transfer-Encoding", "")) == "chunked"
    return UNK


def _modset(ck):
    ms = self_modsets(ck.repo, H1, "HTTP1Connection")
    return lambda d: ms.get(d.split(".")[1])


def _evaluator(ck, root, **kw):
    """Evaluator for method ``root`` of HTTP1Connection: helper methods that (transitively) assign the
    persistence flag or receive the headers are interpreted inline; all others are havocked by mod-set."""
    ms = getattr(ck, "_c03_modsets", None)
    if ms is None:
        ms = ck._c03_modsets = self_modsets(ck.repo, H1, "HTTP1Connection")
    ev = Evaluator(modset=lambda d: ms.get(d.split(".")[1]), **kw)
    ev.globals = module_consts(ck.repo.module(H1))
    ev.signatures["is_transfer_encoding_chunked"] = ["headers"]
    skip = {root, "close", "_clear_callbacks", "_finish_request", "_format_chunk", "_on_write_complete", "_can_keep_alive", "write_headers", "finish", "_read_message"}

    def inline(d):
        name = d.split(".")[1]
        if name in skip or not ck.repo.has_func(H1, "HTTP1Connection." + name):
            return None
        f = norm_func(ck.repo, ck.repo.func(H1, "HTTP1Connection." + name))
        if isinstance(f.node, ast.AsyncFunctionDef):
            return None
        ck.use(f)
        return f.node

    ev.inline = inline
    return ev


def check_table(ck):
    R = "C03.keep-alive-table"
    fi = _F(ck, H1, "HTTP1Connection._can_keep_alive")
    ps = [p for p in fi.params() if p != "self"]
    if len(ps) != 2:
        raise AnalysisError("_can_keep_alive: expected (start_line, headers) parameters")
    ev = _evaluator(ck, "_can_keep_alive", funcs={"is_transfer_encoding_chunked": _te_hook})
    n = 0
    for nka, ver, conn in itertools.product((False, True), ("HTTP/1.1", "HTTP/1.0"), CONN_VALUES):
        bad = None
        for has_cl, chunked, method in itertools.product((False, True), (False, True), ("GET", "HEAD", "POST")):
            if has_cl and chunked:
                continue  # rejected before this point (C01)
            me = Obj("self", params=Obj("params", no_keep_alive=nka), no_keep_alive=nka, is_client=False)
            env = {"self": me, ps[0]: Obj("start_line", version=ver, method=method), ps[1]: _req_headers(conn, has_cl, chunked)}
            outs = ev.run(fi.node, env)
            n += 1
            want = keep_ref(nka, ver, conn, has_cl, chunked, method)
            if any(o.kind == "raise" for o in outs):
                bad = bad or "raises %s for Content-Length=%s chunked=%s method=%s" % ([o.value for o in outs if o.kind == "raise"][0], has_cl, chunked, method)
                continue
            vals = {(_truth(o.value) if o.kind == "return" else False) for o in outs}
            if UNK in vals or len(vals) != 1:
                raise AnalysisError("_can_keep_alive is not decidable by constant folding for version=%s Connection=%r (%r)" % (ver, conn, outs))
            got = vals.pop()
            if got != want:
                bad = bad or "returns %s, expected %s for Content-Length=%s chunked=%s method=%s" % (got, want, has_cl, chunked, method)
        ck.ob(R, fi, fi.node, bad is None,
              "keep-alive decision equals the reference for no_keep_alive=%s %s Connection=%r over all body framings/methods%s" % (nka, ver, conn, "" if bad is None else ": " + bad),
              construct="row no_keep_alive=%s version=%s connection=%r" % (nka, ver, conn))
    ck.floor(R, n, 200, "evaluated input valuations")


def _truth(v):
    if v is UNK:
        return UNK
    return bool(v)


def check_read_message(ck):
    repo = ck.repo
    fi = _F(ck, H1, "HTTP1Connection._read_message")
    cfg = fi.cfg
    cka = repo.func(H1, "HTTP1Connection._can_keep_alive")
    binds = single_bindings(fi.node)
    R = "C03.flag-from-table"

    def is_flag_assign(n):
        if not (n.kind == "stmt" and isinstance(n.ast, ast.Assign) and "self._disconnect_on_finish" in q.assigned_paths(n.ast)):
            return False
        v = n.ast.value
        if isinstance(v, ast.UnaryOp) and isinstance(v.op, ast.Not):
            x = v.operand
            if isinstance(x, ast.Name) and x.id in binds:
                x = binds[x.id]
            return isinstance(x, ast.Call) and resolve_call(repo, fi, x) is cka
        return False

    good = {n.id for n in cfg.stmt_nodes(is_flag_assign)}
    all_assigns = cfg.stmt_nodes(lambda n: n.kind == "stmt" and isinstance(n.ast, (ast.Assign, ast.AugAssign, ast.AnnAssign)) and "self._disconnect_on_finish" in q.assigned_paths(n.ast))
    ck.floor(R, len(all_assigns), 1, "assignments to _disconnect_on_finish in _read_message")
    client = atom_edges(cfg, lambda a: True if q.dotted(a) == "self.is_client" else None)
    server_reach = reach_without(cfg, client)
    for n in all_assigns:
        if n.id in good or n.id not in server_reach:
            continue
        # any other server-side assignment must not clear the flag; a value the rule cannot read is not decided
        v_ = n.ast.value
        if isinstance(v_, ast.Name) and v_.id in binds:
            v_ = binds[v_.id]
        if isinstance(v_, ast.Call) and resolve_call(repo, fi, v_) is cka:
            ck.ob(R, fi, n.ast, False, "the flag is the negation of the keep-alive decision")
            continue
        if not isinstance(n.ast.value, ast.Constant):
            raise AnalysisError("_read_message: _disconnect_on_finish assigned from an expression the rule does not recognise (%s)" % q.unparse(n.ast)[:80])
        ck.ob(R, fi, n.ast, q.is_const(n.ast.value, True), "on the server the flag is only derived from _can_keep_alive (or forced True)")
    hdrs = [(n, c) for n, c in cfg.find(lambda x: isinstance(x, ast.Call) and q.call_attr(x) == "headers_received")]
    ck.floor(R, len(hdrs), 1, "delegate.headers_received calls")
    r = reach_without(cfg, client, stop=lambda n: n.id in good)
    for node, c in hdrs:
        ck.ob(R, fi, c, node.id not in r, "server: _disconnect_on_finish = not _can_keep_alive(request line, headers) is assigned on every path before the delegate sees the headers")
    # arguments: the parsed start line and headers of this message
    dele_args = None
    for node, c in hdrs:
        dele_args = [q.dotted(q.arg(c, 0, "start_line")), q.dotted(q.arg(c, 1, "headers"))]
    for nid in good:
        v = cfg.nodes[nid].ast.value.operand
        if isinstance(v, ast.Name):
            v = binds[v.id]
        names = [q.dotted(argx(repo, fi, v, 0, "start_line")), q.dotted(argx(repo, fi, v, 1, "headers"))]
        hdr_var = names[1] if len(names) > 1 else None
        ok = len(names) == 2 and dele_args is not None and len(dele_args) == 2 and hdr_var == dele_args[1]
        # the start line passed is the one bound from parse_request_start_line
        sl = binds.get(names[0]) if names and names[0] in binds else None
        ok = ok and isinstance(sl, ast.Call) and q.call_attr(sl) == "parse_request_start_line"
        ck.ob(R, fi, cfg.nodes[nid].ast, ok, "the decision is taken on this message's parsed request line and the headers handed to the delegate")

    R = "C03.read-finished-after-body"
    rf = cfg.stmt_nodes(lambda n: n.kind == "stmt" and isinstance(n.ast, ast.Assign) and "self._read_finished" in q.assigned_paths(n.ast))
    ck.floor(R, len(rf), 1, "assignments to _read_finished in _read_message")
    body_nodes = {n.id for n in cfg.stmt_nodes(lambda n: node_mentions(n, lambda x: (isinstance(x, ast.Call) and q.call_attr(x) == "_read_body") or (isinstance(x, ast.Await) and (q.dotted(x.value) or "").startswith("body_"))))}
    if not body_nodes:
        raise AnalysisError("_read_message: body read sites not found")
    fin = {n.id for n, c in cfg.find(lambda x: isinstance(x, ast.Call) and q.call_attr(x) == "finish" and not (q.dotted(x.func.value) or "").startswith("self"))}
    for n in rf:
        ck.ob(R, fi, n.ast, q.is_const(n.ast.value, True), "_read_finished is only ever set to True here")
        after = reach_without(cfg, (), start=n.id)
        ck.ob(R, fi, n.ast, not (after & body_nodes), "_read_finished = True only after the body read completed (no body read can follow it)")
    # every path that reaches delegate.finish() has set it (so a handler finishing later is not treated as early)
    r = reach_without(cfg, (), stop=lambda n: n.id in {x.id for x in rf})
    for nid in fin:
        ck.ob(R, fi, cfg.nodes[nid].ast, nid not in r, "_read_finished is set on every path before delegate.finish()")


def check_exchange_result(ck):
    """after a completed exchange on an attached stream _read_message returns True (the serving loop goes on)"""
    R = "C03.exchange-returns-true"
    fi = _F(ck, H1, "HTTP1Connection._read_message")
    cfg = fi.cfg
    fins = [n for n, c in cfg.find(lambda x: isinstance(x, ast.Call) and q.call_attr(x) == "finish" and not (q.dotted(x.func.value) or "").startswith("self"))]
    ck.floor(R, len(fins), 1, "delegate.finish() sites")
    detached = atom_edges(cfg, lambda a: True if (isinstance(a, ast.Compare) and isinstance(a.ops[0], ast.Is) and q.dotted(a.left) == "self.stream" and q.is_const(a.comparators[0], None)) else None)
    closed_t = atom_edges(cfg, lambda a: True if (isinstance(a, ast.Call) and q.call_attr(a) in ("closed", "is_closing") and (q.dotted(a.func.value) or "").endswith("stream")) else None)
    detached = detached | closed_t
    n = 0
    for f in fins:
        r = reach_without(cfg, detached, start=f.id, follow_exc=False)
        rets = [cfg.nodes[i] for i in r if cfg.nodes[i].kind == "stmt" and isinstance(cfg.nodes[i].ast, ast.Return)]
        for rt in rets:
            n += 1
            ck.ob(R, fi, rt.ast, q.is_const(rt.ast.value, True), "after delegate.finish() on an attached stream _read_message returns True, so a persistent connection is served again")
    ck.floor(R, n, 1, "returns after a completed exchange")
    from . import c01 as _c01
    _c01.check_serving_loop(ck, R)


def check_closed_stops_serving(ck):
    """Once the response closed the connection (_finish_request -> close()), no further request of that connection may be
    handled: either _read_message reports success only with the stream known open since its last suspension point, or
    the serving loop tests the stream before it reads the next request (data of a pipelined request may already sit
    in the read buffer of the closed stream, and reading from a closed stream's buffer succeeds)."""
    R = "C03.closed-stops-serving"
    fi = _F(ck, H1, "HTTP1Connection._read_message")
    lp = _F(ck, H1, "HTTP1ServerConnection._server_request_loop")

    def open_edges(cfg):
        return atom_edges(cfg, lambda a: False if (isinstance(a, ast.Call) and q.call_attr(a) in ("closed", "is_closing") and (q.dotted(a.func.value) or "").endswith("stream")) else None)

    def stale_points(cfg):
        # places after which "the stream is open" is no longer known: function entry, suspension points, explicit closes
        return [n.id for n in cfg.nodes if n.id in cfg.reachable() and (n.kind == "entry" or n.suspends or node_mentions(n, lambda x: q.is_call(x, "self.close", "self.stream.close", ".close") and isinstance(x, ast.Call)))]

    # (1) inside _read_message: every `return <truthy>` is reached only with a fresh not-closed test
    cfg = fi.cfg
    E = open_edges(cfg)
    unguarded = set()
    for sp in stale_points(cfg):
        unguarded |= reach_without(cfg, E, start=sp, follow_exc=False)
    rets = [n for n in cfg.stmt_nodes(lambda n: n.kind == "stmt" and isinstance(n.ast, ast.Return) and not (isinstance(n.ast.value, ast.Constant) and not n.ast.value.value))]
    ck.floor(R, len(rets), 1, "success returns of _read_message")
    inner_ok = all(r.id not in unguarded for r in rets)
    # (2) in the serving loop: the next iteration is reached only through a fresh not-closed test
    lcfg = lp.cfg
    LE = open_edges(lcfg)
    heads = [n for n in lcfg.nodes if n.kind == "join" and n.label == " while"]
    reads = [n for n, c in lcfg.find(lambda x: isinstance(x, ast.Call) and q.call_attr(x) == "read_response")]
    if not heads or not reads:
        raise AnalysisError("_server_request_loop: loop head / read_response not found")
    loop_ok = True
    for rd in reads:
        again = reach_without(lcfg, LE, start=rd.id, follow_exc=False)
        if any(h.id in again for h in heads):
            loop_ok = False
    for r in rets:
        ck.ob(R, fi, r.ast, inner_ok or loop_ok, "after the response closed the connection no further (pipelined) request is handled: success is reported / the loop continues only with the stream tested open after the last suspension point")


def check_early_finish_announced(ck):
    """write_headers immediately followed by finish() while the request body is still unread (RequestHandler.finish()
    of a handler that answers before reading the body): the close that finish() decides must already be announced."""
    R = "C03.early-finish-announced"
    wh = _F(ck, H1, "HTTP1Connection.write_headers")
    fn = _F(ck, H1, "HTTP1Connection.finish")
    ps = [p for p in wh.params() if p != "self"]
    n = 0
    for ver, conn in (("HTTP/1.1", None), ("HTTP/1.1", "keep-alive"), ("HTTP/1.0", "keep-alive"), ("HTTP/1.0", "Keep-Alive")):
        ev = _evaluator(ck, "write_headers")
        me = Obj("self", is_client=False, _disconnect_on_finish=False, _read_finished=False, _write_finished=False, _chunking_output=False, _expected_content_remaining=None,
                 _request_start_line=Obj("req", version=ver, method="POST", path="/"), _request_headers=_req_headers(conn, True, False),
                 stream=Obj("stream"), _response_start_line=None, _pending_write=None, _write_future=None, no_keep_alive=False)
        resp = HeaderMap({"Content-Type": "text/plain", "Content-Length": "4"})
        env = {"self": me, ps[0]: Obj("start_line", version="HTTP/1.1", code=200, reason="OK"), ps[1]: resp}
        for p in ps[2:]:
            env[p] = None
        for o in [o for o in ev.run(wh.node, env) if o.kind != "raise"]:
            h = o.state.env[ps[1]]
            if not isinstance(h, HeaderMap) or h.poisoned:
                raise AnalysisError("write_headers hands its headers to code the evaluator does not model")
            ch = _lc(h.get("Connection"))
            me2 = o.state.env["self"]
            me2.attrs["_expected_content_remaining"] = 0
            me2.attrs["_pending_write"] = None
            closes = []

            def on_call(st, c, d, args, closes=closes):
                if d == "self._finish_request" or any(isinstance(x, ast.Attribute) and q.dotted(x) == "self._finish_request" for a in list(c.args) + [k.value for k in c.keywords] for x in ast.walk(a)):
                    closes.append(st.env["self"].attrs.get("_disconnect_on_finish", UNK))

            ev2 = _evaluator(ck, "finish", on_call=on_call)
            outs2 = [x for x in ev2.run(fn.node, {"self": me2}) if x.kind != "raise"]
            if not outs2 or not closes or UNK in closes or ch is UNK:
                raise AnalysisError("write_headers + finish: outcome not decidable by folding")
            will_close = all(c is True for c in closes)
            n += 1
            tag = "%s request%s, body unread when the handler finishes" % (ver, "" if conn is None else " with Connection: %s" % conn)
            if ver == "HTTP/1.1":
                ck.ob(R, wh, wh.node, (not will_close) or ch == "close", "%s: the server closes after the response, so the response says 'Connection: close' (it says %r)" % (tag, ch), construct="early finish HTTP/1.1: close not announced")
            else:
                ck.ob(R, wh, wh.node, (not will_close) or ch != "keep-alive", "%s: the server closes after the response, so no Keep-Alive acknowledgement is sent (Connection=%r)" % (tag, ch), construct="early finish HTTP/1.0: Keep-Alive acknowledged")
    ck.floor(R, n, 4, "folded write_headers + finish sequences")


def check_per_request_state(ck):
    R = "C03.per-request-state"
    ci = _F(ck, H1, "HTTP1Connection.__init__")
    for attr in ("_disconnect_on_finish", "_read_finished", "_write_finished"):
        sts = q.stores_to(ci.node, "self." + attr)
        ck.ob(R, ci, sts[0] if sts else ci.node, len(sts) == 1 and q.is_const(sts[0].value, False), "a new request starts with %s = False" % attr, construct="init %s" % attr)
    lp = _F(ck, H1, "HTTP1ServerConnection._server_request_loop")
    pm = q.parent_map(lp.node)
    ctor = [c for c in q.calls(lp.node) if q.call_attr(c) == "HTTP1Connection"]
    ck.floor(R, len(ctor), 1, "HTTP1Connection constructions in the serving loop")
    for c in ctor:
        ck.ob(R, lp, c, any(isinstance(a, ast.While) for a in q.ancestors(pm, c)), "persistence state is per request: a fresh HTTP1Connection for every request of the connection")
        ic = argx(ck.repo, lp, c, 1, "is_client")
        if ic is None or not isinstance(ic, ast.Constant):
            raise AnalysisError("_server_request_loop: is_client argument of HTTP1Connection(...) not decidable (%s)" % q.unparse(c)[:80])
        ck.ob(R, lp, c, q.is_const(ic, False), "the serving loop creates server-mode connections")
    # nobody but the anchored mechanisms (and private helpers reachable only from them) writes the flag
    allowed = {"__init__", "_read_message", "finish", "write_headers"}
    methods = {f.name: f for f in ck.repo.direct_methods(H1, "HTTP1Connection")}
    callers = {}
    for f in methods.values():
        for c in q.calls(f.node):
            d = q.dotted(c.func)
            if d and d.startswith("self.") and d.count(".") == 1 and d.split(".")[1] in methods:
                callers.setdefault(d.split(".")[1], set()).add(f.name)
        for x in q.walk_body(f.node):  # bound-method references (callbacks, functools.partial)
            if isinstance(x, ast.Attribute) and q.dotted(x) and q.dotted(x).startswith("self.") and x.attr in methods and isinstance(x.ctx, ast.Load):
                callers.setdefault(x.attr, set()).add(f.name)

    def roots(name, seen=()):
        if name in allowed:
            return {name}
        if name in seen or not name.startswith("_") or not callers.get(name):
            return {"<%s>" % name}
        out = set()
        for c in callers[name]:
            out |= roots(c, seen + (name,))
        return out

    writers = sorted({f.name for f in methods.values() if q.stores_to(f.node, "self._disconnect_on_finish")})
    foreign = sorted({r for w in writers for r in roots(w) if r not in allowed})
    ck.ob(R, None, ck.repo.cls(H1, "HTTP1Connection"), not foreign, "_disconnect_on_finish is written only by __init__, _read_message, write_headers, finish and private helpers reachable only from them (writers: %s%s)" % (", ".join(writers), "" if not foreign else "; reachable from " + ", ".join(foreign)), construct="writers of _disconnect_on_finish", file=H1)


def check_finish(ck):
    R = "C03.finish-early-close"
    fi = _F(ck, H1, "HTTP1Connection.finish")
    seen = {"calls": 0}
    nested_cb = {st.name for st in ast.walk(fi.node) if isinstance(st, (ast.FunctionDef, ast.AsyncFunctionDef)) and st is not fi.node and any(isinstance(x, ast.Attribute) and q.dotted(x) == "self._finish_request" for x in ast.walk(st))}
    nested_cb |= {t.id for st in ast.walk(fi.node) if isinstance(st, ast.Assign) and isinstance(st.value, (ast.Lambda, ast.Call)) and any(isinstance(x, ast.Attribute) and q.dotted(x) == "self._finish_request" for x in ast.walk(st.value)) for t in st.targets if isinstance(t, ast.Name)}
    modset = _modset(ck)

    for read_finished, disc0, chunking, pending in itertools.product((False, True), (False, True), (False, True), (None, "future")):
        records = []

        def on_call(st, c, d, args, records=records):
            # called directly, or handed over as a callback: bound method, lambda, functools.partial, nested def
            mentions = lambda e: any(isinstance(x, ast.Attribute) and q.dotted(x) == "self._finish_request" for x in ast.walk(e))
            hit = d == "self._finish_request" or any(mentions(a) or (isinstance(a, ast.Name) and a.id in nested_cb) for a in list(c.args) + [k.value for k in c.keywords])
            if hit:
                me = st.env["self"]
                records.append((me.attrs.get("_disconnect_on_finish", UNK), c))

        ev = _evaluator(ck, "finish", on_call=on_call)
        me = Obj("self", _read_finished=read_finished, _disconnect_on_finish=disc0, _chunking_output=chunking, _expected_content_remaining=None,
                 _pending_write=(None if pending is None else UNK), is_client=False, _write_finished=False)
        outs = ev.run(fi.node, {"self": me})
        normal = [o for o in outs if o.kind != "raise"]
        if not normal:
            raise AnalysisError("HTTP1Connection.finish has no normal outcome for a consistent state")
        want = True if not read_finished else disc0
        seen["calls"] += len(records)
        bad = [r for r in records if r[0] is not want]
        if not records and any(isinstance(x, ast.Attribute) and x.attr == "_finish_request" for x in ast.walk(fi.node)):
            raise AnalysisError("finish(): _finish_request is invoked or scheduled in a form the rule does not recognise")
        ck.ob(R, fi, bad[0][1] if bad else fi.node, not bad and bool(records),
              "when _finish_request runs/is scheduled, _disconnect_on_finish is %s (request body read completely: %s, flag before: %s)" % (want, read_finished, disc0),
              construct="finish: read_finished=%s flag_before=%s -> flag at _finish_request" % (read_finished, disc0))
        for o in normal:
            got = o.state.env["self"].attrs.get("_disconnect_on_finish", UNK)
            ck.ob(R, fi, fi.node, got is want, "after finish() the flag is %s (read_finished=%s, before=%s)" % (want, read_finished, disc0),
                  construct="finish: read_finished=%s flag_before=%s -> flag after" % (read_finished, disc0))
    ck.floor(R, seen["calls"], 8, "_finish_request invocations over the evaluated states")


def check_finish_request(ck):
    R = "C03.finish-request-closes"
    fi = _F(ck, H1, "HTTP1Connection._finish_request")
    ps = [p for p in fi.params() if p != "self"]
    n = 0
    modset = _modset(ck)
    for is_client, disc in itertools.product((False, True), (False, True)):
        ev = _evaluator(ck, "_finish_request")
        me = Obj("self", is_client=is_client, _disconnect_on_finish=disc, stream=Obj("stream"), _finish_future=Obj("fut"))
        outs = ev.run(fi.node, dict({"self": me}, **{p: None for p in ps}))
        for o in outs:
            n += 1
            if o.kind == "raise":
                ck.ob(R, fi, o.node, False, "_finish_request does not raise")
                continue
            closes = [e for e in o.state.events if e[0] in ("self.close", "self.stream.close")]
            want = (not is_client) and disc
            ck.ob(R, fi, fi.node, bool(closes) == want, "the connection is closed after the response iff server and _disconnect_on_finish (is_client=%s flag=%s)" % (is_client, disc),
                  construct="_finish_request: is_client=%s flag=%s closes=%s" % (is_client, disc, bool(closes)))
    ck.floor(R, n, 4, "evaluated outcomes")
    cl = _F(ck, H1, "HTTP1Connection.close")
    sc = call_sites(cl, "self.stream.close")
    ck.floor(R, len(sc), 1, "stream.close() in HTTP1Connection.close")
    for node, c in sc:
        # close() must reach stream.close() whenever the stream is attached: only tests on self.stream may guard it
        tests_before = [n for n in cl.cfg.stmt_nodes(lambda n: n.kind == "test") if cl.cfg.dominates(n, node)]
        ck.ob(R, cl, c, all(q.dotted(getattr(t.ast, "left", t.ast)) == "self.stream" for t in tests_before), "HTTP1Connection.close() closes the stream whenever it is attached (no other condition)")


def _bodiless(method, code):
    return method == "HEAD" or code in (204, 304) or 100 <= code < 200


def check_write_headers(ck):
    fi = _F(ck, H1, "HTTP1Connection.write_headers")
    ps = [p for p in fi.params() if p != "self"]
    if len(ps) < 2:
        raise AnalysisError("write_headers: expected (start_line, headers, chunk) parameters")
    RA, RB, RC, RD = "C03.close-announced", "C03.keepalive-only-when-staying", "C03.keepalive-acknowledged", "C03.undelimited-closes"
    RE = "C03.no-needless-close"
    rows = {}
    modset = _modset(ck)
    n_paths = 0
    seen_close = seen_ka = False
    for ver, conn, disc0 in itertools.product(("HTTP/1.1", "HTTP/1.0"), CONN_VALUES, (False, True)):
        # a clear flag is only consistent with the keep-alive table
        if not disc0 and not any(keep_ref(False, ver, conn, cl, ch, m) for cl in (False, True) for ch in (False, True) for m in ("GET", "HEAD", "POST")):
            continue
        key = (ver, _lc(conn), disc0)
        row = rows.setdefault(key, {RA: None, RB: None, RC: None, RD: None, RE: None, "node": None})
        for method, code, has_cl, app_conn in itertools.product(("GET", "HEAD", "POST"), (200, 204, 304, 101), (False, True), (None, "keep-alive", "Upgrade")):
            if app_conn is not None and not (ver == "HTTP/1.1" and disc0):
                continue  # an application-supplied Connection header is only examined for the close announcement
            ev = _evaluator(ck, "write_headers")
            me = Obj("self", is_client=False, _disconnect_on_finish=disc0, _read_finished=True, _write_finished=False, _chunking_output=False, _expected_content_remaining=None,
                     _request_start_line=Obj("req", version=ver, method=method, path="/"), _request_headers=_req_headers(conn, False, False),
                     stream=Obj("stream"), _response_start_line=None, _pending_write=None, _write_future=None, no_keep_alive=False)
            resp = HeaderMap({"Content-Type": "text/plain"})
            if has_cl:
                resp["Content-Length"] = "5"
            if app_conn is not None:
                resp["Connection"] = app_conn  # the handler set its own Connection response header
            env = {"self": me, ps[0]: Obj("start_line", version="HTTP/1.1", code=code, reason="X"), ps[1]: resp}
            for p in ps[2:]:
                env[p] = UNK
            outs = ev.run(fi.node, env)
            normal = [o for o in outs if o.kind in ("return", "fall")]
            if not normal:
                raise AnalysisError("write_headers has no normal outcome for %s %s code=%s" % (ver, method, code))
            for o in normal:
                n_paths += 1
                s = o.state.env["self"].attrs
                h = o.state.env[ps[1]]
                if not isinstance(h, HeaderMap) or h.poisoned:
                    raise AnalysisError("write_headers hands its headers to code the evaluator does not model (or rebinds them)")
                ch = _lc(h.get("Connection"))
                disc = s.get("_disconnect_on_finish", UNK)
                chunking = s.get("_chunking_output", UNK)
                if disc is UNK or chunking is UNK or ch is UNK:
                    raise AnalysisError("write_headers: flag/Connection header not decidable by constant folding (%s %s %s)" % (ver, conn, code))
                desc = "method=%s status=%s Content-Length=%s%s" % (method, code, has_cl, "" if app_conn is None else " handler-supplied Connection=%r" % app_conn)
                if ver == "HTTP/1.1" and disc and ch != "close":
                    row[RA] = row[RA] or "Connection=%r for %s" % (ch, desc)
                if app_conn is not None:
                    continue
                if ver == "HTTP/1.1" and disc and ch == "close":
                    seen_close = True
                if ch == "keep-alive":
                    seen_ka = True
                    if disc is not False:
                        row[RB] = row[RB] or "Connection: Keep-Alive sent although the connection will close (%s)" % desc
                delimited = _bodiless(method, code) or chunking or ("Content-Length" in h)
                if ver == "HTTP/1.0" and _lc(conn) == "keep-alive" and not disc and delimited and ch != "keep-alive":
                    row[RC] = row[RC] or "no Keep-Alive acknowledgement (%s)" % desc
                if not delimited and not disc:
                    row[RD] = row[RD] or "body neither chunked nor Content-Length-delimited and the connection stays open (%s)" % desc
                if delimited and not disc0 and disc:
                    row[RE] = row[RE] or "the response is self-delimiting and the request allows persistence, yet the connection is marked for closing (%s)" % desc
    for (ver, conn, disc0), row in sorted(rows.items(), key=repr):
        tag = "request %s Connection=%s disconnect_on_finish=%s" % (ver, conn, disc0)
        ck.ob(RA, fi, fi.node, row[RA] is None, "HTTP/1.1 client is told 'Connection: close' when the server will close [%s]%s" % (tag, "" if row[RA] is None else ": " + row[RA]), construct=tag)
        ck.ob(RB, fi, fi.node, row[RB] is None, "Keep-Alive is acknowledged only if the connection stays open [%s]%s" % (tag, "" if row[RB] is None else ": " + row[RB]), construct=tag)
        ck.ob(RC, fi, fi.node, row[RC] is None, "an HTTP/1.0 keep-alive client gets the acknowledgement when the connection persists [%s]%s" % (tag, "" if row[RC] is None else ": " + row[RC]), construct=tag)
        ck.ob(RD, fi, fi.node, row[RD] is None, "a response that is not self-delimiting closes the connection [%s]%s" % (tag, "" if row[RD] is None else ": " + row[RD]), construct=tag)
        if not disc0:
            ck.ob(RE, fi, fi.node, row[RE] is None, "a self-delimiting response does not give up a connection the request allows to keep [%s]%s" % (tag, "" if row[RE] is None else ": " + row[RE]), construct=tag)
    ck.floor(RA, n_paths, 200, "evaluated write_headers paths")
    if not seen_close:
        ck.note("write_headers never emits 'Connection: close' on the evaluated domain")
    if not seen_ka:
        ck.note("write_headers never emits Connection: Keep-Alive on the evaluated domain")


def run(ck):
    from ..x_http import GuardedCheck
    ck = GuardedCheck(ck)
    ck.rule("C03.keep-alive-table", "_can_keep_alive equals the reference table: never with no_keep_alive; 1.1 unless Connection: close; 1.0 only with keep-alive and a delimited request body")
    ck.rule("C03.flag-from-table", "server _read_message assigns _disconnect_on_finish = not _can_keep_alive(this request) on every path before delegate.headers_received")
    ck.rule("C03.read-finished-after-body", "_read_finished becomes True only after the request body was read, and before delegate.finish()")
    ck.rule("C03.finish-early-close", "finish(): when _finish_request runs or is scheduled, _disconnect_on_finish is True iff it was set before or the request body was not read completely")
    ck.rule("C03.close-announced", "write_headers (server): HTTP/1.1 request and _disconnect_on_finish -> Connection: close")
    ck.rule("C03.keepalive-only-when-staying", "write_headers (server): Connection: Keep-Alive is emitted only when _disconnect_on_finish is false")
    ck.rule("C03.keepalive-acknowledged", "write_headers (server): HTTP/1.0 keep-alive request, connection staying open, delimited response -> Connection: Keep-Alive")
    ck.rule("C03.undelimited-closes", "write_headers (server): a response that is neither bodiless, chunked nor Content-Length-delimited leaves _disconnect_on_finish set")
    ck.rule("C03.no-needless-close", "write_headers (server): _disconnect_on_finish is not raised for a bodiless, chunked or Content-Length-delimited response")
    ck.rule("C03.exchange-returns-true", "_read_message returns True after a completed exchange on an attached stream; the serving loop is unbounded")
    ck.rule("C03.closed-stops-serving", "after the response closed the connection no further request of it is handled: _read_message's success / the serving loop's continuation needs a not-closed test made after the last suspension point")
    ck.rule("C03.early-finish-announced", "write_headers followed at once by finish() with the request body unread: the close decided by finish() is announced (HTTP/1.1: Connection: close; HTTP/1.0: no Keep-Alive acknowledgement)")
    ck.rule("C03.per-request-state", "persistence flags start False in a connection object created per request; only the anchored mechanisms write _disconnect_on_finish")
    ck.rule("C03.finish-request-closes", "_finish_request closes the connection iff server and _disconnect_on_finish; close() closes the attached stream")
    check_table(ck)
    check_read_message(ck)
    check_exchange_result(ck)
    check_closed_stops_serving(ck)
    check_early_finish_announced(ck)
    check_per_request_state(ck)
    check_finish(ck)
    check_write_headers(ck)
    check_finish_request(ck)



def _move_flag_after_headers(root):
    # take the server-side flag assignment out of its branch and re-insert it after the `with` block that calls headers_received
    taken = []
    for node in ast.walk(root):
        for fld in ("body", "orelse"):
            body = getattr(node, fld, None)
            if isinstance(body, list):
                for i, st in enumerate(body):
                    if isinstance(st, ast.Assign) and "_can_keep_alive" in ast.unparse(st) and not taken:
                        taken.append(body.pop(i))
                        break
    if not taken:
        return False
    for node in ast.walk(root):
        body = getattr(node, "body", None)
        if isinstance(body, list):
            for i, st in enumerate(body):
                if isinstance(st, ast.With) and "headers_received" in ast.unparse(st):
                    body.insert(i + 1, ast.If(test=parse_expr("not self.is_client"), body=taken, orelse=[]))
                    return True
    return False


def _read_finished_early(root):
    taken = []
    for node in ast.walk(root):
        body = getattr(node, "body", None)
        if isinstance(body, list):
            for i, st in enumerate(body):
                if isinstance(st, ast.Assign) and ast.unparse(st) == "self._read_finished = True" and not taken:
                    taken.append(body.pop(i))
                    break
    if not taken:
        return False
    for node in ast.walk(root):
        body = getattr(node, "body", None)
        if isinstance(body, list):
            for i, st in enumerate(body):
                if isinstance(st, ast.Assign) and ast.unparse(st) == "skip_body = False":
                    body.insert(i, taken[0])
                    return True
    return False


def _m(qn, edit):
    return lambda repo: mutate(repo, H1, qn, edit)


def _u(n):
    return ast.unparse(n)


def _swap_after(pred_first, pred_second):
    """move the first statement satisfying pred_first to just after the next sibling satisfying pred_second"""
    def edit(root):
        for node in ast.walk(root):
            for fld in ("body", "orelse", "finalbody"):
                body = getattr(node, fld, None)
                if not isinstance(body, list):
                    continue
                for i, st in enumerate(body):
                    if isinstance(st, ast.stmt) and pred_first(st):
                        for j in range(i + 1, len(body)):
                            if pred_second(body[j]):
                                body.insert(j, body.pop(i))
                                return True
        return False
    return edit


def _drop_conjunct(test_contains, conjunct_src):
    def pred(n):
        return isinstance(n, ast.BoolOp) and isinstance(n.op, ast.And) and test_contains in ast.unparse(n) and any(ast.unparse(v) == conjunct_src for v in n.values)

    def new(n):
        n.values = [v for v in n.values if ast.unparse(v) != conjunct_src]
        return n
    return replace_expr(pred, new)


def _seeded_c03(root):
    new = []
    done = False
    for st in root.body:
        if isinstance(st, ast.If) and "connection_header is not None" in ast.unparse(st.test):
            done = True
            continue
        if isinstance(st, ast.Assign) and ast.unparse(st) == "connection_header = headers.get('Connection')":
            st = parse_stmt('connection_header = headers.get("Connection", "")')
        if isinstance(st, ast.If) and "HTTP/1.1" in ast.unparse(st.test):
            rest = st.orelse
            st.orelse = []
            new.append(st)
            new.append(parse_stmt("connection_header = connection_header.lower()"))
            new.extend(rest)
            continue
        new.append(st)
    root.body = new
    return done


def _last_return_false(root):
    last = root.body[-1]
    if isinstance(last, ast.Return) and isinstance(last.value, ast.Constant) and last.value.value is True:
        last.value = ast.Constant(value=False)
        return True
    return False


CKA = "HTTP1Connection._can_keep_alive"
WH = "HTTP1Connection.write_headers"
MUTANTS = [
    ("1.1: != 'close' -> == 'keep-alive'", _m(CKA, replace_expr(lambda n: isinstance(n, ast.Compare) and _u(n) == "connection_header != 'close'", lambda n: parse_expr('connection_header == "keep-alive"'))), "C03.keep-alive-table"),
    ("no_keep_alive test removed", _m(CKA, remove_stmts(lambda st: isinstance(st, ast.If) and "no_keep_alive" in _u(st.test))), "C03.keep-alive-table"),
    ("Connection value compared case-sensitively", _m(CKA, remove_stmts(lambda st: isinstance(st, ast.If) and "connection_header is not None" in _u(st.test))), "C03.keep-alive-table"),
    ("1.0: keep-alive accepted for an undelimited request body", _m(CKA, replace_expr(lambda n: isinstance(n, ast.BoolOp) and isinstance(n.op, ast.Or) and "Content-Length" in _u(n), lambda n: ast.Constant(value=True))), "C03.keep-alive-table"),
    ("1.0: POST counted as bodiless method", _m(CKA, replace_expr(lambda n: isinstance(n, ast.Tuple) and _u(n) == "('HEAD', 'GET')", lambda n: parse_expr('("HEAD", "GET", "POST")'))), "C03.keep-alive-table"),
    ("1.0 without Connection header kept alive (default True)", _m(CKA, replace_stmt(lambda st: isinstance(st, ast.Return) and _u(st) == "return False" , lambda st: [parse_stmt("return True")], limit=5)), "C03.keep-alive-table"),
    ("1.1: 'close' matched by prefix only ('closed' etc. irrelevant) -> substring test", _m(CKA, replace_expr(lambda n: isinstance(n, ast.Compare) and _u(n) == "connection_header != 'close'", lambda n: parse_expr('connection_header is None or "close" not in connection_header[1:]'))), "C03.keep-alive-table"),
    ("seeded C03-adv1: Connection header lower-cased only on the HTTP/1.0 branch", _m(CKA, _seeded_c03), "C03.keep-alive-table"),
    ("_read_message reports failure after every exchange (connection never reused)", _m("HTTP1Connection._read_message", _last_return_false), "C03.exchange-returns-true"),
    ("close() clears the close-after-response flag (a late close is forgotten)", _m("HTTP1Connection._clear_callbacks", replace_stmt(lambda st: isinstance(st, ast.Assign) and "_write_callback" in _u(st), lambda st: [st, parse_stmt("self._disconnect_on_finish = False")])), "C03.per-request-state"),
    ("a connection starts with _read_finished = True (early finish never detected)", _m("HTTP1Connection.__init__", replace_stmt(lambda st: isinstance(st, ast.Assign) and _u(st) == "self._read_finished = False", lambda st: [parse_stmt("self._read_finished = True")])), "C03.per-request-state"),
    ("flag not derived from the table in _read_message", _m("HTTP1Connection._read_message", replace_stmt(lambda st: isinstance(st, ast.Assign) and "_can_keep_alive" in _u(st), lambda st: [parse_stmt("self._disconnect_on_finish = False")])), "C03.flag-from-table"),
    ("flag assigned after headers_received", _m("HTTP1Connection._read_message", _move_flag_after_headers), "C03.flag-from-table"),
    ("keep-alive decision taken without negation", _m("HTTP1Connection._read_message", replace_expr(lambda n: isinstance(n, ast.UnaryOp) and "_can_keep_alive" in _u(n), lambda n: n.operand)), "C03.flag-from-table"),
    ("_read_finished set before the body is read", _m("HTTP1Connection._read_message", _read_finished_early), "C03.read-finished-after-body"),
    ("finish(): early-finish close dropped", _m("HTTP1Connection.finish", remove_stmts(lambda st: isinstance(st, ast.If) and "_read_finished" in _u(st.test))), "C03.finish-early-close"),
    ("finish(): flag armed after _finish_request was invoked", _m("HTTP1Connection.finish", _swap_after(lambda st: isinstance(st, ast.If) and "_read_finished" in _u(st.test), lambda st: isinstance(st, ast.If) and "_pending_write is None" in _u(st.test))), "C03.finish-early-close"),
    ("finish(): always disconnect", _m("HTTP1Connection.finish", replace_expr(lambda n: isinstance(n, ast.UnaryOp) and _u(n) == "not self._read_finished", lambda n: ast.Constant(value=True))), "C03.finish-early-close"),
    ("finish(): early-finish test inverted", _m("HTTP1Connection.finish", replace_expr(lambda n: isinstance(n, ast.UnaryOp) and _u(n) == "not self._read_finished", lambda n: n.operand)), "C03.finish-early-close"),
    ("Connection: close only when the client asked for it (flag ignored)", _m(WH, replace_expr(lambda n: isinstance(n, ast.Attribute) and isinstance(n.ctx, ast.Load) and _u(n) == "self._disconnect_on_finish", lambda n: parse_expr('self._request_headers.get("Connection", "").lower() == "close"'))), "C03.close-announced"),
    ("Connection: close announced for HTTP/1.0 requests only", _m(WH, replace_expr(lambda n: isinstance(n, ast.Constant) and n.value == "HTTP/1.1", lambda n: ast.Constant(value="HTTP/1.0"), limit=2)), ("C03.close-announced", "C03.undelimited-closes")),
    ("close announcement dropped", _m(WH, remove_stmts(lambda st: isinstance(st, ast.If) and "_disconnect_on_finish" in _u(st.test))), "C03.close-announced"),
    ("Keep-Alive acknowledged for HTTP/1.1 clients that asked for close", _m(WH, replace_expr(lambda n: isinstance(n, ast.BoolOp) and "HTTP/1.0" in _u(n) and "keep-alive" in _u(n), lambda n: parse_expr('self._request_headers.get("Connection", "").lower() in ("keep-alive", "close")'))), ("C03.keepalive-only-when-staying", "C03.close-announced")),
    ("F5 repair undone: Keep-Alive acknowledged without consulting _disconnect_on_finish", _m(WH, _drop_conjunct("keep-alive", "not self._disconnect_on_finish")), "C03.keepalive-only-when-staying"),
    ("F4 repair undone: undelimited HTTP/1.0 response keeps the connection", _m(WH, remove_stmts(lambda st: isinstance(st, ast.If) and "_chunking_output" in _u(st.test) and "_disconnect_on_finish = True" in _u(st))), "C03.undelimited-closes"),
    ("F4 repair placed after the Connection header was chosen", _m(WH, _swap_after(lambda st: isinstance(st, ast.If) and "_chunking_output" in _u(st.test) and "_disconnect_on_finish = True" in _u(st), lambda st: isinstance(st, ast.If) and "keep-alive" in _u(st.test))), ("C03.keepalive-only-when-staying", "C03.close-announced")),
    ("close-when-undelimited block ignores Content-Length (delimited HTTP/1.0 keep-alive responses closed)", _m(WH, replace_expr(lambda n: isinstance(n, ast.BoolOp) and "not self._chunking_output" in _u(n), lambda n: ast.BoolOp(op=ast.And(), values=[v for v in n.values if "Content-Length" not in _u(v)]))), "C03.no-needless-close"),
    ("seeded C03-adv5: Connection: close only when the handler supplied no Connection header", _m(WH, replace_expr(lambda n: isinstance(n, ast.BoolOp) and isinstance(n.op, ast.And) and "HTTP/1.1" in _u(n) and "_disconnect_on_finish" in _u(n), lambda n: ast.BoolOp(op=ast.And(), values=n.values + [parse_expr('"Connection" not in headers')]))), "C03.close-announced"),
    ("Connection: close set with setdefault (a handler-supplied value wins)", _m(WH, replace_stmt(lambda st: isinstance(st, ast.Assign) and _u(st) == "headers['Connection'] = 'close'", lambda st: [parse_stmt('headers["Connection"] = headers.get("Connection", "close")')])), "C03.close-announced"),
    ("Keep-Alive acknowledgement dropped", _m(WH, remove_stmts(lambda st: isinstance(st, ast.If) and "keep-alive" in _u(st.test))), "C03.keepalive-acknowledged"),
    ("Keep-Alive acknowledgement compares case-sensitively", _m(WH, replace_expr(lambda n: isinstance(n, ast.Call) and _u(n) == "self._request_headers.get('Connection', '').lower()", lambda n: n.func.value)), "C03.keepalive-acknowledged"),
    ("close-when-undelimited block also fires for HEAD responses", _m(WH, replace_expr(lambda n: isinstance(n, ast.BoolOp) and "not self._chunking_output" in _u(n), lambda n: ast.BoolOp(op=ast.And(), values=[v for v in n.values if "HEAD" not in _u(v)]))), "C03.no-needless-close"),
    ("_finish_request: close ignored on the server", _m("HTTP1Connection._finish_request", replace_expr(lambda n: isinstance(n, ast.UnaryOp) and _u(n) == "not self.is_client", lambda n: n.operand)), "C03.finish-request-closes"),
    ("_finish_request: closes regardless of the flag", _m("HTTP1Connection._finish_request", replace_expr(lambda n: isinstance(n, ast.Attribute) and _u(n) == "self._disconnect_on_finish", lambda n: ast.Constant(value=True))), "C03.finish-request-closes"),
    ("_finish_request: never closes", _m("HTTP1Connection._finish_request", remove_stmts(lambda st: _u(st) == "self.close()")), "C03.finish-request-closes"),
    ("close(): stream closed only if nothing is pending", _m("HTTP1Connection.close", replace_expr(lambda n: isinstance(n, ast.Compare) and _u(n) == "self.stream is not None", lambda n: parse_expr("self.stream is not None and self._pending_write is None"))), "C03.finish-request-closes"),
]
