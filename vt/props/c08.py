"""C08 — the HTTP client decodes any response stream exactly as a strict parser does.

Decided statically (DESIGN.md §4 C08):

* status line: ``parse_response_start_line`` tests the whole line (``fullmatch``)
  against a regex whose language equals RFC 9112 ``status-line``; the status
  code is a bounded 3-digit group; no match -> HTTPInputError;
* client framing table, by exhaustive finite-domain abstract interpretation
  (vt.x_absint) of the client slice of ``_read_message`` and of ``_read_body``:
  HEAD/304 -> no body; 1xx -> error with CL/TE, otherwise the next message is
  read and **no body is read for the interim response**; 204 -> error with a
  body, else empty; chunked / Content-Length / read-until-close selection;
  conflicting, non-integer and over-limit Content-Length -> HTTPInputError;
* the client's "no body" table equals the writer's bodiless table
  (``write_headers``' zero-length set), evaluated the same way;
* every body reader compares with the live ``_max_body_size`` before it
  delivers (fixed, chunked, read-until-close), gzip: cumulative decompressed
  size before forwarding, bounded ``decompress``, ``flush()`` remainder is an
  error before ``finish`` is forwarded; gzip is selected by equality with
  ``gzip`` and the header is renamed;
* response assembly in simple_httpclient: every delivered chunk is appended /
  streamed unchanged, the response body is the concatenation, code and headers
  are those of the final response; the connection is created in client mode
  with the client's limits.

Not decided: equality with a strict reader over all streams/segmentations;
gzip trailer/CRC completeness (zlib); the error path through
on_connection_close (C05/C09).
"""
from __future__ import annotations

import ast
import itertools

from .. import q
from ..model import AnalysisError
from ..rules import call_sites
from ..mutate import mutate, remove_stmts, replace_expr, replace_stmt, parse_stmt, parse_expr
from ..x_http import (
    RegexEnv, atom_edges, group_count, group_rx, leads_to_raise, only_through, reach_without, resolve_call, single_bindings,
    truthy_edges, canon_atom, self_modsets, norm_func, Flow, group_index, argx, bound_args, mk_evaluator, module_consts,
)
from ..x_absint import Evaluator, HeaderMap, Obj, UNK, Raised
from . import c04 as _c04
from . import c01 as _c01

TECHNIQUE = "regex-automata equivalence + exhaustive finite-domain abstract interpretation of the client framing decision + limit-before-delivery guard dominance"
EXPLANATION = (
    "The status-line regex is compared (language equivalence) with RFC 9112 status-line and the call-site method checked; the client branch of "
    "HTTP1Connection._read_message and the whole of _read_body are evaluated on abstract stubs for every (request method, status code, "
    "Content-Length, Transfer-Encoding) valuation of a finite domain and the selected reader / error is compared with the RFC 9112 §6.3 table; "
    "the writer's bodiless set is extracted from write_headers the same way and compared; each body reader's delivery must be reachable only "
    "through the comparison with the live body limit; simple_httpclient's assembly is checked by dataflow shape."
)
NOT_DECIDED = (
    "equality with a strict HTTP/1.1 reader over all response streams and segmentations; completeness of the gzip stream (trailer/CRC) which "
    "zlib's flush() does not report; the error path of a rejected response through on_connection_close/_handle_exception (C05, C09)"
)

H1 = "tornado/http1connection.py"
HU = "tornado/httputil.py"
SC = "tornado/simple_httpclient.py"

TOKEN = r"[!#$%&'*+\-.^_`|~0-9A-Za-z]+"
HTTP_VERSION = r"HTTP/[0-9]\.[0-9]"
# status-line = HTTP-version SP status-code SP [ reason-phrase ] ; reason-phrase = 1*( HTAB / SP / VCHAR / obs-text )   (RFC 9112 §4)
STATUS_LINE = HTTP_VERSION + r" [0-9]{3} (?:[\t \x21-\x7E\x80-\xFF]+)?"


def _is_input_error(cls):
    return cls is not None and cls.split(".")[-1] == "HTTPInputError"


def _const_str(e, v=None):
    return isinstance(e, ast.Constant) and isinstance(e.value, str) and (v is None or e.value == v)


# ---------------------------------------------------------------------------------------


def _F(ck, rel, qn):
    """the anchored function with private single-purpose helpers inlined (same qualified name)"""
    return norm_func(ck.repo, ck.func(rel, qn))


def check_status_line(ck, env):
    R = "C08.status-line"
    fi = _F(ck, HU, "parse_response_start_line")
    cfg = fi.cfg
    line_p = fi.params()[0]
    gates = [x for x in env.calls(fi) if x[3] is not None and q.dotted(x[3]) == line_p]
    ck.floor(R, len(gates), 1, "regex tests of the status line")
    ref = env.rx(STATUS_LINE)
    pos_all, neg_all = set(), set()
    only_1x = False
    for c, m, pat, subj in gates:
        pos, neg = truthy_edges(fi, lambda e, c=c: e is c)
        pos_all |= pos
        neg_all |= neg
        ck.ob(R, fi, c, m == "fullmatch", "the status line is tested against the whole line (fullmatch); found %s" % m)
        lang = env.rx(pat, m)
        w = lang.difference_witness(ref)
        ck.ob(R, fi, c, w is None, "accepted status lines = HTTP-version SP 3DIGIT SP [reason-phrase] (RFC 9112 §4)%s" % ("" if w is None else " (differs on %r: %s)" % w))
        if lang.subset_of(env.rx(r"HTTP/1\.[0-9] .*")):
            only_1x = True
        if group_count(pat) >= 3:
            g2 = group_rx(pat, 2)
            ml = g2.max_length()
            ck.ob(R, fi, c, g2.subset_of(env.rx(r"[0-9]+")) and ml is not None and ml <= 3, "the status-code group is exactly ASCII digits, at most 3 (int() cannot fail or overflow)", construct="group 2 of status_line")
            ck.ob(R, fi, c, group_rx(pat, 1).subset_of(env.rx(HTTP_VERSION)), "group 1 is the HTTP-version", construct="group 1 of status_line")
    rets = cfg.stmt_nodes(lambda n: n.kind == "stmt" and isinstance(n.ast, ast.Return))
    ck.floor(R, len(rets), 1, "returns of parse_response_start_line")
    ver = atom_edges(cfg, lambda a: True if (isinstance(a, ast.Call) and q.call_attr(a) == "startswith" and a.args and _const_str(a.args[0]) and a.args[0].value.startswith("HTTP/1")) else None)
    for r in rets:
        ck.ob(R, fi, r.ast, only_through(cfg, r, pos_all), "a start line is returned only when the regex matched")
        ck.ob(R, fi, r.ast, only_1x or only_through(cfg, r, ver), "only HTTP/1.x status lines are returned")
    ok, n = leads_to_raise(cfg, neg_all, _is_input_error)
    ck.ob(R, fi, fi.node, ok and n > 0, "a malformed status line raises HTTPInputError", construct="no-match edge")
    ctor = [c for c in q.calls(fi.node) if q.call_attr(c) == "ResponseStartLine"]
    ck.floor(R, len(ctor), 1, "ResponseStartLine constructions")
    flow = Flow(fi)
    for c in ctor:
        at = flow.node_of(c)
        idx = []
        cargs = [argx(ck.repo, fi, c, i_) for i_ in range(3)]
        if None in cargs or len(c.args) + len(c.keywords) != 3:
            raise AnalysisError("ResponseStartLine construction of unknown shape at %s" % fi.site(c))
        for a in cargs:
            e = flow.expand(a, at)
            wrapped = False
            if isinstance(e, ast.Call) and isinstance(e.func, ast.Name) and e.func.id == "int" and len(e.args) == 1:
                e = e.args[0]
                wrapped = True
            gi = group_index(e)
            idx.append(None if gi is None else (gi, wrapped))
        if None in idx or len(idx) != 3:
            raise AnalysisError("ResponseStartLine built from something else than match groups at %s" % fi.site(c))
        ck.ob(R, fi, c, idx == [(1, False), (2, True), (3, False)], "ResponseStartLine(version, int(code), reason) is built from groups 1, 2, 3 in order")
    rm = _F(ck, H1, "HTTP1Connection._read_message")
    client = atom_edges(rm.cfg, lambda a: True if q.dotted(a) == "self.is_client" else None)
    prs = [(n, c) for n, c in rm.cfg.find(lambda x: isinstance(x, ast.Call) and getattr(resolve_call(ck.repo, rm, x), "qualname", None) == fi.qualname and resolve_call(ck.repo, rm, x).file == fi.file)]
    ck.floor(R, len(prs), 1, "parse_response_start_line calls in _read_message")
    hdrs = [n for n, c in rm.cfg.find(lambda x: isinstance(x, ast.Call) and q.call_attr(x) == "headers_received")]
    ids = {n.id for n, _c in prs}
    server = atom_edges(rm.cfg, lambda a: False if q.dotted(a) == "self.is_client" else None)
    r = reach_without(rm.cfg, server, stop=lambda n: n.id in ids)
    for h in hdrs:
        ck.ob(R, rm, h.ast, h.id not in r, "client: the start line handed to the delegate went through parse_response_start_line")


# ---------------------------------------------------------------------------------------
# client framing by abstract interpretation

CODES = (100, 101, 103, 199, 200, 204, 205, 304, 404, 500)
METHODS = ("GET", "HEAD", "POST")


def _resp_headers(cl, te):
    h = HeaderMap()
    if cl is not None:
        h["Content-Length"] = cl
    if te is not None:
        h["Transfer-Encoding"] = te
    return h


def _hook_parse_int(st, s=None, *a):
    if not isinstance(s, str):
        return UNK
    if not s or any(ch not in "0123456789" for ch in s):
        raise Raised("ValueError")
    return int(s)


def _hook_te(st, h=None, *a):
    if not isinstance(h, HeaderMap):
        return UNK
    if "Transfer-Encoding" not in h:
        return False
    if "Content-Length" in h:
        raise Raised("httputil.HTTPInputError")
    if h["Transfer-Encoding"].lower() == "chunked":
        return True
    raise Raised("httputil.HTTPInputError")


def _client_slice(fi):
    """The statements of _read_message from the initialisation of the skip flag up to (and including) the statement
    that starts the body read — whatever the polarity or nesting of the test that guards it."""
    for node in ast.walk(fi.node):
        for fld in ("body", "orelse"):
            body = getattr(node, fld, None)
            if not isinstance(body, list):
                continue
            for j, st in enumerate(body):
                if not isinstance(st, ast.If) or not any(isinstance(c, ast.Call) and q.call_attr(c) == "_read_body" for c in ast.walk(st)):
                    continue
                flags = [x.id for x in ast.walk(st.test) if isinstance(x, ast.Name)]
                for i in range(j - 1, -1, -1):
                    s0 = body[i]
                    if isinstance(s0, ast.Assign) and isinstance(s0.value, ast.Constant) and isinstance(s0.value.value, bool) and any(isinstance(x, ast.Name) and x.id in flags for x in s0.targets):
                        return [x.id for x in s0.targets if isinstance(x, ast.Name)][0], body[i:j + 1], st
    raise AnalysisError("_read_message: cannot locate the client framing slice (skip flag ... _read_body)")


def _names_for(fi, slice_stmts):
    """local names the slice reads for the response start line / headers / delegate (derived from the _read_body call)"""
    for st in slice_stmts:
        for c in ast.walk(st):
            if isinstance(c, ast.Call) and q.call_attr(c) == "_read_body" and len(c.args) + len(c.keywords) == 3:
                code_e, hdr, dele = q.arg(c, 0, "code"), q.arg(c, 1, "headers"), q.arg(c, 2, "delegate")
                return code_e, q.dotted(hdr), q.dotted(dele)
    raise AnalysisError("_read_body call of unknown shape")


def eval_client_slice(ck, fi, method, code, cl, te):
    flag, stmts, last = _client_slice(fi)
    code_e, hdr_name, dele_name = _names_for(fi, stmts)
    calls = []

    def on_call(st, c, d, args):
        if d in ("self._read_message", "self._read_body"):
            calls.append((d, list(args)))

    ev = mk_evaluator(fi, on_call=on_call, funcs={"self._read_body": lambda st, *a: UNK, "self._read_message": lambda st, *a: UNK})
    ev.signatures["self._read_body"] = [p_ for p_ in ck.repo.func(H1, "HTTP1Connection._read_body").params() if p_ != "self"]
    sl = Obj("resp", code=code, version="HTTP/1.1", reason="X")
    me = Obj("self", is_client=True, _request_start_line=Obj("req", method=method, version="HTTP/1.1", path="/"), stream=Obj("stream"),
             _body_timeout=None, _write_finished=True, _disconnect_on_finish=False)
    env = {"self": me, hdr_name: _resp_headers(cl, te), dele_name: UNK}
    # every local that denotes the response start line in the slice
    for n in ast.walk(ast.Module(body=list(stmts), type_ignores=[])):
        if isinstance(n, ast.Attribute) and n.attr == "code" and isinstance(n.value, ast.Name):
            env[n.value.id] = sl
    outs = ev.block(stmts, __import__("vt.x_absint", fromlist=["State"]).State(env))
    res = set()
    for st, status in outs:
        # rebuild the per-path call sequence from the state's events
        seq = [e[0] for e in st.events if e[0] in ("self._read_message", "self._read_body")]
        if isinstance(status, tuple) and status[0] == "raise":
            res.add(("error" if _is_input_error(status[1]) else "raise:%s" % status[1], tuple(seq)))
        else:
            bodyargs = [e[1] for e in st.events if e[0] == "self._read_body"]
            res.add(("ok", tuple(seq), tuple(a[0] if a else None for a in bodyargs)))
    return res


def _regex_fallback(ck, fi):
    """constant-fold method calls on module-level precompiled patterns (``_SEP_RE.split(text)``) with the stdlib's re"""
    renv = RegexEnv(ck.repo)

    def fb(st, c, d, args):
        if isinstance(c.func, ast.Attribute) and c.func.attr in ("split", "fullmatch", "match", "search") and q.dotted(c.func.value) not in (None, "re"):
            try:
                pat = renv.pattern(fi, c.func.value)
            except AnalysisError:
                pat = None
            if pat is not None and args and all(isinstance(a, type(pat)) for a in args[:1]) and not c.keywords:
                import re as _re
                if c.func.attr == "split":
                    return _re.split(pat, args[0])
                return UNK
        return NotImplemented

    return fb


def eval_read_body(ck, fi, code, cl, te, limit=1000, is_client=True):
    ps = [p for p in fi.params() if p != "self"]
    if len(ps) != 3:
        raise AnalysisError("_read_body: expected (code, headers, delegate)")
    ev = mk_evaluator(fi, funcs={
        "parse_int": _hook_parse_int, "is_transfer_encoding_chunked": _hook_te,
        "self._read_chunked_body": lambda st, *a: ("chunked",), "self._read_fixed_body": lambda st, *a: ("fixed", a[0] if a else UNK),
        "self._read_body_until_close": lambda st, *a: ("close",),
        "re.split": lambda st, pat=None, s=None, *a: (__import__("re").split(pat, s) if isinstance(pat, str) and isinstance(s, str) else UNK),
    })
    ev.signatures.update({"parse_int": ["s"], "is_transfer_encoding_chunked": ["headers"], "self._read_fixed_body": ["content_length", "delegate"]})
    ev.fallback = _regex_fallback(ck, fi)
    # only the live field carries the limit: the configured value and the buffer size are decoys
    me = Obj("self", is_client=is_client, _max_body_size=limit, params=Obj("params", max_body_size=10 ** 6), stream=Obj("stream", max_buffer_size=10 ** 6))
    outs = ev.run(fi.node, {"self": me, ps[0]: code, ps[1]: _resp_headers(cl, te), ps[2]: UNK})
    res = set()
    for o in outs:
        if o.kind == "raise":
            res.add("error" if _is_input_error(o.value) else "raise:%s" % o.value)
        elif o.kind == "return" and isinstance(o.value, tuple):
            res.add(o.value)
        elif o.value is None:
            res.add(("none",))
        else:
            res.add(("?", repr(o.value)))
    return res


def ref_read_body(code, cl, te, limit=1000):
    """RFC 9112 §6.3 for a response (client side), with Tornado's strictness: TE+CL is an error, only 'chunked' is supported."""
    length = None
    if cl is not None:
        pieces = [p.strip() for p in cl.split(",")]
        if any(p != pieces[0] for p in pieces) or not pieces[0].isascii() or not pieces[0].isdigit():
            return "error"
        length = int(pieces[0])
        if length > limit:
            return "error"
    chunked = False
    if te is not None:
        if cl is not None or te.lower() != "chunked":
            return "error"
        chunked = True
    if code == 204:
        if chunked or length not in (None, 0):
            return "error"
        return ("fixed", 0)
    if chunked:
        return ("chunked",)
    if length is not None:
        return ("fixed", length)
    return ("close",)


CL_VALUES = (None, "0", "5", "5,5", "5, 5", "5,6", "+5", "5x", "", "1001", "1000")
TE_VALUES = (None, "chunked", "Chunked", "gzip", "gzip, chunked")


def check_framing(ck):
    R = "C08.body-framing-table"
    rb = _F(ck, H1, "HTTP1Connection._read_body")
    n = 0
    for code in (200, 204, 404):
        for te in TE_VALUES:
            bad = None
            for cl in CL_VALUES:
                got = eval_read_body(ck, rb, code, cl, te)
                want = ref_read_body(code, cl, te)
                n += 1
                if got != {want}:
                    bad = bad or "Content-Length=%r -> %s, expected %s" % (cl, sorted(map(repr, got)), want)
            ck.ob(R, rb, rb.node, bad is None, "client _read_body selects the RFC 9112 §6.3 reader/error for status %s, Transfer-Encoding=%r over all Content-Length shapes%s" % (code, te, "" if bad is None else ": " + bad),
                  construct="row status=%s transfer-encoding=%r" % (code, te))
    ck.floor(R, n, 100, "evaluated _read_body valuations")

    R = "C08.no-body-table"
    rm = _F(ck, H1, "HTTP1Connection._read_message")
    wh = _F(ck, H1, "HTTP1Connection.write_headers")
    rows = 0
    for method in METHODS:
        for code in CODES:
            interim = 100 <= code < 200
            want_nobody = method == "HEAD" or code in (204, 304) or interim
            bad = None
            bad_interim = None
            for cl, te in ((None, None), ("5", None), (None, "chunked")):
                res = eval_client_slice(ck, rm, method, code, cl, te)
                for r in res:
                    if r[0].startswith("raise:"):
                        bad = bad or "%s with Content-Length=%r Transfer-Encoding=%r" % (r[0], cl, te)
                        continue
                    if interim:
                        if cl is not None or te is not None:
                            if r[0] != "error":
                                bad = bad or "1xx response with Content-Length/Transfer-Encoding is not rejected"
                            continue
                        if r[0] == "error":
                            bad = bad or "plain 1xx response rejected"
                            continue
                        seq = r[1]
                        if "self._read_message" not in seq:
                            bad = bad or "the message after the interim response is not read"
                        elif "self._read_body" in seq[seq.index("self._read_message"):]:
                            bad_interim = "a body is read for the interim response after the final response was processed (bytes following the final response are delivered as body data)"
                        continue
                    if r[0] == "error":
                        bad = bad or "unexpected HTTPInputError for Content-Length=%r Transfer-Encoding=%r" % (cl, te)
                        continue
                    reads = "self._read_body" in r[1]
                    if reads:
                        # what _read_body does with it (204 -> nothing)
                        codes = r[2]
                        if any(c is UNK or c != code for c in codes):
                            bad = bad or "_read_body is not given this response's status code"
                            continue
                        sel = eval_read_body(ck, _F(ck, H1, "HTTP1Connection._read_body"), code, cl, te)
                        nobody = sel <= {("fixed", 0), "error"}
                    else:
                        nobody = True
                    if want_nobody and not nobody:
                        bad = bad or "a body is read (Content-Length=%r Transfer-Encoding=%r)" % (cl, te)
                    if not want_nobody and nobody and (cl not in (None, "0") or te is not None):
                        bad = bad or "the body is skipped (Content-Length=%r Transfer-Encoding=%r)" % (cl, te)
            rows += 1
            ck.ob(R, rm, rm.node, bad is None, "client reads %s for a %s response to %s%s" % ("no body" if want_nobody else "the framed body", code, method, "" if bad is None else ": " + bad),
                  construct="row method=%s status=%s" % (method, code))
            if interim:
                ck.ob("C08.interim-no-body", rm, rm.node, bad_interim is None, "after an interim %s response the final response is read and nothing else (request %s)%s" % (code, method, "" if bad_interim is None else ": " + bad_interim),
                      construct="interim response: body read after the nested _read_message")
    ck.floor(R, rows, 25, "rows of the client no-body table")

    # writer's bodiless set == client's
    R = "C08.bodiless-agreement"
    ms = self_modsets(ck.repo, H1, "HTTP1Connection")
    ps = [p for p in wh.params() if p != "self"]
    for method in ("GET", "HEAD"):
        for code in CODES:
            ev = mk_evaluator(wh, modset=lambda d: ms.get(d.split(".")[1]))
            me = Obj("self", is_client=False, _disconnect_on_finish=False, _chunking_output=False, _expected_content_remaining=None,
                     _request_start_line=Obj("req", version="HTTP/1.1", method=method, path="/"), _request_headers=HeaderMap(), stream=Obj("stream"))
            env = {"self": me, ps[0]: Obj("start_line", version="HTTP/1.1", code=code, reason="X"), ps[1]: HeaderMap()}
            for p in ps[2:]:
                env[p] = None  # no first chunk: only the header decision is evaluated
            outs = [o for o in ev.run(wh.node, env) if o.kind != "raise"]
            vals = {o.state.env["self"].attrs.get("_expected_content_remaining", UNK) for o in outs}
            if not outs or UNK in vals or len(vals) != 1:
                raise AnalysisError("write_headers: zero-length decision not decidable for %s %s" % (method, code))
            writer_bodiless = vals.pop() == 0
            client_nobody = method == "HEAD" or code in (204, 304) or 100 <= code < 200
            ck.ob(R, wh, wh.node, writer_bodiless == client_nobody, "the writer treats %s/%s as bodiless exactly when the client reads no body for it" % (method, code), construct="row method=%s status=%s" % (method, code))


# ---------------------------------------------------------------------------------------


def check_limits(ck):
    LIVE = _c04.live_limit(ck)
    _c04.check_limit_init(ck, LIVE, "C08.reader-limit")
    _c04.check_content_length(ck, LIVE, R="C08.reader-limit")
    _c04.check_chunked(ck, LIVE, R="C08.reader-limit")
    R = "C08.reader-limit"
    for blen, limit, admitted in ((4, 5, True), (5, 5, True), (6, 5, False), (0, 5, True), (1, 0, False)):
        for kind, exc, delivered in fold_until_close(ck, blen, limit):
            tag = "close-delimited body of %d bytes, live limit %d" % (blen, limit)
            if admitted:
                ck.ob(R, None, None, kind != "raise" and delivered == [blen], "%s: delivered unchanged (got %s)" % (tag, exc if kind == "raise" else delivered), construct="until-close %d/%d admitted" % (blen, limit), file=H1)
            else:
                ck.ob(R, None, None, kind == "raise" and _is_input_error(exc) and not delivered, "%s: HTTPInputError and nothing delivered — every body reader enforces the limit (got %s)" % (tag, exc if kind == "raise" else delivered), construct="until-close %d/%d refused" % (blen, limit), file=H1)
    # gzip
    gz = _c04.check_gzip(ck, LIVE, R="C08.gzip-limit")

    R = "C08.gzip-finish"
    gf = _F(ck, H1, "_GzipMessageDelegate.finish")
    for tail in (None, b"", b"left-over"):
        fwd = []

        def fb(st, c, d, args, tail=tail, fwd=fwd):
            nm = q.call_attr(c)
            if nm == "flush":
                return tail
            if nm == "finish" and d is not None and d.startswith("self."):
                fwd.append(True)
                return None
            return NotImplemented

        ev = mk_evaluator(gf)
        ev.fallback = fb
        me = Obj("self", _delegate=Obj("inner"), _decompressor=(None if tail is None else Obj("decompressor")))
        outs = ev.run(gf.node, {"self": me})
        if not outs:
            raise AnalysisError("_GzipMessageDelegate.finish: no outcome")
        for o in outs:
            if tail:
                ck.ob(R, gf, gf.node, o.kind == "raise" and not fwd, "data left in the decompressor at finish() is an error and finish() is not forwarded (got %s)" % (o.value if o.kind == "raise" else "forwarded"), construct="gzip finish: remainder")
            else:
                ck.ob(R, gf, gf.node, o.kind != "raise" and len(fwd) == 1, "finish() is forwarded exactly once when %s (got %s)" % ("no decompressor is installed" if tail is None else "flush() returns nothing", o.value if o.kind == "raise" else len(fwd)), construct="gzip finish: %s" % ("identity" if tail is None else "clean"))

    R = "C08.gzip-selection"
    hr = _F(ck, H1, "_GzipMessageDelegate.headers_received")
    ps = [p for p in hr.params() if p != "self"]
    for ce in (None, "gzip", "GZIP", "identity", "deflate", "x-gzip"):
        fwd_args = []

        def on_call(st, c, d, args, fwd_args=fwd_args):
            if d is not None and d.startswith("self.") and d.endswith(".headers_received"):
                fwd_args.append([dict(a.d) if isinstance(a, HeaderMap) and not a.poisoned else None for a in args])

        ev = mk_evaluator(hr, on_call=on_call, funcs={"GzipDecompressor": lambda st, *a: Obj("decompressor")})
        h = HeaderMap({"Content-Type": "text/plain"})
        if ce is not None:
            h["Content-Encoding"] = ce
        me = Obj("self", _decompressor=None, _delegate=Obj("inner"))
        outs = ev.run(hr.node, {"self": me, ps[0]: Obj("start_line", code=200), ps[1]: h})
        want = ce is not None and ce.lower() == "gzip"
        for o in outs:
            if o.kind == "raise":
                ck.ob(R, hr, o.node, False, "headers_received of the gzip delegate does not fail for Content-Encoding=%r" % ce)
                continue
            dec = o.state.env["self"].attrs.get("_decompressor")
            hh = o.state.env[ps[1]]
            ok = (isinstance(dec, Obj)) == want
            ck.ob(R, hr, hr.node, ok, "a decompressor is installed iff Content-Encoding equals gzip (case-insensitive); here %r" % ce, construct="content-encoding=%r decompressor" % ce)
            ck.ob(R, hr, hr.node, len(fwd_args) >= 1, "headers are forwarded to the wrapped delegate", construct="content-encoding=%r forwarded" % ce)
            snap = fwd_args[-1][1] if fwd_args and len(fwd_args[-1]) > 1 else None
            if snap is None:
                if fwd_args:
                    raise AnalysisError("gzip headers_received: forwarded headers not decidable")
                continue
            if want:
                ck.ob(R, hr, hr.node, "Content-Encoding" not in snap and snap.get("X-Consumed-Content-Encoding") == ce, "the consumed Content-Encoding is renamed for downstream delegates (they see identity data)", construct="content-encoding=%r renamed" % ce)
            else:
                ck.ob(R, hr, hr.node, snap.get("Content-Encoding") == ce, "other content codings are passed through untouched", construct="content-encoding=%r untouched" % ce)


def check_client_plumbing(ck):
    """client-only preconditions of the framing table: the request method is remembered (HEAD detection)
    and body bytes are delivered although the client has finished writing its request."""
    R = "C08.no-body-table"
    wh = _F(ck, H1, "HTTP1Connection.write_headers")
    ps = [p for p in wh.params() if p != "self"]
    ms = self_modsets(ck.repo, H1, "HTTP1Connection")
    for method in ("GET", "HEAD", "POST"):
        ev = mk_evaluator(wh, modset=lambda d: ms.get(d.split(".")[1]))
        sl = Obj("request_line", method=method, path="/", version="HTTP/1.1")
        me = Obj("self", is_client=True, _request_start_line=None, stream=Obj("stream"), _chunking_output=False, _expected_content_remaining=None)
        env = {"self": me, ps[0]: sl, ps[1]: HeaderMap({"Host": "x"})}
        for p_ in ps[2:]:
            env[p_] = None
        outs = [o for o in ev.run(wh.node, env) if o.kind != "raise"]
        if not outs:
            raise AnalysisError("write_headers (client) has no normal outcome")
        for o in outs:
            got = o.state.env["self"].attrs.get("_request_start_line")
            ck.ob(R, wh, wh.node, isinstance(got, Obj) and got.attrs.get("method") == method, "the client remembers its request line (method %s) so that a response to HEAD is recognised" % method, construct="client write_headers remembers %s" % method)
    R = "C08.delivery"
    # the client has finished writing its request (_write_finished) while it reads the response: every reader still delivers
    rcb = _F(ck, H1, "HTTP1Connection._read_chunked_body")
    for kind, exc, delivered, data_read in _c04.eval_chunked(ck, rcb, (3, 2), 100, is_client=True, write_finished=True):
        ck.ob(R, rcb, rcb.node, kind != "raise" and delivered == 5, "client, request fully written: the chunked body is delivered (%s, %d of 5 bytes)" % (exc if kind == "raise" else kind, delivered), construct="delivery chunked")
    for kind, exc, delivered in fold_until_close(ck, 4, 100, write_finished=True):
        ck.ob(R, None, None, kind != "raise" and delivered == [4], "client, request fully written: the close-delimited body is delivered (got %s)" % (exc if kind == "raise" else delivered), construct="delivery until-close", file=H1)
    for kind, exc, delivered in fold_fixed(ck, 5, write_finished=True):
        ck.ob(R, None, None, kind != "raise" and sum(delivered) == 5, "client, request fully written: the fixed-length body is delivered completely (got %s)" % (exc if kind == "raise" else delivered), construct="delivery fixed", file=H1)


def fold_until_close(ck, blen, limit, write_finished=True):
    fi = _F(ck, H1, "HTTP1Connection._read_body_until_close")
    ps = [p for p in fi.params() if p != "self"]

    def fb(st, c, d, args):
        nm = q.call_attr(c)
        if nm == "read_until_close":
            return b"b" * blen
        if nm == "data_received":
            a = st.env["self"].attrs["stream"].attrs
            a0 = args[0] if args else (list(st.last_kwargs.values())[0] if len(st.last_kwargs) == 1 else None)
            a["delivered"] = a["delivered"] + [len(a0) if isinstance(a0, (bytes, bytearray)) else None]
            return None
        return NotImplemented

    ev = mk_evaluator(fi)
    ev.fallback = fb
    me = Obj("self", stream=Obj("stream", max_buffer_size=10 ** 6, delivered=[]), is_client=True, _write_finished=write_finished, _max_body_size=limit, params=Obj("params", max_body_size=10 ** 6, chunk_size=4))
    outs = ev.run(fi.node, dict({"self": me}, **{p: Obj("delegate") for p in ps}))
    if not outs:
        raise AnalysisError("_read_body_until_close: no outcome")
    res = []
    for o in outs:
        dl = o.state.env["self"].attrs["stream"].attrs["delivered"]
        if None in dl:
            raise AnalysisError("_read_body_until_close: delivered data not decidable")
        res.append((o.kind, o.value if o.kind == "raise" else None, list(dl)))
    return res


def fold_fixed(ck, length, write_finished=True, is_client=True):
    """Fold _read_fixed_body on a scripted stream (partial reads return fewer bytes than asked).  All accounting lives
    in the abstract state, so paths forked on unknown conditions are accounted separately.
    Returns [(kind, exc, delivered lengths)]; per-outcome details in fold_fixed.details."""
    from ..x_absint import call_value
    fi = _F(ck, H1, "HTTP1Connection._read_fixed_body")
    ps = [p for p in fi.params() if p != "self"]

    def acct(st):
        return st.env["self"].attrs["stream"].attrs

    def fb(st, c, d, args):
        nm = q.call_attr(c)
        if nm == "read_bytes" and isinstance(call_value(st, args, 0, "num_bytes"), int):
            a = acct(st)
            n_ = call_value(st, args, 0, "num_bytes")
            got = (n_ + 1) // 2
            if n_ > a["owed"]:
                a["over_request"] = True
            a["owed"] = max(0, a["owed"] - got)
            a["reads"] = a["reads"] + 1
            data = bytes([65 + a["reads"] % 26]) * got
            a["read_bytes"] = a["read_bytes"] + data
            return data
        if nm == "data_received":
            a = acct(st)
            a0 = args[0] if args else (list(st.last_kwargs.values())[0] if len(st.last_kwargs) == 1 else None)
            a["delivered"] = a["delivered"] + [len(a0) if isinstance(a0, (bytes, bytearray)) else None]
            if isinstance(a0, (bytes, bytearray)):
                a["delivered_bytes"] = a["delivered_bytes"] + bytes(a0)
            return None
        return NotImplemented

    ev = mk_evaluator(fi)
    ev.fallback = fb
    ev.max_unroll = length + 3
    stream = Obj("stream", owed=length, over_request=False, reads=0, read_bytes=b"", delivered_bytes=b"", delivered=[])
    me = Obj("self", stream=stream, is_client=is_client, _write_finished=write_finished, params=Obj("params", chunk_size=4))
    outs = ev.run(fi.node, {"self": me, ps[0]: length, ps[1]: Obj("delegate")})
    if not outs:
        raise AnalysisError("_read_fixed_body: no outcome")
    res = []
    fold_fixed.details = []
    for o in outs:
        a = acct(o.state)
        if None in a["delivered"]:
            raise AnalysisError("_read_fixed_body: delivered data not decidable by folding")
        res.append((o.kind, o.value if o.kind == "raise" else None, list(a["delivered"])))
        fold_fixed.details.append(dict(a))
    fold_fixed.detail = fold_fixed.details[0]
    return res


def check_assembly(ck):
    """simple_httpclient's assembly, decided by abstract interpretation of data_received / finish / headers_received
    on stub objects (so aliases, conditional expressions and extracted helpers do not matter)."""
    R = "C08.assembly"
    repo = ck.repo
    ms = self_modsets(repo, SC, "_HTTPConnection")

    def evaluator(root, **kw):
        ev = Evaluator(modset=lambda d: ms.get(d.split(".")[1]), **kw)
        ev.globals = module_consts(repo.module(SC))

        def inline(d):
            name = d.split(".")[1]
            if name == root or not repo.has_func(SC, "_HTTPConnection." + name):
                return None
            f = norm_func(repo, repo.func(SC, "_HTTPConnection." + name))
            return None if isinstance(f.node, ast.AsyncFunctionDef) else f.node

        ev.inline = inline
        return ev

    init = _F(ck, SC, "_HTTPConnection.__init__")
    bufs = [p for st in q.walk_body(init.node) if isinstance(st, (ast.Assign, ast.AnnAssign)) and isinstance(st.value, ast.List) and not st.value.elts for p in q.assigned_paths(st) if p.startswith("self.")]
    if len(bufs) != 1:
        raise AnalysisError("_HTTPConnection.__init__: cannot identify the chunk buffer (fields initialised to []: %s)" % bufs)
    buf = bufs[0].split(".", 1)[1]

    def request(streaming, redirect=False):
        cb = Obj("streaming_callback") if streaming else None
        return Obj("request", streaming_callback=cb, follow_redirects=redirect, max_redirects=3 if redirect else 0, header_callback=None, expect_100_continue=False,
                   url="http://x/", method="GET", decompress_response=True)

    # --- data_received
    dr = _F(ck, SC, "_HTTPConnection.data_received")
    chunk_p = [p for p in dr.params() if p != "self"][0]
    for streaming in (False, True):
        streamed = []

        def on_call(st, c, d, args, streamed=streamed):
            if d is not None and d.endswith("streaming_callback"):
                streamed.append(list(args))

        ev = evaluator("data_received", on_call=on_call, funcs={"self._should_follow_redirect": lambda st, *a: False})
        me = Obj("self", request=request(streaming), code=200, headers=HeaderMap(), **{buf: [b"first"]})
        outs = ev.run(dr.node, {"self": me, chunk_p: b"second"})
        for o in outs:
            if o.kind == "raise":
                ck.ob(R, dr, o.node, False, "data_received does not fail for an ordinary chunk")
                continue
            got = o.state.env["self"].attrs.get(buf, UNK)
            if streaming:
                ck.ob(R, dr, dr.node, streamed == [[b"second"]] and got == [b"first"], "with a streaming_callback each delivered chunk is streamed unchanged, exactly once, and not buffered", construct="data_received streaming")
            else:
                ck.ob(R, dr, dr.node, got == [b"first", b"second"] and not streamed, "without a streaming_callback each delivered chunk is appended unchanged after the earlier ones", construct="data_received buffered")

    # --- finish
    fin = _F(ck, SC, "_HTTPConnection.finish")
    n_resp = 0
    for streaming in (False, True):
        for chunks in ([], [b"ab", b"c"]):
            built = []
            ev = None

            def on_call(st, c, d, args, built=built):
                if q.call_attr(c) == "HTTPResponse":
                    kw = {k.arg: ev.ev(k.value, st) for k in c.keywords if k.arg}
                    built.append((list(args), kw))

            hdrs = HeaderMap({"Content-Type": "text/plain"})
            ev = evaluator("finish", on_call=on_call, funcs={"BytesIO": lambda st, *a: ("BytesIO",) + tuple(a), "self._should_follow_redirect": lambda st, *a: False})
            me = Obj("self", request=request(streaming), code=404, reason="Not Found", headers=hdrs, io_loop=Obj("loop"), start_time=0.0, start_wall_time=0.0,
                     final_callback=Obj("cb"), release_callback=Obj("rel"), stream=Obj("stream"), client=Obj("client"), _timeout=None, **{buf: list(chunks)})
            outs = ev.run(fin.node, {"self": me})
            for args, kw in built:
                n_resp += 1
                code = args[1] if len(args) > 1 else kw.get("code", UNK)
                ck.ob(R, fin, fin.node, code == 404, "the response carries the status code of the final response", construct="finish code streaming=%s" % streaming)
                ck.ob(R, fin, fin.node, kw.get("headers") is not None and isinstance(kw.get("headers"), HeaderMap) and kw["headers"].d == hdrs.d, "the response carries the headers of the final response", construct="finish headers streaming=%s" % streaming)
                b = kw.get("buffer", UNK)
                if b is UNK or not (isinstance(b, tuple) and b and b[0] == "BytesIO"):
                    raise AnalysisError("_HTTPConnection.finish: response buffer not decidable (%r)" % (b,))
                if streaming:
                    ck.ob(R, fin, fin.node, b in (("BytesIO",), ("BytesIO", b""), ("BytesIO", b"".join(chunks))), "with a streaming_callback the response buffer is empty (or the same bytes)", construct="finish buffer streaming")
                else:
                    ck.ob(R, fin, fin.node, b == ("BytesIO", b"".join(chunks)), "the response body is the concatenation of the delivered chunks, in order (chunks=%r)" % (chunks,), construct="finish buffer chunks=%d" % len(chunks))
    ck.floor(R, n_resp, 4, "HTTPResponse constructions over the evaluated states")

    # --- headers_received
    hr = _F(ck, SC, "_HTTPConnection.headers_received")
    ps = [p for p in hr.params() if p != "self"]
    ev = evaluator("headers_received")
    ev.funcs["self._should_follow_redirect"] = lambda st, *a: False
    hdrs = HeaderMap({"Content-Length": "2"})
    me = Obj("self", request=request(False), code=None, headers=None, reason=None)
    outs = [o for o in ev.run(hr.node, {"self": me, ps[0]: Obj("first_line", code=404, reason="Not Found", version="HTTP/1.1"), ps[1]: hdrs}) if o.kind != "raise"]
    if not outs:
        raise AnalysisError("_HTTPConnection.headers_received has no normal outcome")
    for o in outs:
        a = o.state.env["self"].attrs
        ck.ob(R, hr, hr.node, a.get("code") == 404, "the status code is taken from the parsed start line", construct="self.code")
        ck.ob(R, hr, hr.node, isinstance(a.get("headers"), HeaderMap) and a["headers"].d == hdrs.d, "the headers are the parsed header block", construct="self.headers")
    writers = [(f, st) for f in repo.methods(SC, "_HTTPConnection") for st in q.stores_to(f.node, "self." + buf)]
    ck.ob(R, None, repo.cls(SC, "_HTTPConnection"), all(f.name == "__init__" for f, st in writers) and len(writers) == 1, "the chunk buffer is created once per connection and never re-bound", construct="writers of self.%s" % buf, file=SC)

    R = "C08.client-wiring"
    cc = _F(ck, SC, "_HTTPConnection._create_connection")
    ctor = [c for c in q.calls(cc.node) if q.call_attr(c) == "HTTP1Connection"]
    ck.floor(R, len(ctor), 1, "HTTP1Connection constructions in the client")
    for c in ctor:
        ic = argx(ck.repo, cc, c, 1, "is_client")
        if ic is None or not isinstance(ic, ast.Constant):
            raise AnalysisError("_create_connection: is_client argument not decidable (%s)" % q.unparse(c)[:80])
        ck.ob(R, cc, c, q.is_const(ic, True), "the client connection is created with is_client=True")
    pc = [c for c in q.calls(cc.node) if q.call_attr(c) == "HTTP1ConnectionParameters"]
    ck.floor(R, len(pc), 1, "HTTP1ConnectionParameters constructions in the client")
    for c in pc:
        for k, src in (("max_header_size", "self.max_header_size"), ("max_body_size", "self.max_body_size")):
            ck.ob(R, cc, c, q.dotted(_c04._x(cc, q.kwarg(c, k))) == src, "the client's %s reaches the connection" % k, construct="%s=%s" % (k, src))
        d = q.kwarg(c, "decompress")
        ck.ob(R, cc, c, d is not None and "decompress_response" in q.unparse(d), "decompression follows request.decompress_response", construct="decompress")


def run(ck):
    from ..x_http import GuardedCheck
    ck = GuardedCheck(ck)
    ck.rule("C08.status-line", "parse_response_start_line: fullmatch of a regex equal to RFC 9112 status-line, bounded 3-digit code, HTTPInputError otherwise; the client's start line goes through it")
    ck.rule("C08.body-framing-table", "client _read_body equals the RFC 9112 §6.3 selection (204 empty/err, chunked, Content-Length, close) with strict Content-Length/Transfer-Encoding errors")
    ck.rule("C08.no-body-table", "client _read_message reads no body for HEAD/1xx/204/304, rejects 1xx with CL/TE, reads the framed body otherwise")
    ck.rule("C08.interim-no-body", "after an interim (1xx) response the nested read of the final response is the last thing read: no body is read for the interim response")
    ck.rule("C08.bodiless-agreement", "write_headers' zero-length set equals the client's no-body set")
    ck.rule("C08.delivery", "every body reader delivers to the delegate in client mode regardless of _write_finished")
    ck.rule("C08.reader-limit", "every body reader (fixed, chunked, read-until-close) compares with the live _max_body_size before delivering")
    ck.rule("C08.gzip-limit", "gzip (folded on a stub decompressor): bounded decompress, every chunk drained through unconsumed_tail, pieces forwarded only while the cumulative inflated size is within the limit, identity content forwarded unchanged")
    ck.rule("C08.gzip-finish", "gzip: finish() is forwarded only if flush() left nothing; a remainder is an error")
    ck.rule("C08.gzip-selection", "gzip: decompressor iff Content-Encoding == gzip (case-insensitive); header renamed; headers forwarded")
    ck.rule("C08.assembly", "simple_httpclient: chunks appended/streamed unchanged, body = concatenation, code/headers of the final response")
    ck.rule("C08.client-wiring", "simple_httpclient creates the connection in client mode with its max_header_size/max_body_size/decompress settings")
    # mechanisms shared with the server read path (same code decodes responses): decided by the C01 rule functions under C08 ids
    shared = {
        "header-block-delimiter": "the header block is read up to the first blank line: the delimiter denotes (CR? LF){2}",
        "header-name": "HTTPHeaders.add stores only names that fullmatch RFC 9110 token; others raise HTTPInputError",
        "header-value": "HTTPHeaders.add stores (HTTP mode) only values that fullmatch RFC 9110 field-value; others raise HTTPInputError",
        "header-continuation": "obs-fold continuation text is validated as field-value before it is appended",
        "strict-header-mode": "the connection parses header blocks in HTTP (latin-1 bytes) validation mode",
        "header-line-split": "a header line is split at the first ':'; a line without ':' raises HTTPInputError",
        "cl-conflict": "a comma-joined Content-Length is used only if all pieces are equal; otherwise HTTPInputError",
        "cl-integer": "the fixed body length is parse_int(Content-Length) and a non-integer raises HTTPInputError",
        "body-selection": "Transfer-Encoding is examined on every path; chunked reader only if chunked; read-until-close is client-only",
        "te-strict": "chunked is recognised by equality with the lower-cased Transfer-Encoding value",
        "te-other-raises": "any Transfer-Encoding other than chunked raises HTTPInputError",
        "cl-te-conflict": "Content-Length together with Transfer-Encoding raises HTTPInputError",
        "sint": "int() of wire text in http1connection.py is guarded by fullmatch of an ASCII digit/hex-digit regex on the same operand",
        "int-no-crash": "no int() of wire text in the read call tree can escape as ValueError",
        "chunk-size-line": "chunk-size line: CRLF-delimited, the whole line minus CRLF parsed byte-exactly by parse_hex_int, malformed -> HTTPInputError",
        "chunk-end": "the chunked body ends only after a zero-size chunk",
        "chunk-terminator": "the two bytes after chunk data and after the last chunk are compared with CRLF; a mismatch aborts",
        "body-byte-count": "body data reads are bounded by, and decrement, the count of bytes still owed; exactly the bytes read are delivered",
        "duplicate-fields-kept": "a repeated header field is appended to the earlier values (never replaces them); the combined value joins with ','",
        "wire-text-exact": "wire text handed to the strict integer parsers is not normalised (strip/replace/lower/split) first",
    }
    for k, v in shared.items():
        ck.rule("C08." + k, v)
    env = RegexEnv(ck.repo)
    _c01.init_modules(ck)
    tree = _c01.read_tree(ck)
    _c01.check_header_block(ck, env, RP="C08")
    _c01.check_header_fields(ck, env, RP="C08")
    _c01.check_multimap_for_framing(ck, RP="C08")
    _c01.check_read_body(ck, tree, RP="C08")
    _c01.check_transfer_encoding(ck, RP="C08")
    _c01.check_ints(ck, env, tree, RP="C08")
    _c01.check_chunked(ck, tree, RP="C08")
    _c01.check_counted_reads(ck, _F(ck, H1, "HTTP1Connection._read_fixed_body"), set(), RP="C08")
    _c01.check_wire_exact(ck, tree, RP="C08")
    check_status_line(ck, env)
    check_framing(ck)
    check_limits(ck)
    check_client_plumbing(ck)
    check_assembly(ck)



def _swap_readers(root):
    """make the fixed-length branch win over the chunked branch, and drop the TE+CL rejection's effect by testing Content-Length first"""
    body = root.body
    for i, st in enumerate(body):
        if isinstance(st, ast.If) and ast.unparse(st.test) == "is_chunked":
            for j in range(i + 1, len(body)):
                if isinstance(body[j], ast.If) and "content_length is not None" in ast.unparse(body[j].test):
                    body[i], body[j] = body[j], body[i]
                    # and let 204 keep content_length = 0 together with chunked
                    return True
    return False


def _limit_after_delivery(root):
    body = root.body
    for i, st in enumerate(body):
        if isinstance(st, ast.If) and "_max_body_size" in ast.unparse(st.test):
            body.append(body.pop(i))
            return True
    return False


def _undo_f29(root):
    """remove the `<skip flag> = True` that directly follows the nested `await self._read_message(...)`"""
    for node in ast.walk(root):
        body = getattr(node, "body", None)
        if isinstance(body, list):
            for i, st in enumerate(body[:-1]):
                if isinstance(st, ast.Expr) and isinstance(st.value, ast.Await) and "_read_message" in ast.unparse(st) and isinstance(body[i + 1], ast.Assign) and isinstance(body[i + 1].value, ast.Constant) and body[i + 1].value.value is True:
                    del body[i + 1]
                    return True
    return False


def _identity_empty(root):
    for node in ast.walk(root):
        if isinstance(node, ast.If) and ast.unparse(node.test) == "self._decompressor" and node.orelse:
            for st in ast.walk(ast.Module(body=node.orelse, type_ignores=[])):
                if isinstance(st, ast.Call) and q.call_attr(st) == "data_received":
                    st.args = [parse_expr("chunk[:0]")]
                    return True
    return False


def _m(rel, qn, edit):
    return lambda repo: mutate(repo, rel, qn, edit)


def _u(n):
    return ast.unparse(n)


def _if_raise(test_contains):
    return lambda st: isinstance(st, ast.If) and test_contains in _u(st.test) and any(isinstance(x, ast.Raise) for x in st.body)


def _abnf(name, new_value_src):
    def edit(root):
        for st in root.body:
            if isinstance(st, ast.Assign) and isinstance(st.targets[0], ast.Name) and st.targets[0].id == name:
                st.value = parse_expr(new_value_src)
                return True
        return False
    return lambda repo: mutate(repo, HU, "_ABNF", edit)


def _rename_call(name_from, name_to, recv_contains=""):
    def pred(n):
        return isinstance(n, ast.Call) and isinstance(n.func, ast.Attribute) and n.func.attr == name_from and recv_contains in _u(n.func.value)

    def new(n):
        n.func.attr = name_to
        return n
    return replace_expr(pred, new)


RM = "HTTP1Connection._read_message"
RB = "HTTP1Connection._read_body"
MUTANTS = [
    ("status line: fullmatch -> match", _m(HU, "parse_response_start_line", _rename_call("fullmatch", "match")), "C08.status-line"),
    ("status code: [0-9]{3} -> [0-9]+", _abnf("status_code", 're.compile(r"[0-9]+")'), "C08.status-line"),
    ("status code: \\d{3} (Unicode digits)", _abnf("status_code", 're.compile(r"\\d{3}")'), "C08.status-line"),
    ("status line: reason phrase may contain CR", _abnf("reason_phrase", 're.compile(rf"(?:[\\t \\r]|{VCHAR.pattern}|{obs_text.pattern})+")'), "C08.status-line"),
    ("status line: space before the reason optional", _abnf("status_line", 're.compile(rf"({HTTP_version.pattern}) ({status_code.pattern}) ?({reason_phrase.pattern})?")'), "C08.status-line"),
    ("status line: malformed line returns a default 200", _m(HU, "parse_response_start_line", replace_stmt(lambda st: isinstance(st, ast.Raise) and "Error parsing" in _u(st), lambda st: [parse_stmt('return ResponseStartLine("HTTP/1.1", 200, "OK")')])), "C08.status-line"),
    ("304 removed from the skip-body set", _m(H1, RM, remove_stmts(lambda st: isinstance(st, ast.If) and _u(st.test) == "code == 304")), "C08.no-body-table"),
    ("HEAD responses: body read", _m(H1, RM, remove_stmts(lambda st: isinstance(st, ast.If) and "HEAD" in _u(st.test) and "skip_body = True" in _u(st))), "C08.no-body-table"),
    ("1xx with Content-Length/Transfer-Encoding accepted", _m(H1, RM, remove_stmts(_if_raise("Transfer-Encoding"))), "C08.no-body-table"),
    ("1xx check looks only at Content-Length", _m(H1, RM, replace_expr(lambda n: isinstance(n, ast.BoolOp) and "'Transfer-Encoding' in headers" in _u(n) and "'Content-Length' in headers" in _u(n), lambda n: n.values[0])), "C08.no-body-table"),
    ("interim range 100..199 narrowed to 100 only", _m(H1, RM, replace_expr(lambda n: isinstance(n, ast.Compare) and _u(n) == "100 <= code < 200", lambda n: parse_expr("code == 100"))), "C08.no-body-table"),
    ("_read_body given 0 instead of the status code on the client", _m(H1, RM, replace_expr(lambda n: isinstance(n, ast.IfExp) and "resp_start_line.code" in _u(n), lambda n: ast.Constant(value=0))), "C08.no-body-table"),
    ("F29 repair undone: body read for the interim response after the nested read", _m(H1, RM, remove_stmts(lambda st: isinstance(st, ast.Assign) and _u(st) == "skip_body = True" and False) if False else _undo_f29), "C08.interim-no-body"),
    ("seeded C08-adv1: chunk size line cleaned with .strip() (whitespace-padded sizes accepted)", _m(H1, "HTTP1Connection._read_chunked_body", replace_expr(lambda n: isinstance(n, ast.Call) and _u(n.func) == "native_str" and "[:-2]" in _u(n), lambda n: parse_expr("native_str(chunk_len_str).strip()"))), ("C08.wire-text-exact", "C08.chunk-size-line")),
    ("chunk size parsed with int(x, 16)", _m(H1, "HTTP1Connection._read_chunked_body", replace_expr(lambda n: isinstance(n, ast.Call) and _u(n.func) == "parse_hex_int", lambda n: ast.Call(func=ast.Name(id="int", ctx=ast.Load()), args=[n.args[0], ast.Constant(value=16)], keywords=[]))), ("C08.sint", "C08.chunk-size-line")),
    ("Content-Length lower-cased/stripped before parse_int", _m(H1, RB, replace_expr(lambda n: isinstance(n, ast.Call) and _u(n.func) == "parse_int", lambda n: parse_expr('parse_int(headers["Content-Length"].strip())'))), ("C08.wire-text-exact", "C08.cl-integer")),
    ("chunk terminator after data not checked", _m(H1, "HTTP1Connection._read_chunked_body", _c01._by_line(_if_raise("crlf"), "last")), "C08.chunk-terminator"),
    ("chunk data read not bounded by the owed count", _m(H1, "HTTP1Connection._read_chunked_body", replace_expr(lambda n: isinstance(n, ast.Call) and _u(n.func) == "min", lambda n: parse_expr("self.params.chunk_size"))), "C08.body-byte-count"),
    ("response header values trimmed with a bare .strip()", _m(HU, "HTTPHeaders.parse_line", replace_expr(lambda n: isinstance(n, ast.Call) and _u(n) == "value.strip(HTTP_WHITESPACE)", lambda n: parse_expr("value.strip()"))), "C08.wire-text-exact"),
    ("TE: 'chunked' matched by suffix", _m(H1, "is_transfer_encoding_chunked", replace_expr(lambda n: isinstance(n, ast.Compare) and isinstance(n.ops[0], ast.Eq) and "chunked" in _u(n), lambda n: parse_expr('headers["Transfer-Encoding"].lower().endswith("chunked")'))), "C08.te-strict"),
    ("client forgets its request line (HEAD responses not recognised)", _m(H1, "HTTP1Connection.write_headers", remove_stmts(lambda st: isinstance(st, ast.Assign) and _u(st) == "self._request_start_line = start_line")), "C08.no-body-table"),
    ("body delivery gated on _write_finished only (client never sees the body)", _m(H1, "HTTP1Connection._read_fixed_body", replace_expr(lambda n: isinstance(n, ast.BoolOp) and _u(n) == "not self._write_finished or self.is_client", lambda n: n.values[0])), "C08.delivery"),
    ("close-delimited body delivered only on the server", _m(H1, "HTTP1Connection._read_body_until_close", replace_expr(lambda n: isinstance(n, ast.BoolOp) and _u(n) == "not self._write_finished or self.is_client", lambda n: parse_expr("not self._write_finished and not self.is_client"))), "C08.delivery"),
    ("204 with a body accepted", _m(H1, RB, remove_stmts(_if_raise("is_chunked or"))), "C08.body-framing-table"),
    ("204 falls back to read-until-close", _m(H1, RB, remove_stmts(lambda st: isinstance(st, ast.If) and _u(st.test) == "code == 204")), "C08.body-framing-table"),
    ("204 rule applied to 205 as well", _m(H1, RB, replace_expr(lambda n: isinstance(n, ast.Compare) and _u(n) == "code == 204", lambda n: parse_expr("code in (204, 404)"))), "C08.body-framing-table"),
    ("conflicting Content-Length values collapse to the first", _m(H1, RB, remove_stmts(_if_raise("any("))), "C08.body-framing-table"),
    ("client without Content-Length reads no body", _m(H1, RB, replace_expr(lambda n: isinstance(n, ast.Attribute) and _u(n) == "self.is_client", lambda n: ast.Constant(value=False))), "C08.body-framing-table"),
    ("body limit applied by truthiness (max_body_size=0 falls back to max_buffer_size)", _m(H1, "HTTP1Connection.__init__", replace_expr(lambda n: isinstance(n, ast.IfExp) and "max_body_size" in _u(n), lambda n: parse_expr("self.params.max_body_size or self.stream.max_buffer_size"))), "C08.reader-limit"),
    ("F8 repair undone: close-delimited body not compared with max_body_size", _m(H1, "HTTP1Connection._read_body_until_close", remove_stmts(_if_raise("_max_body_size"))), "C08.reader-limit"),
    ("close-delimited body limit checked after delivery", _m(H1, "HTTP1Connection._read_body_until_close", _limit_after_delivery), "C08.reader-limit"),
    ("close-delimited body compared with max_buffer_size", _m(H1, "HTTP1Connection._read_body_until_close", replace_expr(lambda n: isinstance(n, ast.Attribute) and _u(n) == "self._max_body_size", lambda n: parse_expr("self.stream.max_buffer_size"))), "C08.reader-limit"),
    ("chunked reader: total limit removed", _m(H1, "HTTP1Connection._read_chunked_body", remove_stmts(_if_raise("total_size"))), "C08.reader-limit"),
    ("gzip: only the first max_length piece of each chunk is decompressed (rest dropped)", _m(H1, "_GzipMessageDelegate.data_received", replace_stmt(lambda st: isinstance(st, ast.Assign) and "unconsumed_tail" in _u(st), lambda st: [parse_stmt('compressed_data = b""')])), "C08.gzip-limit"),
    ("gzip: identity responses also run through a forward of an empty chunk", _m(H1, "_GzipMessageDelegate.data_received", _identity_empty), "C08.gzip-limit"),
    ("repeated response header replaces the earlier one (last Content-Length wins)", _m(HU, "HTTPHeaders.add", replace_expr(lambda n: isinstance(n, ast.Compare) and _u(n) == "norm_name in self", lambda n: ast.Constant(value=False))), "C08.duplicate-fields-kept"),
    ("gzip: size check removed", _m(H1, "_GzipMessageDelegate.data_received", remove_stmts(_if_raise("_decompressed_body_size"))), "C08.gzip-limit"),
    ("gzip: flush() remainder ignored", _m(H1, "_GzipMessageDelegate.finish", remove_stmts(lambda st: isinstance(st, ast.If) and _u(st.test) == "tail")), "C08.gzip-finish"),
    ("gzip: flush() not called at all", _m(H1, "_GzipMessageDelegate.finish", remove_stmts(lambda st: isinstance(st, ast.If) and "_decompressor" in _u(st.test))), "C08.gzip-finish"),
    ("gzip: Content-Encoding matched by substring", _m(H1, "_GzipMessageDelegate.headers_received", replace_expr(lambda n: isinstance(n, ast.Compare) and "gzip" in _u(n), lambda n: parse_expr('"gzip" in headers.get("Content-Encoding", "").lower()'))), "C08.gzip-selection"),
    ("gzip: Content-Encoding compared case-sensitively", _m(H1, "_GzipMessageDelegate.headers_received", replace_expr(lambda n: isinstance(n, ast.Call) and _u(n) == "headers.get('Content-Encoding', '').lower()", lambda n: n.func.value)), "C08.gzip-selection"),
    ("gzip: Content-Encoding header left in place", _m(H1, "_GzipMessageDelegate.headers_received", remove_stmts(lambda st: isinstance(st, ast.Delete))), "C08.gzip-selection"),
    ("writer: 304 no longer bodiless", _m(H1, "HTTP1Connection.write_headers", replace_expr(lambda n: isinstance(n, ast.Tuple) and _u(n) == "(204, 304)", lambda n: parse_expr("(204,)"), limit=5)), "C08.bodiless-agreement"),
    ("client: chunk list reset on every chunk (only the last chunk kept)", _m(SC, "_HTTPConnection.data_received", replace_stmt(lambda st: isinstance(st, ast.Expr) and "chunks.append" in _u(st), lambda st: [parse_stmt("self.chunks = [chunk]")])), "C08.assembly"),
    ("client: response body built from the last chunk only", _m(SC, "_HTTPConnection.finish", replace_expr(lambda n: isinstance(n, ast.Call) and _u(n) == "b''.join(self.chunks)", lambda n: parse_expr('self.chunks[-1] if self.chunks else b""'))), "C08.assembly"),
    ("client: buffered chunks silently dropped", _m(SC, "_HTTPConnection.data_received", replace_stmt(lambda st: isinstance(st, ast.Expr) and "chunks.append" in _u(st), lambda st: [ast.Pass()])), "C08.assembly"),
    ("client: HTTPResponse built with code 200", _m(SC, "_HTTPConnection.finish", replace_expr(lambda n: isinstance(n, ast.Call) and q.call_attr(n) == "HTTPResponse" and len(n.args) >= 2 and any(k.arg == "buffer" for k in n.keywords), lambda n: ast.Call(func=n.func, args=[n.args[0], ast.Constant(value=200)] + n.args[2:], keywords=n.keywords))), "C08.assembly"),
    ("client connection created in server mode", _m(SC, "_HTTPConnection._create_connection", replace_expr(lambda n: isinstance(n, ast.Call) and q.call_attr(n) == "HTTP1Connection", lambda n: ast.Call(func=n.func, args=[n.args[0], ast.Constant(value=False)] + n.args[2:], keywords=n.keywords))), "C08.client-wiring"),
    ("client ignores its max_body_size", _m(SC, "_HTTPConnection._create_connection", replace_expr(lambda n: isinstance(n, ast.keyword) and n.arg == "max_body_size", lambda n: ast.keyword(arg="max_body_size", value=ast.Constant(value=None)))), "C08.client-wiring"),
]
