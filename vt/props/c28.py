"""C28 — framework-generated redirects never point to another site.

Decided statically (flow-sensitive TAINT on the CFG of every function in
``tornado/web.py`` that calls ``self.redirect``):

* a redirect target built from ``self.request.path`` / ``self.request.uri`` may
  start with ``//`` (a protocol-relative URL naming another host) unless, on
  every path to the ``redirect`` call, either a rejecting guard
  ``<that path>.startswith("//")`` was passed on its false edge, or the value
  went through ``.lstrip("/")`` (leading slashes removed; a constant single
  ``"/"`` may be put back in front);
* ``authenticated``: the target is the value of ``self.get_login_url()``;
  request data enters it only inside ``urlencode(...)``.

Not decided: how browsers treat backslashes/control characters in a Location
path; redirects whose target is configured by the application
(``RedirectHandler``), which are not "derived from the request path".
"""
from __future__ import annotations

import ast

from .. import q
from ..rules import call_sites
from ..mutate import mutate, remove_stmts, replace_expr, replace_stmt, parse_stmt, parse_expr
from ..model import AnalysisError
from ..x_taint import flow_taint, expr_tainted, HelperSummaries

from ..x_http import norm_func
from ..x_objalias import subst_object_aliases, inline_constants, through_local

# private helpers that the rules model by name (sanitisers / summarised effects) and therefore must stay calls
KEEP_CALLS = {"_format_chunk", "_convert_header_value", "_clear_representation_headers", "_can_keep_alive", "_compressible_type",
              "_on_write_complete", "_finish_request", "_clear_callbacks"}


def F(ck, relpath, qualname):
    """The anchored function with its private same-file helpers inlined (function splitting is followed, depth 3)."""
    fi = ck.func(relpath, qualname)
    try:
        return inline_constants(subst_object_aliases(norm_func(ck.repo, fi, depth=3, no_inline=KEEP_CALLS)))
    except AnalysisError:
        raise
    except Exception as e:  # the normaliser must never turn into a verdict
        raise AnalysisError("cannot normalise %s: %r" % (qualname, e))


TECHNIQUE = "flow-sensitive source-to-sink taint on the CFG (request path -> self.redirect) with startswith('//') guards and lstrip('/') sanitisation"
EXPLANATION = (
    "For the trailing-slash decorators, the static-directory redirect and the authenticated decorator the first argument of every "
    "self.redirect call is traced back, path-sensitively, to self.request.path/uri.  A value derived from them is 'possibly protocol-relative' "
    "until a startswith('//') rejection guards it or lstrip('/') removed the leading slashes."
)
NOT_DECIDED = "a scheme-qualified target in the static-directory redirect (needs a route that is not anchored at '/' and a directory named like a URL scheme under the static root); browser interpretation of backslashes or control characters in the path; a value that becomes empty after lstrip and is then followed by further request data; application-configured redirect targets"

WEB = "tornado/web.py"
ENCODERS = ("urlencode", "url_escape", "url_concat")
# request-derived path material: the raw request path / URI, and what routing extracted from it (the URL-decoded
# capture groups a handler keeps as self.path / path_args / path_kwargs)
PATH_SOURCES = ("self.request.path", "self.request.uri", "self.path", "self.path_args", "self.path_kwargs")
ANCHORS = (
    ("removeslash.<locals>.wrapper", "path"),
    ("addslash.<locals>.wrapper", "path"),
    ("StaticFileHandler.validate_absolute_path", "path"),
    ("authenticated.<locals>.wrapper", "login"),
)


def _strips_slash(x: ast.AST):
    """``E.lstrip(<chars containing '/'>)`` / ``E.strip(<…>)``: no leading slash remains."""
    if isinstance(x, ast.Call) and isinstance(x.func, ast.Attribute) and x.func.attr in ("lstrip", "strip") and len(x.args) == 1 and not x.keywords:
        a = x.args[0]
        if isinstance(a, ast.Constant) and isinstance(a.value, str) and "/" in a.value:
            return False
    if isinstance(x, ast.Constant) and isinstance(x.value, str) and (x.value.startswith("//") or x.value.startswith("/\\")):
        return True  # a literal protocol-relative prefix is as bad as an unchecked request path
    return None


class _TestView:
    """A CFG test node whose expression has been looked through explaining locals (named booleans)."""

    def __init__(self, n, expr):
        self.kind, self.id, self.ast = n.kind, n.id, expr


def _via_locals(fi, cleaner):
    def cb(n, kind, tainted):
        if n.kind == "test":
            e = through_local(fi, n.ast)
            pol = kind
            while isinstance(e, ast.UnaryOp) and isinstance(e.op, ast.Not):
                e = e.operand
                pol = "false" if pol == "true" else "true"
            return cleaner(_TestView(n, e), pol, tainted)
        return cleaner(n, kind, tainted)

    return cb


def _guard_cleaner(n, kind, tainted):
    """``P.startswith("//")`` (or a tuple containing "//") taken false: P does not start with two slashes."""
    if n.kind != "test" or kind != "false":
        return []
    t = n.ast
    if isinstance(t, ast.Call) and isinstance(t.func, ast.Attribute) and t.func.attr == "startswith" and len(t.args) == 1:
        p = q.dotted(t.func.value)
        a = t.args[0]
        vals = [a.value] if isinstance(a, ast.Constant) else [e.value for e in a.elts if isinstance(e, ast.Constant)] if isinstance(a, ast.Tuple) else []
        if p and "//" in vals:
            return [p]
    return []


def _flat_add(e):
    if isinstance(e, ast.BinOp) and isinstance(e.op, ast.Add):
        return _flat_add(e.left) + _flat_add(e.right)
    return [e]


def _head_of(fi, x: ast.AST, depth: int = 4):
    """The expression that supplies the first characters of the string ``x`` builds, looking through the usual
    ways of building a string: ``a + b``, ``"fmt" % args``, f-strings, ``sep.join([..])`` (also of a local list that
    starts as a literal and is only appended to).  Returns a Constant (literal prefix) or the leading operand."""
    if depth <= 0:
        return x
    if isinstance(x, ast.BinOp) and isinstance(x.op, ast.Add):
        return _head_of(fi, _flat_add(x)[0], depth - 1)
    if isinstance(x, ast.BinOp) and isinstance(x.op, ast.Mod) and isinstance(x.left, ast.Constant) and isinstance(x.left.value, str):
        fmt = x.left.value
        i = fmt.find("%")
        if i != 0:
            return ast.Constant(value=fmt if i < 0 else fmt[:i])
        if fmt.startswith("%%"):
            return ast.Constant(value="%")
        args = x.right.elts if isinstance(x.right, ast.Tuple) else [x.right]
        return _head_of(fi, args[0], depth - 1) if args else x
    if isinstance(x, ast.JoinedStr) and x.values:
        v0 = x.values[0]
        return v0 if isinstance(v0, ast.Constant) else _head_of(fi, v0.value, depth - 1)
    if isinstance(x, ast.Call) and isinstance(x.func, ast.Attribute) and x.func.attr == "join" and isinstance(x.func.value, ast.Constant) and len(x.args) == 1:
        seq = x.args[0]
        if isinstance(seq, ast.Name):
            # a local list: its first binding must be a list literal and every other change an append at the end
            binds = [st for st in q.walk_body(fi.node) if isinstance(st, (ast.Assign, ast.AnnAssign, ast.AugAssign)) and seq.id in q.assigned_paths(st)]
            first = binds[0] if binds else None
            tail_only = all(isinstance(st, ast.AugAssign) and isinstance(st.op, ast.Add) for st in binds[1:])
            inserts = [c for c in q.calls(fi.node) if isinstance(c.func, ast.Attribute) and q.dotted(c.func.value) == seq.id and c.func.attr in ("insert", "reverse", "sort", "pop", "remove", "clear")]
            if first is not None and not isinstance(first, ast.AugAssign) and isinstance(first.value, (ast.List, ast.Tuple)) and first.value.elts and tail_only and not inserts:
                seq = first.value
        if isinstance(seq, (ast.List, ast.Tuple)) and seq.elts and not isinstance(seq.elts[0], ast.Starred):
            return _head_of(fi, seq.elts[0], depth - 1)
    return x


def make_slash_headed(fi):
    def hook(x: ast.AST):
        """Scheme pass: a string whose first characters are a literal starting with "/" is a path on this host as far
        as the scheme is concerned (whether it is protocol-relative is the other pass's business)."""
        if isinstance(x, (ast.BinOp, ast.JoinedStr, ast.Call)):
            h = _head_of(fi, x)
            if h is not x and isinstance(h, ast.Constant) and isinstance(h.value, str) and h.value.startswith("/"):
                return False
        return None

    return hook


def _leading_slash_cleaner(n, kind, tainted):
    """``P.startswith("/")`` taken true: P is not scheme-qualified."""
    if n.kind != "test" or kind != "true":
        return []
    t = n.ast
    if isinstance(t, ast.Call) and isinstance(t.func, ast.Attribute) and t.func.attr == "startswith" and len(t.args) == 1 and isinstance(t.args[0], ast.Constant) and isinstance(t.args[0].value, str) and t.args[0].value.startswith("/"):
        p = q.dotted(t.func.value)
        return [p] if p else []
    return []


def check_no_scheme(ck, fi):
    """The trailing-slash decorators run for any routed request, including an absolute-form request target
    (``GET http://other.example/x/``) whose path does not start with "/": their redirect target must be
    anchored to this host by a literal leading "/" (or the path must be known to start with "/")."""
    sites = _redirect_sites(fi)
    hs = HelperSummaries(ck.repo, fi, lambda h: _via_locals(h, _leading_slash_cleaner), (), make_slash_headed(fi), self_classes=("RequestHandler",))
    states = flow_taint(fi, PATH_SOURCES, clean_on_edge=hs.cleaner(_via_locals(fi, _leading_slash_cleaner)), expr_hook=hs.expr_hook, on_node=hs.on_node)
    for node, c in sites:
        target = q.arg(c, 0, "url")
        sts = states.get(node.id, [])
        if target is None or not sts:
            raise AnalysisError("%s: redirect target/call not analysable" % fi.qualname)
        bad = any(expr_tainted(target, t, expr_hook=hs.expr_hook) for t in sts)
        ck.ob("C28.no-scheme", fi, c, not bad, "a redirect target taken from the request path is anchored by a literal leading '/' on every path to the call (an absolute-form request target cannot become a scheme-qualified Location)")
    return len(sites)


def check_decorator_probes(ck, fi, strip_slash: bool):
    """Whatever rewriting a trailing-slash decorator applies to the request path, the *final* Location must be a path
    on this host.  The wrapper is evaluated concretely for request paths with doubled leading slashes, a backslash
    after the first slash, an absolute-form target, and an ordinary path: every redirect target reached on a fully
    decided path must start with exactly one '/'.  (A transformation applied after the leading-slash collapse —
    replacing characters, unquoting — that re-creates '//' is caught here, wherever it is written.)"""
    from ..x_peval import UNK, peval, try_fold, module_constants, make_resolver

    sites = {n.id: c for n, c in _redirect_sites(fi)}
    if not sites:
        raise AnalysisError("%s: no self.redirect call" % fi.qualname)
    tail = "/" if strip_slash else ""
    probes = ["//evil.example/x", "/\\evil.example/x", "///evil.example/x", "/\\/evil.example/x", "http://evil.example/x", "/ok/page", "/%2Fevil.example/x"]
    n_dec = 0
    for path in probes:
        for query in ("", "a=1"):
            seen = []

            def hook(n, env, seen=seen):
                if n.id in sites:
                    t = q.arg(sites[n.id], 0, "url")
                    seen.append((try_fold(t, env) if t is not None else UNK, bool(env.get("@undecided"))))
                return None

            init = module_constants(fi)
            init.update({"self.request.path": path + tail, "self.request.uri": path + tail + (("?" + query) if query else ""), "self.request.query": query,
                         "self.request.method": "GET", "@resolve": make_resolver(ck.repo, WEB, None)})
            peval(fi.cfg, init, hook=hook, track=lambda t: True)
            for target, und in seen:
                if und or target is UNK or not isinstance(target, str):
                    continue
                n_dec += 1
                ok = target.startswith("/") and not target.startswith("//")
                ck.ob("C28.final-target", fi, sites[next(iter(sites))], ok, "for the request path %r the Location is a path on this host (it is %r)" % (path + tail, target),
                      construct="request path %s yields an off-site Location" % ("with a backslash after the first slash" if "\\" in path else "with doubled leading slashes" if path.startswith("//") else "in absolute form" if "://" in path else "of another kind"))
    if n_dec < 4:
        raise AnalysisError("%s: the redirect target could be evaluated concretely for only %d probes" % (fi.qualname, n_dec))


def _redirect_sites(fi):
    return [(n, c) for n, c in fi.cfg.find(lambda x: isinstance(x, ast.Call) and isinstance(x.func, ast.Attribute) and x.func.attr == "redirect" and q.dotted(x.func.value) == "self")]


def check_path_redirects(ck, fi):
    sites = _redirect_sites(fi)
    hs = HelperSummaries(ck.repo, fi, lambda h: _via_locals(h, _guard_cleaner), (), _strips_slash, self_classes=("RequestHandler", "StaticFileHandler"))
    states = flow_taint(fi, PATH_SOURCES, clean_on_edge=hs.cleaner(_via_locals(fi, _guard_cleaner)), expr_hook=hs.expr_hook, on_node=hs.on_node)
    n = 0
    for node, c in sites:
        target = q.arg(c, 0, "url")
        if target is None:
            raise AnalysisError("%s: redirect without a target argument" % fi.qualname)
        sts = states.get(node.id, [])
        if not sts:
            raise AnalysisError("%s: redirect call unreachable in the taint exploration" % fi.qualname)
        bad = any(expr_tainted(target, t, expr_hook=hs.expr_hook) for t in sts)
        n += 1
        ck.ob("C28.same-site", fi, c, not bad, "a redirect target derived from the request path cannot start with '//' (rejected by a startswith('//') guard or stripped with lstrip('/')) on any path to the call")
    return n


def check_login_redirect(ck, fi):
    sites = _redirect_sites(fi)
    req = flow_taint(fi, ("self.request",), sanitizers=("urlencode",))
    login = flow_taint(fi, (), source_calls=("self.get_login_url",))
    n = 0
    for node, c in sites:
        target = q.arg(c, 0, "url")
        if target is None:
            raise AnalysisError("%s: redirect without a target argument" % fi.qualname)
        n += 1
        raw = any(expr_tainted(target, t, ("urlencode",)) for t in req.get(node.id, []))
        ck.ob("C28.login-only", fi, c, not raw, "request data enters the login redirect only url-encoded inside the query (urlencode)")
        sts = login.get(node.id, [])
        from_login = bool(sts) and all(expr_tainted(target, t, (), ("self.get_login_url",)) for t in sts)
        ck.ob("C28.login-only", fi, c, from_login, "on every path the redirect target is (an extension of) self.get_login_url()", construct="target not derived from get_login_url on some path: " + q.normalize_construct(c, q.local_names(fi.node)))
        # the login URL is the head of the target: nothing is prepended to it
        if isinstance(target, ast.Name):
            for st in q.walk_body(fi.node):
                if isinstance(st, ast.Assign) and target.id in q.assigned_paths(st) and isinstance(st.value, ast.BinOp):
                    head = st.value
                    while isinstance(head, ast.BinOp):
                        head = head.left
                    ck.ob("C28.login-only", fi, st, q.is_call(head, "self.get_login_url") or q.dotted(head) == target.id, "nothing is put in front of the login URL")
    return n


def run(ck):
    ck.rule("C28.same-site", "every self.redirect whose target derives from self.request.path/uri is, on all paths, behind a startswith('//') rejection of that path or built from its lstrip('/')")
    ck.rule("C28.no-scheme", "the trailing-slash decorators build their target as a literal '/' followed by request data (or behind a startswith('/') test), so it is never scheme-qualified")
    ck.rule("C28.final-target", "the trailing-slash decorators, evaluated on sample request paths (doubled slashes, backslash after the slash, absolute form): the final Location starts with exactly one '/' — no rewriting after the leading-slash collapse re-opens it")
    ck.rule("C28.login-only", "authenticated redirects to self.get_login_url(), with request data only inside urlencode(...)")
    ck.rule("C28.inventory", "every other redirect in tornado/web.py whose target derives from the request path is guarded the same way (helpers used only by the anchored functions are judged inlined there)")
    total = 0
    for qn, kind in ANCHORS:
        fi = F(ck, WEB, qn)
        n = check_path_redirects(ck, fi) if kind == "path" else check_login_redirect(ck, fi)
        if kind == "path" and "wrapper" in qn:
            check_no_scheme(ck, fi)
            check_decorator_probes(ck, fi, strip_slash=qn.startswith("removeslash"))
        ck.floor("C28.same-site" if kind == "path" else "C28.login-only", n, 1, "self.redirect calls in %s" % qn)
        total += n
    # inventory: any other function of web.py that redirects to something derived from the request path gets the same
    # rule.  A private helper whose every use is a call from an anchored function (fixpoint) is not "another
    # function": it was inlined into its callers above and judged there, guard and all.
    from ..rules import callers_of, references_to

    anchored = {a for a, _ in ANCHORS}
    m = ck.repo.module(WEB)

    def reached_only_from_anchors(f, depth=3):
        if f.qualname in anchored:
            return True
        if depth <= 0 or not f.name.startswith("_") or f.name.startswith("__"):
            return False
        calls = callers_of(ck.repo, f.name, [WEB])
        refs = references_to(ck.repo, f.name, [WEB])
        if not calls or len(refs) != len(calls):
            return False
        return all(c_.qualname != f.qualname and reached_only_from_anchors(c_, depth - 1) for c_, _x in calls)

    for qn, fi0 in list(m.funcs.items()):
        if qn in anchored or not _redirect_sites(fi0):
            continue
        if reached_only_from_anchors(fi0):
            for c_, _x in callers_of(ck.repo, fi0.name, [WEB]):
                nc = F(ck, WEB, c_.qualname)
                if any(q.call_attr(x) == fi0.name for x in q.calls(nc.node)):
                    raise AnalysisError("%s redirects on behalf of %s but could not be inlined there" % (fi0.qualname, c_.qualname))
            continue
        fi = F(ck, WEB, qn)
        hs = HelperSummaries(ck.repo, fi, lambda h: _via_locals(h, _guard_cleaner), ENCODERS, _strips_slash, self_classes=("RequestHandler", "StaticFileHandler"))
        states = flow_taint(fi, PATH_SOURCES, sanitizers=ENCODERS, clean_on_edge=hs.cleaner(_via_locals(fi, _guard_cleaner)), expr_hook=hs.expr_hook, on_node=hs.on_node)
        for node, c in _redirect_sites(fi):
            target = q.arg(c, 0, "url")
            derived = target is not None and any(expr_tainted(target, t, ENCODERS, expr_hook=hs.expr_hook) for t in states.get(node.id, []))
            ck.ob("C28.inventory", fi, c, not derived, "a redirect outside the anchored functions does not send the client to an unguarded target built from the request path")



def _in(qn, edit):
    return lambda repo: mutate(repo, WEB, qn, edit)


def _u(n):
    return ast.unparse(n)


def _is_strip_fix(st):
    return isinstance(st, ast.Assign) and "lstrip" in _u(st.value) and isinstance(st.value, ast.BinOp)


def _unstrip(n):
    """``"/" + E.lstrip("/")`` -> ``E``"""
    return isinstance(n, ast.BinOp) and isinstance(n.op, ast.Add) and isinstance(n.left, ast.Constant) and n.left.value == "/" and isinstance(n.right, ast.Call) and q.call_attr(n.right) == "lstrip"


def _guard_other_variable(root):
    for n in ast.walk(root):
        if isinstance(n, ast.Call) and q.call_attr(n) == "startswith" and _u(n.func.value) == "self.request.path" and isinstance(n.args[0], ast.Constant) and n.args[0].value == "//":
            n.func.value = parse_expr("self.path")
            return True
    return False


def _reassign_after_sanitizer(root):
    """removeslash: compute the stripped value first, then overwrite it with the raw rstrip result."""
    for node in ast.walk(root):
        body = getattr(node, "body", None)
        if isinstance(body, list):
            for i, st in enumerate(body):
                if _is_strip_fix(st):
                    body.insert(i + 1, parse_stmt("uri = self.request.path.rstrip('/')"))
                    return True
    return False


MUTANTS = [
    ("static-directory redirect: '//' guard removed", _in("StaticFileHandler.validate_absolute_path", remove_stmts(lambda st: isinstance(st, ast.If) and "startswith('//')" in _u(st.test))), "C28.same-site"),
    ("static-directory redirect: guard tests '///' only", _in("StaticFileHandler.validate_absolute_path", replace_expr(lambda n: isinstance(n, ast.Constant) and n.value == "//", lambda n: ast.Constant(value="///"))), "C28.same-site"),
    ("static-directory redirect: guard applied to the routed path instead of request.path", _in("StaticFileHandler.validate_absolute_path", _guard_other_variable), "C28.same-site"),
    ("static-directory redirect: guard only logs", _in("StaticFileHandler.validate_absolute_path", replace_stmt(lambda st: isinstance(st, ast.If) and "startswith('//')" in _u(st.test), lambda st: [ast.If(test=st.test, body=[parse_stmt("gen_log.warning('suspicious path')")], orelse=[])])), "C28.same-site"),
    ("removeslash: leading-slash normalisation undone (F20 re-introduced)", _in("removeslash.<locals>.wrapper", remove_stmts(_is_strip_fix)), "C28.same-site"),
    ("addslash: leading-slash normalisation undone (F20 re-introduced)", _in("addslash.<locals>.wrapper", replace_expr(_unstrip, lambda n: n.right.func.value)), "C28.same-site"),
    ("addslash: lstrip() without '/' (strips whitespace only)", _in("addslash.<locals>.wrapper", replace_expr(lambda n: isinstance(n, ast.Call) and q.call_attr(n) == "lstrip", lambda n: ast.Call(func=n.func, args=[], keywords=[]))), "C28.same-site"),
    ("removeslash: normalisation only when the target starts with '//' (seeded C28-adv3)", _in("removeslash.<locals>.wrapper", replace_stmt(_is_strip_fix, lambda st: [ast.If(test=parse_expr("uri.startswith('//')"), body=[st], orelse=[])])), "C28.no-scheme"),
    ("addslash: only the slashes are stripped, no leading '/' put back", _in("addslash.<locals>.wrapper", replace_expr(_unstrip, lambda n: n.right)), "C28.no-scheme"),
    ("addslash: backslashes turned into slashes after the leading-slash collapse (seeded C28-adv6)", _in("addslash.<locals>.wrapper", replace_stmt(lambda st: isinstance(st, ast.Assign) and "lstrip" in _u(st.value), lambda st: [st, parse_stmt("uri = uri.replace('\\\\', '/')")])), "C28.final-target"),
    ("removeslash: target percent-decoded after the leading-slash collapse", _in("removeslash.<locals>.wrapper", replace_stmt(_is_strip_fix, lambda st: [st, parse_stmt("uri = uri.replace('%2F', '/')")])), "C28.final-target"),
    ("removeslash: raw path re-assigned after the normalisation", _in("removeslash.<locals>.wrapper", _reassign_after_sanitizer), "C28.same-site"),
    ("addslash: '//' prepended instead of '/'", _in("addslash.<locals>.wrapper", replace_expr(_unstrip, lambda n: ast.BinOp(left=ast.Constant(value="//"), op=ast.Add(), right=n.right))), "C28.same-site"),
    ("authenticated: falls back to the requested URI when no login URL is configured", _in("authenticated.<locals>.wrapper", replace_stmt(lambda st: isinstance(st, ast.Assign) and "get_login_url" in _u(st.value), lambda st: [parse_stmt("url = self.get_login_url() or self.request.uri")])), "C28.login-only"),
    ("authenticated: redirects back to next_url for absolute login URLs", _in("authenticated.<locals>.wrapper", replace_stmt(lambda st: isinstance(st, ast.Assign) and "full_url" in _u(st.value), lambda st: [st, parse_stmt("url = next_url")])), "C28.login-only"),
    ("authenticated: login URL resolved against the request URI with urljoin (seeded C28-adv4)", _in("authenticated.<locals>.wrapper", replace_stmt(lambda st: isinstance(st, ast.Assign) and "get_login_url" in _u(st.value), lambda st: [parse_stmt("url = urllib.parse.urljoin(self.request.uri, self.get_login_url())")])), "C28.login-only"),
    ("authenticated: request host placed in front of the login URL", _in("authenticated.<locals>.wrapper", replace_stmt(lambda st: isinstance(st, ast.AugAssign) and "urlencode" in _u(st), lambda st: [st, parse_stmt("url = '//' + self.request.host + url")])), "C28.login-only"),
    ("static-directory redirect built from the decoded self.path (the '//' guard tests another string) (seeded C28-adv5)", _in("StaticFileHandler.validate_absolute_path", replace_expr(lambda n: isinstance(n, ast.BinOp) and _u(n) == "self.request.path + '/'", lambda n: parse_expr("self.make_static_url(self.settings, self.path + '/', include_version=False)"))), "C28.same-site"),
    ("static-directory redirect guard moved to the decoded path while the raw request path is redirected to", _in("StaticFileHandler.validate_absolute_path", replace_expr(lambda n: isinstance(n, ast.Call) and q.call_attr(n) == "startswith" and _u(n.func.value) == "self.request.path" and "//" in _u(n), lambda n: parse_expr("self.path.startswith('//')"))), "C28.same-site"),
    ("new request-derived redirect in RedirectHandler", _in("RedirectHandler.get", replace_stmt(lambda st: isinstance(st, ast.Assign) and "format" in _u(st.value), lambda st: [parse_stmt("to_url = self._url.format(*args, **kwargs) or self.request.path")])), "C28.inventory"),
]
