"""C18 — the native WebSocket masking routine equals the reference definition.

Decided statically.  ``tornado/speedups.c`` is analysed through clang's JSON AST
(vt/x_cast.py: ``clang -fsyntax-only -Xclang -ast-dump=json``; nothing is
compiled or run, no source text is matched).  ``websocket_mask`` is interpreted
abstractly, statement by statement:

* pointer/length bookkeeping in the domain "data - data0 == buf - buf0 ==
  n0 - data_len == p, p = 0 (mod 4)" — every word loop must advance the two
  pointers and decrease the length by exactly the number of bytes it stores, a
  multiple of 4, and its guard must imply that so many bytes remain;
* a symbolic *byte-lane* evaluation of every stored value under both
  endiannesses: lane j of a W-byte store must be ``data[j] ^ mask[j mod 4]``
  (this discharges "the 64-bit mask is the 32-bit mask twice" and "type punning
  cancels" instead of assuming them);
* the byte tail: ``out[i] = data[i] ^ mask[i]`` for ``0 <= i < data_len`` with the
  preceding loop guaranteeing ``data_len <= 4``;
* prologue/epilogue: argument roles from the PyArg_ParseTuple format, the mask
  length test rejects exactly the lengths != 4 (ValueError, NULL) before any
  read of the mask, the result is allocated with the untouched ``data_len`` and
  returned, the function is exported under the name util.py imports.

These are the hypotheses of the induction "word-wise XOR == byte-wise XOR for
every length"; the checker discharges them from the AST.  ``util.py``: the
reference is ``data[i] ^ mask[i % 4]`` behind the same length test, and
``_websocket_mask`` is bound only to the C routine or (fallback) the reference.

Not decided: compiler/ABI behaviour (alignment of the punned accesses, strict
aliasing), CPython's argument parsing, that the extension is actually built.
"""
from __future__ import annotations

import ast
import copy
import hashlib
import os
import shutil
import tempfile

from .. import q
from .. import x_cast as C
from ..cfg import canon_fact
from ..model import AnalysisError
from .. import x_wsnorm as NORM
from ..mutate import mutate, remove_stmts, replace_expr, replace_stmt, parse_stmt, parse_expr, MutantNotApplicable

TECHNIQUE = "abstract interpretation of the clang AST (pointer/length congruence domain + symbolic byte lanes under both endiannesses); AST rules on the Python reference and the selection logic"
EXPLANATION = (
    "speedups.c is parsed by clang (-ast-dump=json) and websocket_mask is interpreted abstractly: argument roles from the ParseTuple format, "
    "the mask-length test evaluated for lengths 0..16, every loop checked for stride = bytes stored = multiple of 4 with a guard implying enough "
    "remaining bytes, every stored word evaluated lane by lane for little- and big-endian layouts, the byte tail bounded by the preceding guard. "
    "util.py: reference loop shape (i % 4, length test first) and every binding of _websocket_mask."
)
NOT_DECIDED = "undefined-behaviour/ABI questions (unaligned or aliasing-violating word accesses), CPython's 's#' parsing, whether the extension is built and importable at run time; nothing is executed"
LEVEL_NOTE = "Discharges the hypotheses of the word-wise == byte-wise induction from the clang AST (LP64 widths assumed: uint32_t 4, uint64_t/size_t/Py_ssize_t 8 bytes); NOT decided: " + NOT_DECIDED

CREL = "tornado/speedups.c"
U = "tornado/util.py"
W = "tornado/websocket.py"
EXPORT = "websocket_mask"


class _Site:
    def __init__(self, lineno):
        self.lineno = lineno


# ---------------------------------------------------------------------------
# C side


class _St:
    def __init__(self):
        self.roles = {}  # var -> mask|mask_len|data|data_len|out|result
        self.mask_checked = False
        self.allocated = False
        self.sym = "exact"  # exact: no pointer moved yet; p: a == b == c == p, p % 4 == 0
        self.rem_upper = None
        self.scalars = {"little": {}, "big": {}}
        self.tail_done = False
        self.n_loops = 0
        self.returned = False

    def role(self, r):
        for v, rr in self.roles.items():
            if rr == r:
                return v
        return None


def _cmp_truth(node, var):
    """For ``var OP literal`` (either order) return the predicate int -> bool, else None."""
    n = C.strip(node)
    if C.kind(n) != "BinaryOperator" or n.get("opcode") not in ("==", "!=", "<", "<=", ">", ">="):
        return None
    a, b = C.inner(n)
    op = n.get("opcode")
    if C.ref(_unwrap_int(a)) == var and C.int_literal(b) is not None:
        k = C.int_literal(b)
    elif C.ref(_unwrap_int(b)) == var and C.int_literal(a) is not None:
        k = C.int_literal(a)
        op = {"<": ">", "<=": ">=", ">": "<", ">=": "<=", "==": "==", "!=": "!="}[op]
    else:
        return None
    return {
        "==": lambda x: x == k, "!=": lambda x: x != k, "<": lambda x: x < k, "<=": lambda x: x <= k, ">": lambda x: x > k, ">=": lambda x: x >= k,
    }[op]


def _unwrap_int(n):
    n = C.strip(n)
    while C.kind(n) == "ImplicitCastExpr" and n.get("castKind") == "IntegralCast":
        n = C.strip(C.inner(n)[0])
    return n


def _returns_null(block) -> bool:
    sts = C.inner(block) if C.kind(block) == "CompoundStmt" else [block]
    return bool(sts) and C.kind(sts[-1]) == "ReturnStmt" and C.inner(sts[-1]) and C.is_null_pointer(C.inner(sts[-1])[0])


def _mentions(node, names) -> bool:
    return any(C.kind(x) == "DeclRefExpr" and (x.get("referencedDecl") or {}).get("name") in names for x in C.walk(node))


def _reads_mask_memory(node, st) -> bool:
    m = st.role("mask")
    for x in C.walk(node):
        if C.kind(x) == "ArraySubscriptExpr" and _mentions(C.inner(x)[0], {m}):
            return True
        if C.kind(x) == "UnaryOperator" and x.get("opcode") == "*" and _mentions(x, {m}):
            return True
    return False


def c_rules(ck, tu, label=CREL):
    """All obligations on the clang AST ``tu`` of speedups.c (the C path is the caller's business)."""

    def ob(rule, node, ok, what, construct):
        return ck.ob(rule, None, _Site(C.line(node) if node is not None else None), ok, what, construct=construct, file=label)

    fns = C.function_decls(tu)
    table = C.method_table(tu)
    ob("C18.export", None, EXPORT in table and table.get(EXPORT) in fns, "the extension's method table exports %r bound to a function defined in speedups.c (table %r)" % (EXPORT, table), "method table exports %s" % EXPORT)
    if EXPORT not in table or table[EXPORT] not in fns:
        raise AnalysisError("speedups.c: no function exported as %r" % EXPORT)
    fdecl = fns[table[EXPORT]]
    params = [p.get("name") for p in C.inner(fdecl) if C.kind(p) == "ParmVarDecl"]
    body = C.body_of(fdecl)
    st = _St()

    # --- roles from the PyArg_ParseTuple format
    parse = [x for x in C.walk(body) if C.kind(x) == "CallExpr" and "PyArg_ParseTuple" in (C.callee(x) or "")]
    if len(parse) != 1:
        raise AnalysisError("websocket_mask: expected exactly one PyArg_ParseTuple call, found %d" % len(parse))
    pargs = C.call_args(parse[0])
    fmt = C.string_literal(pargs[1]) if len(pargs) > 1 else None
    units = []
    f = fmt or ""
    while f:
        if f[:2] in ("s#", "y#", "z#"):
            units.append(f[:2])
            f = f[2:]
        elif f[0] in ":;":
            break
        else:
            raise AnalysisError("websocket_mask: unmodelled ParseTuple format %r" % fmt)
    outs = []
    for a in pargs[2:]:
        a = C.strip(a)
        if C.kind(a) == "UnaryOperator" and a.get("opcode") == "&":
            outs.append(C.ref(C.inner(a)[0]))
        else:
            outs.append(None)
    ob("C18.args", parse[0], len(units) == 2 and len(outs) == 4 and all(outs) and C.ref(pargs[0]) == (params[1] if len(params) > 1 else None),
       "arguments are parsed as two (pointer, length) pairs from the args tuple: (mask, mask_len, data, data_len) (format %r)" % fmt, "ParseTuple format %r -> %r" % (fmt, outs))
    if not (len(units) == 2 and len(outs) == 4 and all(outs)):
        raise AnalysisError("websocket_mask: cannot assign argument roles")
    st.roles = {outs[0]: "mask", outs[1]: "mask_len", outs[2]: "data", outs[3]: "data_len"}

    _run_block(ck, ob, st, C.inner(body), top=True)

    ob("C18.complete", None, st.returned, "the function returns the result object on its normal path", "normal return reached: %s" % st.returned)
    ob("C18.stride", None, st.n_loops >= 1 or st.tail_done, "at least one processing loop exists", "loops analysed: %d" % st.n_loops)
    return st


def _assign_parts(n):
    if C.kind(n) == "BinaryOperator" and n.get("opcode") == "=":
        return C.inner(n)[0], C.inner(n)[1]
    return None


def _run_block(ck, ob, st, stmts, top=False):
    for s in stmts:
        k = C.kind(s)
        if k in ("DeclStmt", "NullStmt"):
            for d in C.inner(s):
                if C.kind(d) == "VarDecl" and C.inner(d) and (d.get("init") is not None):
                    raise AnalysisError("websocket_mask: initialised declaration of %s is not modelled" % d.get("name"))
            continue
        if k == "IfStmt":
            _run_if(ck, ob, st, s)
            continue
        if k == "WhileStmt":
            cond, body = C.inner(s)[0], C.inner(s)[1]
            _run_while(ck, ob, st, s, cond, C.inner(body) if C.kind(body) == "CompoundStmt" else [body])
            continue
        if k == "ForStmt":
            parts = C.inner(s)
            if len(parts) != 5:
                raise AnalysisError("websocket_mask: unexpected for statement shape (line %s)" % C.line(s))
            init, _cv, cond, inc, body = parts
            dl = st.role("data_len")
            if not C.kind(init) and cond and _split_guard(cond, st) is not None:
                # for (; data_len >= W; data_len -= W) { ... }  is a word loop whose step runs after the body
                stmts = (C.inner(body) if C.kind(body) == "CompoundStmt" else [body]) + ([inc] if C.kind(inc) else [])
                _run_while(ck, ob, st, s, cond, stmts)
            else:
                _run_for(ck, ob, st, s)
            continue
        if k == "ReturnStmt":
            v = C.inner(s)[0] if C.inner(s) else None
            res = st.role("result")
            ob("C18.complete", s, v is not None and C.ref(v) == res and res is not None, "the value returned on the normal path is the allocated result object", "return value")
            ob("C18.complete", s, st.tail_done and st.allocated and st.role("out") is not None, "before returning, the output buffer was obtained and the byte tail (remaining 0..3 bytes) was processed", "return after tail: tail=%s alloc=%s out=%s" % (st.tail_done, st.allocated, st.role("out") is not None))
            st.returned = True
            return
        ap = _assign_parts(s)
        if ap is not None:
            _run_assign(ck, ob, st, s, ap[0], ap[1])
            continue
        if k == "CompoundAssignOperator" and _mentions(s, set(st.roles)):
            raise AnalysisError("websocket_mask: pointer/length update outside a loop (line %s) is not modelled" % C.line(s))
        if _mentions(s, set(st.roles)):
            raise AnalysisError("websocket_mask: unmodelled statement kind %s touching the analysed variables (line %s)" % (k, C.line(s)))


def _run_if(ck, ob, st, s):
    parts = C.inner(s)
    cond, then = parts[0], parts[1]
    els = parts[2] if len(parts) > 2 else None
    c = C.strip(cond)
    mlen = st.role("mask_len")
    # failed argument parsing
    if C.kind(c) == "UnaryOperator" and c.get("opcode") == "!" and "PyArg_ParseTuple" in (C.callee(C.inner(c)[0]) or ""):
        ob("C18.args", s, _returns_null(then), "a failed PyArg_ParseTuple returns NULL immediately", "parse failure returns NULL")
        return
    # mask length test
    if _mentions(cond, {mlen}):
        pred = _cmp_truth(cond, mlen)
        if pred is None:
            raise AnalysisError("websocket_mask: unrecognised test on the mask length (line %s)" % C.line(s))
        err_when = [n for n in range(0, 17) if pred(n)]
        rejects_then = _returns_null(then)
        if not rejects_then and els is not None and _returns_null(els):
            err_when = [n for n in range(0, 17) if not pred(n)]
            branch = els
        else:
            branch = then
        ok_set = err_when == [n for n in range(0, 17) if n != 4]
        ob("C18.mask-len", s, _returns_null(branch) and ok_set, "mask lengths 0..16: exactly the lengths != 4 are rejected with NULL (rejected: %s)" % err_when, "mask length test rejects %s" % err_when)
        seterr = [x for x in C.walk(branch) if C.kind(x) == "CallExpr" and (C.callee(x) or "").startswith("PyErr_")]
        okerr = any(any(C.ref(a) == "PyExc_ValueError" for a in C.call_args(x)) for x in seterr)
        ob("C18.mask-len", s, okerr, "the rejection sets a ValueError (same exception class as the Python reference)", "rejection raises ValueError")
        if _returns_null(branch) and ok_set:
            st.mask_checked = True
        return
    res = st.role("result")
    if res and _mentions(cond, {res}) and not _mentions(cond, set(st.roles) - {res}):
        # allocation failure check
        return
    if _mentions(cond, set(st.roles)) and not all(_is_opaque(p_, st) for p_ in _conjuncts(cond)):
        _run_fast_path(ck, ob, st, s, cond, then, els)
        return
    # a configuration test (sizeof(...) >= 8): both outcomes must preserve the invariants
    before = copy.deepcopy(st.__dict__)
    _run_block(ck, ob, st, C.inner(then) if C.kind(then) == "CompoundStmt" else [then])
    after_then = copy.deepcopy(st.__dict__)
    st.__dict__.update(copy.deepcopy(before))
    if els is not None:
        _run_block(ck, ob, st, C.inner(els) if C.kind(els) == "CompoundStmt" else [els])
    a, b = after_then, st.__dict__
    st.sym = "p" if "p" in (a["sym"], b["sym"]) else "exact"
    st.rem_upper = None if (a["rem_upper"] is None or b["rem_upper"] is None) else max(a["rem_upper"], b["rem_upper"])
    st.n_loops = max(a["n_loops"], b["n_loops"])
    st.tail_done = a["tail_done"] and b["tail_done"]
    st.allocated = a["allocated"] and b["allocated"]
    st.mask_checked = a["mask_checked"] and b["mask_checked"]
    for e in ("little", "big"):
        merged = {}
        for v in set(a["scalars"][e]) | set(b["scalars"][e]):
            va, vb = a["scalars"][e].get(v), b["scalars"][e].get(v)
            merged[v] = va if va == vb else tuple([C.JUNK] * len(va or vb))
        st.scalars[e] = merged
    st.roles = dict(b["roles"])
    st.roles.update(a["roles"])


def _success_return(block):
    """The ReturnStmt ending ``block`` if it returns something other than NULL, else None."""
    sts = C.inner(block) if C.kind(block) == "CompoundStmt" else [block]
    if sts and C.kind(sts[-1]) == "ReturnStmt" and C.inner(sts[-1]) and not C.is_null_pointer(C.inner(sts[-1])[0]):
        return sts[-1]
    return None


def _run_fast_path(ck, ob, st, s, cond, then, els):
    """A branch on the payload variables: only an early *return* is modelled (a shortcut around the
    normal processing).  Every shortcut that returns a value must come after the mask length test and
    may only cover the empty payload with an empty result."""
    dl = st.role("data_len")
    branches = [(then, True)] + ([(els, False)] if els is not None else [])
    handled = False
    for blk, pol in branches:
        sts = C.inner(blk) if C.kind(blk) == "CompoundStmt" else [blk]
        if not sts or C.kind(sts[-1]) != "ReturnStmt":
            continue
        handled = True
        pred = _cmp_truth(cond, dl)
        c0 = C.strip(cond)
        if pred is None and C.kind(c0) == "UnaryOperator" and c0.get("opcode") == "!" and C.ref(_unwrap_int(C.inner(c0)[0])) == dl:
            pred = lambda x: x == 0
        if pred is None and C.ref(_unwrap_int(c0)) == dl:
            pred = lambda x: x != 0
        covered = None if pred is None else [n for n in range(0, 17) if pred(n) == pol]
        ret = _success_return(blk)
        if ret is None:
            ob("C18.complete", s, False, "a payload-dependent branch returns NULL: inputs the reference accepts are rejected (payload lengths %s of 0..16)" % (covered,), "early NULL return on a payload condition")
            continue
        ob("C18.mask-len", s, st.mask_checked, "every return of a result - including shortcuts for special payloads (here payload lengths %s of 0..16) - happens after the mask length test; otherwise masks that are not 4 bytes are accepted for those payloads" % (covered,),
           "shortcut return before the mask length test")
        rv = C.inner(ret)[0]
        empty = C.callee(rv) == "PyBytes_FromStringAndSize" and len(C.call_args(rv)) == 2 and C.int_literal(C.call_args(rv)[1]) == 0
        is_result = C.ref(rv) == st.role("result") and st.allocated
        if covered == [0] and (empty or is_result):
            ob("C18.complete", s, True, "the shortcut covers only the empty payload and returns an empty bytes object", "empty-payload shortcut returns empty bytes")
        else:
            raise AnalysisError("websocket_mask: shortcut return for payload lengths %s (line %s) is not modelled" % (covered, C.line(s)))
    if not handled:
        if els is None and _split_guard(cond, st) is not None and st.role("out") is not None:
            # `if (data_len >= W) { one word step }`: analysed like a word loop that runs at most once
            _run_while(ck, ob, st, s, cond, C.inner(then) if C.kind(then) == "CompoundStmt" else [then], once=True)
            return
        raise AnalysisError("websocket_mask: data-dependent branch on the analysed variables (line %s) is not modelled" % C.line(s))


def _run_assign(ck, ob, st, s, lhs, rhs):
    lv = C.strip(lhs)
    name = C.ref(lv) if C.kind(lv) == "DeclRefExpr" else None
    if name is None:
        raise AnalysisError("websocket_mask: memory store outside a loop (line %s) is not modelled" % C.line(s))
    call = C.callee(rhs)
    dl = st.role("data_len")
    if call == "PyBytes_FromStringAndSize":
        args = C.call_args(rhs)
        ok = len(args) == 2 and C.is_null_pointer(args[0]) and C.ref(_unwrap_int(args[1])) == dl
        if len(args) == 2 and not C.is_null_pointer(args[0]):
            # a bytes object created *with contents* may be a shared object (CPython returns the cached empty / one-byte
            # objects); the routine writes through its buffer afterwards
            ob("C18.alloc", s, False, "the result buffer that is written through comes from PyBytes_FromStringAndSize(NULL, n): an object built from existing contents can be a shared (cached) bytes object and must not be modified", "result created with contents and then written through")
        ob("C18.alloc", s, ok and st.sym == "exact", "the result is allocated uninitialised with exactly data_len bytes, before data_len is changed", "result = PyBytes_FromStringAndSize(NULL, <%s>)" % (st.roles.get(C.ref(_unwrap_int(args[1])) if len(args) == 2 else None, "?")))
        st.roles[name] = "result"
        st.allocated = True
        return
    if call in ("PyBytes_AsString", "PyBytes_AS_STRING"):
        args = C.call_args(rhs)
        ok = len(args) == 1 and C.ref(args[0]) == st.role("result") and st.role("result") is not None
        ob("C18.alloc", s, ok and st.sym == "exact", "the output pointer is the start of the result object's buffer", "out = PyBytes_AsString(result)")
        st.roles[name] = "out"
        return
    if name in st.roles and st.roles[name] in ("data", "data_len", "mask", "mask_len", "out", "result"):
        raise AnalysisError("websocket_mask: re-assignment of %s (line %s) is not modelled" % (name, C.line(s)))
    # scalar helper variable
    if _reads_mask_memory(rhs, st):
        ob("C18.mask-len", s, st.mask_checked, "the mask buffer is read only after its length was checked to be 4", "mask read after length check")
    for e in ("little", "big"):
        env = C.LaneEnv(e, {v: r for v, r in st.roles.items()}, {}, st.scalars[e])
        val = C.eval_lanes(rhs, env)
        w = C.width_of_type(C.qtype(lv))
        val = tuple(val[:w]) + (0,) * max(0, w - len(val))
        st.scalars[e][name] = val


def _conjuncts(n):
    n = C.strip(n)
    while C.kind(n) == "ImplicitCastExpr" and n.get("castKind") in ("IntegralCast", "IntegralToBoolean"):
        n = C.strip(C.inner(n)[0])
    if C.kind(n) == "BinaryOperator" and n.get("opcode") == "&&":
        return _conjuncts(C.inner(n)[0]) + _conjuncts(C.inner(n)[1])
    return [n]


def _is_opaque(n, st) -> bool:
    """A side-effect-free predicate that reads no memory and does not involve the lengths (a configuration test such
    as sizeof(...) >= 8, or a test on pointer *values* such as an alignment check): the analysis explores both outcomes."""
    for x in C.walk(n):
        k = C.kind(x)
        if k in ("CallExpr", "ArraySubscriptExpr", "CompoundAssignOperator", "StmtExpr", "ConditionalOperator"):
            return False
        if k == "UnaryOperator" and x.get("opcode") in ("*", "++", "--"):
            return False
        if k == "BinaryOperator" and x.get("opcode") in ("=", ","):
            return False
    return not _mentions(n, {st.role("data_len"), st.role("mask_len")} - {None})


def _split_guard(cond, st):
    """(K, n_opaque) when cond is `data_len >= K [&& opaque ...]`, else None."""
    dl = st.role("data_len")
    parts = _conjuncts(cond)
    g = [p_ for p_ in parts if _guard_min(p_, dl) is not None]
    rest = [p_ for p_ in parts if _guard_min(p_, dl) is None]
    if len(g) != 1 or not all(_is_opaque(r, st) for r in rest):
        return None
    return _guard_min(g[0], dl), len(rest)


def _guard_min(cond, var):
    pred = _cmp_truth(cond, var)
    if pred is None:
        return None
    sat = [n for n in range(0, 64) if pred(n)]
    if not sat or sat != list(range(sat[0], 64)):
        return None  # not an "at least K" guard
    return sat[0]


def _run_while(ck, ob, st, s, cond, body_stmts, once=False):
    dl, dp, op_ = st.role("data_len"), st.role("data"), st.role("out")
    if op_ is None or not st.allocated:
        raise AnalysisError("websocket_mask: processing loop before the output buffer exists (line %s)" % C.line(s))
    sg = _split_guard(cond, st)
    if sg is None:
        raise AnalysisError("websocket_mask: loop guard is not of the form data_len >= K / data_len > K [&& side-effect-free predicate] (line %s)" % C.line(s))
    gmin, n_opaque = sg
    st.n_loops += 1
    tag = "loop#%d" % st.n_loops
    offsets = {dp: 0, op_: 0}
    dld = 0
    stores = {"little": {}, "big": {}}
    for b in body_stmts:
        k = C.kind(b)
        ap = _assign_parts(b)
        if ap is not None:
            lhs, rhs = ap
            sp = C.subscript_parts(lhs) if C.is_mem_access(lhs) else None
            if sp is None:
                _run_assign(ck, ob, st, b, lhs, rhs)
                continue
            var, w, idx = sp
            kidx = C.int_literal(idx)
            if var != op_ or kidx is None:
                raise AnalysisError("websocket_mask: store through %s with a non-constant index in a word loop (line %s)" % (var, C.line(b)))
            if _reads_mask_memory(rhs, st):
                ob("C18.mask-len", b, st.mask_checked, "the mask buffer is read only after its length was checked to be 4", "mask read after length check")
            for e in ("little", "big"):
                env = C.LaneEnv(e, dict(st.roles), dict(offsets), st.scalars[e])
                val = C.eval_lanes(rhs, env)
                val = tuple(val[:w]) + (0,) * max(0, w - len(val))
                mem = C.value_to_mem(val, e)
                for j in range(w):
                    stores[e][offsets[op_] + kidx * w + j] = mem[j]
            continue
        if k == "CompoundAssignOperator" and b.get("opcode") in ("+=", "-="):
            tgt = C.ref(C.inner(b)[0])
            kk = C.int_literal(C.inner(b)[1])
            if kk is None or tgt not in (dp, op_, dl):
                raise AnalysisError("websocket_mask: unmodelled update in a word loop (line %s)" % C.line(b))
            sign = 1 if b.get("opcode") == "+=" else -1
            if tgt == dl:
                dld += sign * kk
            else:
                offsets[tgt] += sign * kk * C.pointee_width(C.strip(C.inner(b)[0]))
            continue
        if k == "UnaryOperator" and b.get("opcode") in ("++", "--") and C.ref(C.inner(b)[0]) in (dp, op_, dl):
            tgt = C.ref(C.inner(b)[0])
            sign = 1 if b.get("opcode") == "++" else -1
            if tgt == dl:
                dld += sign
            else:
                offsets[tgt] += sign
            continue
        raise AnalysisError("websocket_mask: unmodelled statement %s in a word loop (line %s)" % (k, C.line(b)))
    written = sorted(stores["little"])
    Wn = len(written)
    contiguous = written == list(range(0, Wn)) and Wn > 0
    ob("C18.stride", s, contiguous, "%s: one iteration stores a contiguous block starting at the current output position (offsets %s)" % (tag, written), "%s stores offsets %s" % (tag, written))
    ob("C18.stride", s, offsets[dp] == Wn and offsets[op_] == Wn and dld == -Wn, "%s: data and output pointers advance and data_len decreases by exactly the %d bytes stored (data += %d, out += %d, data_len %+d)" % (tag, Wn, offsets[dp], offsets[op_], dld), "%s strides data=%d out=%d len=%d stored=%d" % (tag, offsets[dp], offsets[op_], dld, Wn))
    if getattr(st, "phase", 0) != 0:
        raise AnalysisError("websocket_mask: a word step after the mask phase left 0 (line %s) is not modelled" % C.line(s))
    if once and Wn > 0 and Wn % 4 != 0:
        st.phase = Wn % 4  # reported where it matters: a later access that assumes phase 0 (the byte tail's mask[i])
    else:
        ob("C18.stride", s, Wn % 4 == 0 and Wn > 0, "%s: the block size %d is a multiple of 4, so the mask phase stays 0 at every loop head" % (tag, Wn), "%s block %d mod 4" % (tag, Wn))
    ob("C18.guard", s, gmin >= Wn and gmin >= 1, "%s: the guard implies data_len >= %d while one iteration reads and writes %d bytes (no access past the buffers)" % (tag, gmin, Wn), "%s guard min %d vs block %d" % (tag, gmin, Wn))
    for e in ("little", "big"):
        want = {j: ("x", j, j % 4) for j in range(Wn)}
        bad = [(j, stores[e].get(j)) for j in range(Wn) if stores[e].get(j) != want[j]]
        ob("C18.lanes", s, not bad and Wn > 0, "%s, %s-endian layout: stored byte j is data[j] ^ mask[j mod 4] for every j < %d%s" % (tag, e, Wn, (" - first mismatch at byte %d: %r" % bad[0]) if bad else ""), "%s lanes %s: %s" % (tag, e, "ok" if not bad else "byte %d = %r" % bad[0]))
    st.sym = "p"
    if n_opaque:
        # the extra predicate (e.g. an alignment test) may be false at any time: the step / loop may not run at all,
        # so it guarantees nothing about the bytes that remain
        pass
    elif once:
        st.rem_upper = None if st.rem_upper is None else max(gmin - 1, st.rem_upper - Wn)
    else:
        st.rem_upper = gmin - 1


def _run_for(ck, ob, st, s):
    parts = C.inner(s)
    if len(parts) != 5:
        raise AnalysisError("websocket_mask: unexpected for statement shape (line %s)" % C.line(s))
    init, _cv, cond, inc, body = parts
    dl, dp, op_, mk = st.role("data_len"), st.role("data"), st.role("out"), st.role("mask")
    ia = _assign_parts(init) if init else None
    iv = C.ref(ia[0]) if ia else None
    if iv is None or C.int_literal(ia[1]) is None:
        raise AnalysisError("websocket_mask: tail loop without `i = <const>` initialisation (line %s)" % C.line(s))
    start = C.int_literal(ia[1])
    c = C.strip(cond) if cond else None
    okc = c is not None and C.kind(c) == "BinaryOperator" and c.get("opcode") in ("<", "!=") and C.ref(_unwrap_int(C.inner(c)[0])) == iv and C.ref(_unwrap_int(C.inner(c)[1])) == dl
    i_ = C.strip(inc) if inc else None
    oki = i_ is not None and ((C.kind(i_) == "UnaryOperator" and i_.get("opcode") == "++" and C.ref(C.inner(i_)[0]) == iv) or (C.kind(i_) == "CompoundAssignOperator" and i_.get("opcode") == "+=" and C.ref(C.inner(i_)[0]) == iv and C.int_literal(C.inner(i_)[1]) == 1))
    ob("C18.tail", s, start == 0 and okc and oki, "the byte tail visits exactly i = 0 .. data_len-1 (start %s, condition %s data_len, step +1)" % (start, c.get("opcode") if c is not None else "?"), "tail range start=%s cond=%s step_ok=%s" % (start, c.get("opcode") if c is not None and C.kind(c) == "BinaryOperator" else "?", oki))
    sts = C.inner(body) if C.kind(body) == "CompoundStmt" else [body]
    if len(sts) != 1 or _assign_parts(sts[0]) is None:
        raise AnalysisError("websocket_mask: tail loop body is not a single store (line %s)" % C.line(s))
    lhs, rhs = _assign_parts(sts[0])
    sp = C.subscript_parts(lhs) if C.is_mem_access(lhs) else None
    if sp is None:
        raise AnalysisError("websocket_mask: tail loop does not store through the output pointer (line %s)" % C.line(s))
    var, w, idx = sp
    ob("C18.tail", sts[0], var == op_ and w == 1 and C.ref(idx) == iv, "the tail stores one byte at out[i]", "tail store out[i]")
    if _reads_mask_memory(rhs, st):
        ob("C18.mask-len", sts[0], st.mask_checked, "the mask buffer is read only after its length was checked to be 4", "mask read after length check")
    plain_index = False
    for e in ("little", "big"):
        env = C.LaneEnv(e, dict(st.roles), {}, st.scalars[e], index_vars={iv: "i"})
        val = C.eval_lanes(rhs, env)
        lane = val[0] if val else C.JUNK
        ok_plain = lane == ("x", ("i", iv), ("i", iv))
        ok_mod = lane == ("x", ("i", iv), ("i%4", iv))
        plain_index = plain_index or ok_plain
        ob("C18.tail", sts[0], ok_plain or ok_mod, "tail, %s-endian: the stored byte is data[i] ^ mask[i] (or mask[i %% 4]) (got %r)" % (e, lane), "tail lane %s: %s" % (e, "ok" if (ok_plain or ok_mod) else repr(lane)))
    if plain_index:
        ph = getattr(st, "phase", 0)
        ob("C18.tail", s, ph == 0, "the byte tail indexes the mask from 0 (mask[i]): every step before it must have consumed a multiple of 4 bytes (a preceding step left %d byte(s) of phase)" % ph, "tail mask phase %d" % ph)
        ob("C18.tail", s, st.sym in ("exact", "p") and st.rem_upper is not None and st.rem_upper <= 4, "mask[i] is only correct with i < 4 and phase 0: the loops before the tail leave data_len <= 4 (bound: %s)" % st.rem_upper, "tail bound data_len <= %s" % st.rem_upper)
    st.tail_done = start == 0 and okc and oki
    st.rem_upper = 0


def _handler_binds_reference(h: ast.ExceptHandler, chain, refname: str) -> bool:
    """On every path through the handler body that completes normally (does not raise), the last binding of a name of
    the copy chain is the reference implementation - decided on the CFG of the handler body, whatever the branch order."""
    import copy as _copy
    from ..cfg import build, explore

    class B(ast.NodeTransformer):  # `break` of an inlined selector leaves the handler normally
        def visit_Break(self, node):
            return ast.copy_location(ast.Return(value=None), node)

    body = [B().visit(_copy.deepcopy(x)) for x in h.body]
    fn = ast.FunctionDef(name="_handler", args=ast.arguments(posonlyargs=[], args=[], vararg=None, kwonlyargs=[], kw_defaults=[], kwarg=None, defaults=[]), body=body, decorator_list=[], returns=None, type_params=[])
    ast.fix_missing_locations(fn)
    cfg = build(fn)

    def transfer(n, val):
        if n.kind == "stmt" and isinstance(n.ast, (ast.Assign, ast.AnnAssign)) and getattr(n.ast, "value", None) is not None:
            tg = n.ast.targets if isinstance(n.ast, ast.Assign) else [n.ast.target]
            if any(isinstance(t, ast.Name) and t.id in chain for t in tg):
                return "ref" if (isinstance(n.ast.value, ast.Name) and n.ast.value.id == refname) else "other"
        if n.kind == "stmt" and isinstance(n.ast, (ast.Import, ast.ImportFrom)) and any((a.asname or a.name) in chain for a in n.ast.names):
            return "other"
        return val

    seen = explore(cfg, "unbound", transfer, lambda t: False, follow_exc=False)
    finals = {v for _f, v in seen.get(cfg.exit.id, ())}
    return bool(finals) and finals == {"ref"}


# ---------------------------------------------------------------------------
# Python side


def py_rules(ck, table):
    ref = ck.func(U, "_websocket_mask_python")
    ps = ref.params()
    if len(ps) != 2:
        raise AnalysisError("_websocket_mask_python: expected (mask, data)")
    mp, dp = ps
    cfg = ref.cfg
    R = "C18.reference"
    # length test first
    tests = [t for t in cfg.stmt_nodes(lambda n: n.kind == "test") if isinstance(t.ast, ast.Compare) and q.is_call(t.ast.left, "len") and q.dotted(t.ast.left.args[0]) == mp]
    ck.ob(R, ref, ref.node, len(tests) == 1, "the reference tests len(mask) once", construct="len(mask) tests: %d" % len(tests))
    for t in tests:
        truth = {len(x) for x in q.truth_set(t.ast, mp, ["x" * n for n in range(0, 17)])}
        rk = None
        for kind_ in ("true", "false"):
            succ = [s_ for s_, k in cfg.successors(t) if k == kind_]
            if succ and all(s_.kind == "stmt" and isinstance(s_.ast, ast.Raise) and "ValueError" in q.unparse(s_.ast) for s_ in succ):
                rk = kind_
        rej_n = sorted(truth if rk == "true" else (set(range(17)) - truth)) if rk else []
        ck.ob(R, ref, t.ast, rk is not None and rej_n == [n for n in range(17) if n != 4], "mask lengths 0..16: exactly the lengths != 4 raise ValueError (rejected %s)" % rej_n,
              construct="reference rejects %s" % rej_n)
        ok_kind = "false" if rk == "true" else "true"
        # everything else only via the accepting edge
        seen = {cfg.entry.id}
        stack = [cfg.entry.id]
        while stack:
            x = stack.pop()
            for y, k in cfg.succ[x]:
                if (x == t.id and k == ok_kind) or y in seen:
                    continue
                seen.add(y)
                stack.append(y)
        others = [n for n in cfg.stmt_nodes() if n.id in seen and n.id != t.id and not (n.kind == "stmt" and (isinstance(n.ast, ast.Raise) or (isinstance(n.ast, ast.Expr) and isinstance(n.ast.value, ast.Constant))))]
        ck.ob(R, ref, t.ast, not others, "nothing else runs before/without the length test passing")
    # the xor statement

    def src_of(name):
        st_ = q.stores_to(ref.node, name)
        return st_[0].value if len(st_) == 1 else None

    def is_arr_of(e, param):
        """e is (a name bound once to) array.array("B", param) / bytearray(param) / param itself"""
        if isinstance(e, ast.Name) and e.id == param:
            return True
        if isinstance(e, ast.Name):
            e = src_of(e.id)
        return isinstance(e, ast.Call) and ((q.call_name(e) in ("array.array", "array") and len(e.args) == 2 and q.is_const(e.args[0], "B") and q.dotted(e.args[1]) == param) or (q.call_name(e) in ("bytearray", "bytes", "memoryview") and len(e.args) == 1 and q.dotted(e.args[0]) == param))

    # the same definition written as one expression: bytes(b ^ mask[i % 4] for i, b in enumerate(data))
    rets_ = [n for n in q.walk_body(ref.node) if isinstance(n, ast.Return) and n.value is not None]
    if len(rets_) == 1 and isinstance(rets_[0].value, ast.Call) and q.call_name(rets_[0].value) in ("bytes", "bytearray") and len(rets_[0].value.args) == 1 and isinstance(rets_[0].value.args[0], (ast.GeneratorExp, ast.ListComp)) \
            and not any(isinstance(n, (ast.For, ast.While)) for n in q.walk_body(ref.node)):
        g_ = rets_[0].value.args[0]
        gen = g_.generators[0] if len(g_.generators) == 1 and not g_.generators[0].ifs else None
        ok_it = gen is not None and q.is_call(gen.iter, "enumerate") and len(gen.iter.args) == 1 and q.dotted(gen.iter.args[0]) == dp and isinstance(gen.target, ast.Tuple) and len(gen.target.elts) == 2 and all(isinstance(t_, ast.Name) for t_ in gen.target.elts)
        if not ok_it or not (isinstance(g_.elt, ast.BinOp) and isinstance(g_.elt.op, ast.BitXor)):
            raise AnalysisError("_websocket_mask_python: the single-expression form is not `bytes(b ^ mask[f(i)] for i, b in enumerate(data))`")
        iv_, bv_ = gen.target.elts[0].id, gen.target.elts[1].id
        l_, r_ = g_.elt.left, g_.elt.right
        if isinstance(r_, ast.Name) and r_.id == bv_:
            l_, r_ = r_, l_
        if not (isinstance(l_, ast.Name) and l_.id == bv_ and isinstance(r_, ast.Subscript) and q.dotted(r_.value) == mp and q.names_in(r_.slice) == {iv_}):
            raise AnalysisError("_websocket_mask_python: XOR operands of the single-expression form are not the data byte and mask[f(i)]")
        try:
            vals_ = [q.fold(r_.slice, {iv_: k}) for k in range(64)]
        except q.NotFoldable:
            raise AnalysisError("_websocket_mask_python: mask index does not fold")
        ck.ob(R, ref, rets_[0], vals_ == [k % 4 for k in range(64)], "the reference computes data[i] ^ mask[i %% 4] for every i (mask index for i = 0..7: %s)" % vals_[:8])
        xors_done = True
    else:
        xors_done = False
    xors = [] if xors_done else [n for n in q.walk_body(ref.node) if (isinstance(n, ast.Assign) and isinstance(n.value, ast.BinOp) and isinstance(n.value.op, ast.BitXor)) or (isinstance(n, ast.AugAssign) and isinstance(n.op, ast.BitXor))]
    if len(xors) != 1 and not xors_done:
        raise AnalysisError("_websocket_mask_python: expected one XOR store statement in a loop, found %d (form not modelled)" % len(xors))
    ck.ob(R, ref, ref.node, len(xors) == 1 or xors_done, "the reference has one XOR store", construct="xor stores: %d" % len(xors))
    for x in xors:
        tgt = x.targets[0] if isinstance(x, ast.Assign) else x.target
        loop = [f for f in q.walk_body(ref.node) if isinstance(f, ast.For) and any(y is x for y in ast.walk(f))]
        iv = loop[0].target.id if loop and isinstance(loop[0].target, ast.Name) else None
        it = loop[0].iter if loop else None
        ok_range = it is not None and q.is_call(it, "range") and len(it.args) == 1 and q.is_call(it.args[0], "len") and q.dotted(it.args[0].args[0]) == dp
        ck.ob(R, ref, x, bool(iv) and ok_range, "the reference visits i = 0 .. len(data)-1")
        if isinstance(x, ast.Assign):
            l, r = x.value.left, x.value.right
        else:  # a[i] ^= e  is  a[i] = a[i] ^ e
            import copy as _copy

            l = _copy.deepcopy(x.target)
            for y in ast.walk(l):
                if hasattr(y, "ctx"):
                    y.ctx = ast.Load()
            r = x.value

        def is_data_i(e):
            return isinstance(e, ast.Subscript) and is_arr_of(e.value, dp) and isinstance(e.slice, ast.Name) and e.slice.id == iv

        def mask_mod(e):
            """4 when the mask index expression equals i % 4 for i = 0..63 (folded: `i % 4`, `i & 3`, ...); another
            period k when it equals i % k; None when the expression is not an index function of i alone"""
            if isinstance(e, ast.Subscript) and is_arr_of(e.value, mp) and not isinstance(e.slice, ast.Slice) and q.names_in(e.slice) == {iv}:
                try:
                    vals = [q.fold(e.slice, {iv: k}) for k in range(64)]
                except q.NotFoldable:
                    return None
                for per in range(1, 17):
                    if vals == [k % per for k in range(64)]:
                        return per
                return -1  # a function of i, but not i mod k
            return None

        md = mask_mod(r) if is_data_i(l) else (mask_mod(l) if is_data_i(r) else None)
        if md is None:
            # positively wrong only when the mask is indexed by something recognisable that is not i % <const>
            plain = [e_ for e_ in (l, r) if isinstance(e_, ast.Subscript) and is_arr_of(e_.value, mp)]
            if not plain or not (is_data_i(l) or is_data_i(r)):
                raise AnalysisError("_websocket_mask_python: XOR operands %s / %s are not data[i] and mask[i %% k]" % (q.unparse(l), q.unparse(r)))
        ck.ob(R, ref, x, md == 4, "the reference computes data[i] ^ mask[i %% 4] (modulus %r)" % (md,))
        ok_t = isinstance(tgt, ast.Subscript) and isinstance(tgt.slice, ast.Name) and tgt.slice.id == iv and is_arr_of(tgt.value, dp)
        ck.ob(R, ref, x, ok_t, "the result byte i is stored at index i of the (copy of the) data array")
        rets = [n for n in q.walk_body(ref.node) if isinstance(n, ast.Return)]
        for r_ in rets:  # a returned explaining local stands for its single definition
            if isinstance(r_.value, ast.Name) and src_of(r_.value.id) is not None and r_.value.id not in ps:
                r_.value = src_of(r_.value.id)
        okr = len(rets) == 1 and isinstance(rets[0].value, ast.Call) and isinstance(rets[0].value.func, ast.Attribute) and rets[0].value.func.attr in ("tobytes",) and isinstance(tgt, ast.Subscript) and q.dotted(rets[0].value.func.value) == q.dotted(tgt.value)
        okr = okr or (len(rets) == 1 and q.is_call(rets[0].value, "bytes") and isinstance(tgt, ast.Subscript) and q.dotted(rets[0].value.args[0]) == q.dotted(tgt.value))
        ck.ob(R, ref, x, okr, "the reference returns the bytes of the array it filled")
    # selection
    R = "C18.selection"
    mod = ck.repo.module(U)
    NAME = "_websocket_mask"
    binds = []

    def visit(body, ctx):
        for st_ in body:
            if isinstance(st_, ast.Assign) and any(isinstance(t, ast.Name) and t.id == NAME for t in st_.targets):
                binds.append(("assign", st_, ctx))
            elif isinstance(st_, ast.ImportFrom) and any((a.asname or a.name) == NAME for a in st_.names):
                binds.append(("import", st_, ctx))
            elif isinstance(st_, (ast.FunctionDef, ast.AsyncFunctionDef, ast.ClassDef)):
                if isinstance(st_, (ast.FunctionDef, ast.AsyncFunctionDef)) and st_.name == NAME:
                    binds.append(("def", st_, ctx))
                continue
            for fld in ("body", "orelse", "finalbody"):
                sub = getattr(st_, fld, None)
                if isinstance(sub, list):
                    visit(sub, ctx + [(st_, fld)])
            for h in getattr(st_, "handlers", []) or []:
                visit(h.body, ctx + [(st_, h)])

    # every binding of every module-level name, so that NAME can be followed through copies (NAME = result_var)
    allb = {}

    def visit_all(body, ctx):
        for st_ in body:
            if isinstance(st_, ast.Assign):
                for t in st_.targets:
                    if isinstance(t, ast.Name):
                        allb.setdefault(t.id, []).append(("assign", st_, ctx))
            elif isinstance(st_, ast.AnnAssign) and isinstance(st_.target, ast.Name) and st_.value is not None:
                allb.setdefault(st_.target.id, []).append(("assign", st_, ctx))
            elif isinstance(st_, ast.ImportFrom):
                for a in st_.names:
                    allb.setdefault(a.asname or a.name, []).append(("import", st_, ctx))
            elif isinstance(st_, (ast.FunctionDef, ast.AsyncFunctionDef)):
                allb.setdefault(st_.name, []).append(("def", st_, ctx))
                continue
            elif isinstance(st_, ast.ClassDef):
                continue
            for fld in ("body", "orelse", "finalbody"):
                sub = getattr(st_, fld, None)
                if isinstance(sub, list):
                    visit_all(sub, ctx + [(st_, fld)])
            for h in getattr(st_, "handlers", []) or []:
                visit_all(h.body, ctx + [(st_, h)])

    visit_all(mod.tree.body, [])
    chain = set()
    terminals = []

    def follow(name):
        if name in chain:
            return
        chain.add(name)
        for kind_, st_, ctx in allb.get(name, []):
            if kind_ == "assign" and isinstance(st_.value, ast.Name) and st_.value.id != ref.name and st_.value.id in allb and not any(k == "def" for k, _s, _c in allb[st_.value.id]):
                follow(st_.value.id)
            elif kind_ == "assign" and isinstance(st_.value, ast.Constant) and st_.value.value is None:
                continue  # placeholder initialisation of a result variable
            else:
                terminals.append((name, kind_, st_, ctx))

    follow(NAME)
    if not terminals:
        raise AnalysisError("util.py: no binding of %s found" % NAME)
    n_imp = 0
    for name, kind_, st_, ctx in terminals:
        if kind_ == "assign":
            ck.ob(R, None, st_, isinstance(st_.value, ast.Name) and st_.value.id == ref.name, "_websocket_mask is bound (directly or through %s) to the reference implementation" % name, construct=q.unparse(st_), file=U)
        elif kind_ == "import":
            n_imp += 1
            al = [a for a in st_.names if (a.asname or a.name) == name][0]
            ck.ob(R, None, st_, st_.module == "tornado.speedups" and st_.level == 0 and al.name in table, "_websocket_mask is imported from tornado.speedups under a name the C method table exports (%r; table %s)" % (al.name, sorted(table)), construct=q.unparse(st_), file=U)
            trys = [(t, f) for t, f in ctx if isinstance(t, ast.Try) and f == "body"]
            okf = False
            for t, _f in trys:
                for h in t.handlers:
                    if q.exc_is_caught("ImportError", q.handler_names(h)):
                        # the handler ends (possibly before a `break` of an inlined selector) by binding the reference to a name of the chain
                        okf = _handler_binds_reference(h, chain, ref.name)
            ck.ob(R, None, st_, okf, "when the extension cannot be imported the reference implementation is used (every path through the ImportError handler that does not re-raise binds it)", construct="fallback for " + q.unparse(st_), file=U)
        else:
            ck.ob(R, None, st_, False, "_websocket_mask is not redefined", construct="def " + NAME, file=U)
    ck.ob(R, None, mod.tree, n_imp >= 1, "the native routine is selected when available", construct="native import present: %d" % n_imp, file=U)
    # the protocol uses this binding
    wmod = ck.repo.module(W)
    imp = [s_ for s_ in wmod.tree.body if isinstance(s_, ast.ImportFrom) and s_.module == "tornado.util" and any(a.name == NAME and a.asname in (None, NAME) for a in s_.names)]
    ck.ob(R, None, wmod.tree, len(imp) >= 1, "websocket.py takes _websocket_mask from tornado.util", construct="websocket.py imports _websocket_mask", file=W)


# ---------------------------------------------------------------------------


def _c_ast(repo):
    pre = getattr(repo, "c_asts", None) or {}
    if CREL in pre:
        return pre[CREL]
    path = os.path.join(repo.root, CREL)
    return C.load(path), path


def run(ck):
    ck.repo = NORM.normalize(ck.repo, W, NORM.KEEP_WS)  # aliases, temporaries, 1-tuple unpacks, single-use private helpers (vt/x_wsnorm.py)
    ck.repo = NORM.normalize(ck.repo, U, NORM.KEEP_WS)
    ck.rule("C18.export", "speedups.c exports websocket_mask (the name util.py imports) bound to the analysed function")
    ck.rule("C18.args", "arguments are (mask, mask_len, data, data_len) from one PyArg_ParseTuple call whose failure returns NULL")
    ck.rule("C18.mask-len", "exactly the mask lengths != 4 are rejected (ValueError, NULL) and the mask buffer is not read before that test")
    ck.rule("C18.alloc", "the result is allocated with the untouched data_len and the output pointer is its buffer")
    ck.rule("C18.stride", "every word loop stores a contiguous block of W bytes, advances data/out by W and decreases data_len by W, W a multiple of 4")
    ck.rule("C18.guard", "every word loop's guard implies that at least W bytes remain")
    ck.rule("C18.lanes", "every stored word equals data[j] ^ mask[j mod 4] lane by lane, for little- and big-endian layouts")
    ck.rule("C18.tail", "the byte tail stores out[i] = data[i] ^ mask[i] for i in [0, data_len), entered with data_len <= 4")
    ck.rule("C18.complete", "the normal path returns the result after the tail was processed")
    ck.rule("C18.reference", "_websocket_mask_python: len(mask) != 4 raises ValueError first; out[i] = data[i] ^ mask[i % 4] for all i; returns those bytes")
    ck.rule("C18.selection", "_websocket_mask is bound only to the native routine (when importable) or to the reference (fallback)")
    tu, path = _c_ast(ck.repo)
    try:
        with open(path, "rb") as f:
            ck.note("speedups.c sha256 %s (%s)" % (hashlib.sha256(f.read()).hexdigest(), path))
    except OSError:
        ck.note("speedups.c analysed from an in-memory mutant (%s)" % path)
    ck.assume("LP64 widths for the lane evaluation: uint32_t 4 bytes, uint64_t/size_t/Py_ssize_t 8 bytes")
    c_rules(ck, tu, CREL)
    py_rules(ck, C.method_table(tu))


# ---------------------------------------------------------------------------
# mutants: the C ones are textual edits of a scratch copy that is parsed by clang
# inside the factory and removed immediately


def _drop_loop4(src):
    i = src.find("while (data_len >= 4)")
    if i < 0:
        return None
    j = src.find("}", i)
    return src[:i] + src[j + 1:]


def _align_guards(src):
    a, b = "if (sizeof(size_t) >= 8)", "while (data_len >= 4)"
    if a not in src or b not in src:
        return None
    return src.replace(a, "if (sizeof(size_t) >= 8 && ((uintptr_t)data & 7) == 0)", 1).replace(b, "while (data_len >= 4 && ((uintptr_t)data & 3) == 0)", 1)


def _c_mutant(old, new, count=1):
    def make(repo):
        src_path = os.path.join(repo.root, CREL)
        try:
            with open(src_path, encoding="utf-8") as f:
                src = f.read()
        except OSError as e:
            raise MutantNotApplicable(str(e))
        if callable(old):
            mutated = old(src)
            if mutated is None:
                raise MutantNotApplicable("edit does not apply to speedups.c")
        else:
            if src.count(old) < count or count < 1:
                raise MutantNotApplicable("pattern %r not in speedups.c" % old)
            idx = -1
            for _ in range(count):
                idx = src.index(old, idx + 1)
            mutated = src[:idx] + new + src[idx + len(old):]
        d = tempfile.mkdtemp(prefix="vt-c18-")
        try:
            p = os.path.join(d, "speedups.c")
            with open(p, "w", encoding="utf-8") as f:
                f.write(mutated)
            try:
                tu = C._reduce(C._load(p))
                C._register_typedefs(tu)
            except AnalysisError as e:
                raise MutantNotApplicable("mutant does not compile: %s" % e)
        finally:
            shutil.rmtree(d, ignore_errors=True)
        r = copy.copy(repo)
        r.c_asts = {CREL: (tu, "<mutant of %s>" % CREL)}
        return r

    return make


def _in(qn, edit, rel=U):
    return lambda repo: mutate(repo, rel, qn, edit)


MUTANTS = [
    ("seeded C18-adv1: empty-payload fast path before the mask length test", _c_mutant("    if (mask_len != 4)", "    if (data_len == 0)\n    {\n        return PyBytes_FromStringAndSize(NULL, 0);\n    }\n\n    if (mask_len != 4)"), "C18.mask-len"),
    ("C: short payloads (< 4 bytes) take a shortcut that skips the mask length test", _c_mutant("    if (mask_len != 4)", "    if (!data_len)\n        return PyBytes_FromStringAndSize(\"\", 0);\n    if (mask_len != 4)"), "C18.mask-len"),
    ("seeded C18-adv4: a 16-bit step after the 32-bit loop, byte tail still indexes mask[i] from 0", _c_mutant("    for (i = 0; i < data_len; i++)", "    if (data_len >= 2)\n    {\n        ((uint16_t *)buf)[0] = ((uint16_t *)data)[0] ^ (uint16_t)uint32_mask;\n        data += 2;\n        buf += 2;\n        data_len -= 2;\n    }\n\n    for (i = 0; i < data_len; i++)"), "C18.tail"),
    ("seeded C18-adv5: word loops only for aligned data, byte tail (mask[i]) then handles payloads of any length", _c_mutant(_align_guards, None), "C18.tail"),
    ("seeded C18-adv6: result created as a copy of the payload (non-NULL source) and XOR-ed in place", _c_mutant("PyBytes_FromStringAndSize(NULL, data_len)", "PyBytes_FromStringAndSize(data, data_len)"), "C18.alloc"),
    ("C: 8-byte loop advances data by 4", _c_mutant("data += 8;", "data += 4;"), "C18.stride"),
    ("C: 8-byte loop runs while data_len > 0", _c_mutant("while (data_len >= 8)", "while (data_len > 0)"), "C18.guard"),
    ("C: 4-byte loop runs while data_len >= 2", _c_mutant("while (data_len >= 4)", "while (data_len >= 2)"), "C18.guard"),
    ("C: mask length test dropped", _c_mutant("if (mask_len != 4)", "if (0)"), "C18.mask-len"),
    ("C: masks longer than 4 accepted", _c_mutant("if (mask_len != 4)", "if (mask_len < 4)"), "C18.mask-len"),
    ("C: tail uses mask[0]", _c_mutant("mask[i]", "mask[0]"), "C18.tail"),
    ("C: tail runs to i <= data_len", _c_mutant("i < data_len", "i <= data_len"), "C18.tail"),
    ("C: 64-bit mask built with << 16", _c_mutant("<< 32", "<< 16"), "C18.lanes"),
    ("C: 64-bit loop xors with the 32-bit mask", _c_mutant("((uint64_t *)data)[0] ^ uint64_mask", "((uint64_t *)data)[0] ^ uint32_mask"), "C18.lanes"),
    ("C: 64-bit mask is the 32-bit mask only in the low half", _c_mutant("uint64_mask = (uint64_mask << 32) | uint32_mask;", "uint64_mask = uint32_mask;"), "C18.lanes"),
    ("C: 4-byte loop removed (tail gets up to 7 bytes)", _c_mutant(_drop_loop4, None), "C18.tail"),
    ("C: result allocated with mask_len", _c_mutant("PyBytes_FromStringAndSize(NULL, data_len)", "PyBytes_FromStringAndSize(NULL, mask_len)"), "C18.alloc"),
    ("C: 32-bit mask loaded from the second word", _c_mutant("((uint32_t *)mask)[0]", "((uint32_t *)mask)[1]"), "C18.lanes"),
    ("C: exported under a different name", _c_mutant('{"websocket_mask", websocket_mask', '{"ws_mask", websocket_mask'), ("C18.export", "C18.selection")),
    ("Python reference uses i % 3", _in("_websocket_mask_python", replace_expr(lambda n: isinstance(n, ast.BinOp) and isinstance(n.op, ast.Mod), lambda n: ast.BinOp(left=n.left, op=ast.Mod(), right=ast.Constant(value=3)))), "C18.reference"),
    ("Python reference accepts longer masks", _in("_websocket_mask_python", replace_expr(lambda n: isinstance(n, ast.Compare) and "len(mask)" in ast.unparse(n), lambda n: ast.Compare(left=n.left, ops=[ast.Lt()], comparators=n.comparators))), "C18.reference"),
    ("Python reference skips the last byte", _in("_websocket_mask_python", replace_expr(lambda n: q.is_call(n, "range"), lambda n: parse_expr("range(len(data) - 1)"))), "C18.reference"),
    ("Python reference: empty-payload fast path before the length test", _in("_websocket_mask_python", lambda root: bool(root.body.insert(1, parse_stmt("if not data:\n    return b''")) or True)), "C18.reference"),
    ("no fallback when the extension is missing", lambda repo: mutate(repo, U, None, lambda root: _drop_fallback(root)), "C18.selection"),
    ("_websocket_mask bound to something else under TORNADO_NO_EXTENSION", lambda repo: mutate(repo, U, None, replace_stmt(lambda st: isinstance(st, ast.Assign) and ast.unparse(st) == "_websocket_mask = _websocket_mask_python", lambda st: [parse_stmt("_websocket_mask = (lambda mask, data: data)")])), "C18.selection"),
]


def _drop_fallback(root):
    for n in ast.walk(root):
        if isinstance(n, ast.Try) and any(isinstance(x, ast.ImportFrom) and x.module == "tornado.speedups" for x in n.body):
            for h in n.handlers:
                h.body = [parse_stmt("raise")]
            return True
    return False
