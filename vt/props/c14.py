"""C14 — WebSocket messages arrive intact and in order under every configuration.

Decided statically (DESIGN.md §4 C14): the frame parser ``_receive_frame`` and the
dispatcher ``_handle_message`` are explored for *every* first header byte
(0..255) / every opcode (0..15) with constant propagation (vt/x_ws.py), so that
all statements about "control frames", "continuation frames", "data frames" are
exhaustive over the 4-bit opcode and the FIN/RSV bits, not sampled.  On top of
that: table agreement between the length encoder and decoder, mask symmetry,
header-bit constants, deflate pairing (tail strip/append, raw deflate, context
takeover side selection, RSV1 iff compressed) and in-order delivery (the future
of an asynchronous on_message is awaited before the next frame is read).

Not decided: end-to-end equality for all messages/configurations (zlib itself,
the IOStream, TCP segmentation) — only the necessary conditions above.
"""
from __future__ import annotations

import ast
import struct

from .. import q
from .. import x_ws as X
from ..cfg import must_facts, explore, canon_fact
from ..model import AnalysisError
from .. import x_wsnorm as NORM
from ..mutate import mutate, remove_stmts, replace_expr, replace_stmt, parse_stmt, parse_expr

TECHNIQUE = "exhaustive header-byte/opcode enumeration with constant propagation over the CFG + encoder/decoder table agreement"
EXPLANATION = (
    "WebSocketProtocol13._receive_frame is explored once per first header byte (256 values) and per length code (128 values), "
    "_handle_message once per opcode x compressed flag; per-message receive state, reassembly provenance, unmasking and inflation "
    "are tracked as abstract values along every CFG path (exception edges included). _write_frame/write_message are explored per "
    "payload-length class and mask direction; the length/mask/opcode/RSV constants of writer and reader are compared as tables."
)
NOT_DECIDED = (
    "end-to-end equality of delivered and sent messages for all lengths/configurations/segmentations (zlib, IOStream and the event loop "
    "are trusted); window-bits negotiation values; behaviour of application callbacks"
)
LEVEL_NOTE = "Decides only the structural clauses listed (necessary conditions; zlib/struct semantics taken from their documentation); NOT decided: " + NOT_DECIDED

W = "tornado/websocket.py"
P13 = "WebSocketProtocol13"
DATA_OPCODES = (1, 2)
BUF_NONE = X.BUF + " is None"
NO_DECOMP = "self._decompressor is None"


# ---------------------------------------------------------------------------
# receive side


def _state_write_nodes(fi):
    """(node, state path) for every statement of fi that assigns / mutates per-message state."""
    out = []
    for n in fi.cfg.stmt_nodes(lambda n: n.kind in ("stmt", "test")):
        hit = set()
        if n.kind == "stmt" and isinstance(n.ast, ast.stmt):
            for p in q.assigned_paths(n.ast):
                p = p[:-2] if p.endswith("[]") else p
                if p in X.MSG_STATE:
                    hit.add(p)
        for x in q.walk_local(n.ast):
            if isinstance(x, ast.Call) and isinstance(x.func, ast.Attribute) and q.dotted(x.func.value) in X.MSG_STATE and x.func.attr not in ("copy", "decode", "count", "index"):
                hit.add(q.dotted(x.func.value))
        for p in sorted(hit):
            out.append((n, p))
    return out


def rule_ctl_state(ck, fi, consts):
    writes = _state_write_nodes(fi)
    for p in X.MSG_STATE:
        ck.floor("C14.ctl-no-msg-state", sum(1 for _n, pp in writes if pp == p), 1, "writes of %s in _receive_frame" % p)
    bad_ctl = {}
    bad_cont = {}
    for h in range(256):
        seen = X.run_frame(fi, consts, h=h)
        op = h & 0x0F
        for n, p in writes:
            if not X.reached(seen, n):
                continue
            if op & 0x8:
                bad_ctl.setdefault((n.id, p), []).append(h)
            if op == 0 and p == X.FC:
                bad_cont.setdefault((n.id, p), []).append(h)
    for n, p in writes:
        hs = bad_ctl.get((n.id, p), [])
        ck.ob("C14.ctl-no-msg-state", fi, n.ast, not hs,
              "no control frame (opcode 8..15, any FIN/RSV bits: 128 header bytes enumerated) reaches this write of %s%s" % (p, (" - reached for header bytes " + ",".join("0x%02X" % h for h in hs[:4]) + ("…" if len(hs) > 4 else "")) if hs else ""))
        if p == X.FC:
            hs = bad_cont.get((n.id, p), [])
            ck.ob("C14.ctl-no-msg-state", fi, n.ast, not hs,
                  "no continuation frame (opcode 0) reaches this write of %s (the flag belongs to the first frame of the message)" % p,
                  construct="continuation: " + q.normalize_construct(n.ast, q.local_names(fi.node)))
    return len(writes)


def rule_rsv1_flag(ck, fi, consts):
    """With a decompressor negotiated, a data frame's RSV1 bit is what _frame_compressed holds when the frame is consumed."""
    hcalls = X.handle_calls(fi)
    ck.floor("C14.rsv1-flag", len(hcalls), 1, "_handle_message call sites")
    stores = [n for n, p in _state_write_nodes(fi) if p == X.BUF]
    n_ob = 0
    for op in DATA_OPCODES:
        for fin in (0, 0x80):
            for rsv1 in (0, 0x40):
                h = fin | rsv1 | op
                seen = X.run_frame(fi, consts, h=h, assume={NO_DECOMP: False, BUF_NONE: True})
                vals = set()
                for n, _c in hcalls:
                    vals |= {u.fc for _e, u in X.frame_states(seen, n)}
                for _e, u in X.frame_states(seen, fi.cfg.exit):
                    if not u.aborted and u.buf == "new":
                        vals.add(u.fc)
                ck.ob("C14.rsv1-flag", fi, fi.node, bool(vals) and vals == {bool(rsv1)},
                      "header byte 0x%02X (data opcode %d, decompressor present): _frame_compressed is %s (the RSV1 bit) whenever the frame is consumed; observed %s" % (h, op, bool(rsv1), sorted(map(repr, vals))),
                      construct="data frame fin=%d rsv1=%d: flag=%s" % (bool(fin), bool(rsv1), sorted(map(repr, vals))))
                n_ob += 1
    return n_ob


def rule_reassembly(ck, fi, consts):
    hcalls = X.handle_calls(fi)
    R = "C14.reassembly"

    def views(seen):
        out = []
        for n, c in hcalls:
            for env, u in X.frame_states(seen, n):
                a_, b_ = X.handle_args(c, env, u)
                out.append((a_, b_, u))
        return out

    kind, ev = X.field_kind(ck.repo, W, P13, X.BUF)
    if kind not in ("bytes", "chunks"):
        raise AnalysisError("_fragmented_message_buffer: representation cannot be resolved (%s)" % kind)
    big = {"self.params.max_message_size": 10 ** 9}

    def no_unknown(seen):
        for sts in seen.values():
            for _f, (_e, _a, u) in sts:
                if u.buf == "unknown":
                    raise AnalysisError("_receive_frame: the reassembly buffer is modified by an operation the analysis does not model")

    # a message in progress whose fragments so far are empty is still "in progress": tests on the buffer must be `is None` tests
    for nbytes in (0, 10):
        cs = dict(consts, **big)
        cs[X.BUF] = X.buffer_model(kind, nbytes)
        for h, label in ((0x80, "final"), (0x00, "non-final")):
            seen = X.run_frame(fi, cs, h=h, m=5)
            no_unknown(seen)
            exits = [u for _e, u in X.frame_states(seen, fi.cfg.exit)]
            bad = [u for u in exits if u.aborted]
            ck.ob(R, fi, fi.node, bool(exits) and not bad, "%s continuation frame while a message with %d buffered byte(s) is in progress is accepted on every path (an empty first fragment is legal)" % (label, nbytes),
                  construct="continuation %s with %d buffered bytes: aborted=%s" % (label, nbytes, bool(bad) or not exits))
    cs = dict(consts, **big)
    cs[X.BUF] = None
    for h in (0x81, 0x82, 0x01, 0x02, 0x89, 0x8A):
        seen = X.run_frame(fi, cs, h=h, m=0)
        no_unknown(seen)
        exits = [u for _e, u in X.frame_states(seen, fi.cfg.exit)]
        bad = [u for u in exits if u.aborted]
        ck.ob(R, fi, fi.node, bool(exits) and not bad, "frame 0x%02X with an empty payload and no message in progress is accepted on every path" % h, construct="empty payload 0x%02X: aborted=%s" % (h, bool(bad) or not exits))
    # S1: final continuation of a fragmented message
    seen = X.run_frame(fi, consts, h=0x80, assume={BUF_NONE: False})
    vs = views(seen)
    ck.ob(R, fi, fi.node, bool(vs), "final continuation frame (0x80) with a message in progress reaches _handle_message", construct="S1 dispatch reached=%s" % bool(vs))
    for a, b, u in vs:
        ck.ob(R, fi, fi.node, a == "saved-opcode", "final continuation: dispatched opcode is the saved opcode of the first fragment (got %r)" % (a,), construct="S1 opcode=%r" % (a,))
        ck.ob(R, fi, fi.node, b == "assembled", "final continuation: dispatched data is the reassembly buffer *after* this frame's payload was appended (got %r)" % (b,), construct="S1 data=%r" % (b,))
        ck.ob(R, fi, fi.node, u.buf == "cleared", "final continuation: reassembly buffer reset to None before dispatch (state %s)" % u.buf, construct="S1 buffer=%s" % u.buf)
    # S2: non-final continuation
    seen = X.run_frame(fi, consts, h=0x00, assume={BUF_NONE: False})
    ex = [u for _e, u in X.frame_states(seen, fi.cfg.exit) if not u.aborted]
    ck.ob(R, fi, fi.node, bool(ex), "non-final continuation (0x00) with a message in progress is accepted on some path", construct="S2 accepted=%s" % bool(ex))
    for u in ex:
        ck.ob(R, fi, fi.node, u.buf == "extended" and u.handled == 0, "non-final continuation: payload appended to the buffer, nothing dispatched (buffer %s, dispatched %d)" % (u.buf, u.handled), construct="S2 buffer=%s handled=%d" % (u.buf, u.handled))
    # S3 / S4: unfragmented message, first fragment
    for op in DATA_OPCODES:
        seen = X.run_frame(fi, consts, h=0x80 | op, assume={BUF_NONE: True})
        vs = views(seen)
        ck.ob(R, fi, fi.node, bool(vs), "unfragmented data frame (0x%02X) reaches _handle_message" % (0x80 | op), construct="S3 op=%d reached=%s" % (op, bool(vs)))
        for a, b, u in vs:
            ck.ob(R, fi, fi.node, a == op and X.is_payloadish(b) and u.buf == "untouched", "unfragmented data frame: dispatched with its own opcode and payload, buffer untouched (got %r, %r, %s)" % (a, b, u.buf), construct="S3 op=%d opcode=%r data=%r buffer=%s" % (op, a, b, u.buf))
        seen = X.run_frame(fi, consts, h=op, assume={BUF_NONE: True})
        ex = [u for _e, u in X.frame_states(seen, fi.cfg.exit) if not u.aborted]
        ck.ob(R, fi, fi.node, bool(ex), "first fragment (0x%02X) is accepted on some path" % op, construct="S4 op=%d accepted=%s" % (op, bool(ex)))
        for u in ex:
            ck.ob(R, fi, fi.node, u.buf == "new" and u.sop == op and u.handled == 0, "first fragment: buffer started from the payload, opcode %d saved, nothing dispatched (buffer %s, saved %r, dispatched %d)" % (op, u.buf, u.sop, u.handled), construct="S4 op=%d buffer=%s saved=%r handled=%d" % (op, u.buf, u.sop, u.handled))
    # control frame between fragments: dispatched with own payload, state untouched
    for op in (8, 9, 10):
        seen = X.run_frame(fi, consts, h=0x80 | op, assume={BUF_NONE: False})
        for a, b, u in views(seen):
            ck.ob(R, fi, fi.node, a == op and X.is_payloadish(b) and u.buf == "untouched" and u.sop is None, "control frame 0x%X between fragments: dispatched with own opcode/payload, reassembly state untouched (got %r, %r, %s)" % (op, a, b, u.buf), construct="S5 op=%d opcode=%r data=%r buffer=%s" % (op, a, b, u.buf))


def rule_len_reader(ck, fi, consts):
    """Reader length table for every 7-bit length code (data frame, unmasked)."""
    R = "C14.len-table"
    table = {}
    for m in range(128):
        seen = X.run_frame(fi, consts, h=0x82, m=m, assume={BUF_NONE: True})
        pl = set()
        for n, _c in X.handle_calls(fi):
            pl |= {X.plen(u) for _e, u in X.frame_states(seen, n)}
        table[m] = pl
    direct = {m for m, pl in table.items() if pl == {m}}
    ck.ob(R, fi, fi.node, direct == set(range(126)), "reader: length codes 0..125 are the payload length itself (direct set %s)" % _rng(direct), construct="reader direct=%s" % _rng(direct))
    ext = {}
    for m in (126, 127):
        pl = table[m]
        if "?" in pl:
            raise AnalysisError("_receive_frame: the payload length for length code %d comes from an expression the analysis does not model (expected struct.unpack(fmt, <bytes read>)[0])" % m)
        ok = len(pl) == 1 and isinstance(next(iter(pl)), tuple) and next(iter(pl))[0] == "extlen"
        fmt = next(iter(pl))[1] if ok else None
        src = next(iter(pl))[2] if ok else None
        want = {126: "H", 127: "Q"}[m]
        good = ok and isinstance(fmt, str) and fmt[:1] in ("!", ">") and fmt[1:] == want and src == ("read", struct.calcsize(fmt))
        ck.ob(R, fi, fi.node, bool(good), "reader: length code %d reads %d more bytes and decodes them big-endian as '%s' (got %r)" % (m, struct.calcsize("!" + want), want, sorted(map(repr, pl))), construct="reader code=%d -> %s" % (m, sorted(map(repr, pl))))
        if good:
            ext[m] = fmt
    return direct, ext


def _rng(s):
    s = sorted(s)
    if not s:
        return "{}"
    if s == list(range(s[0], s[-1] + 1)):
        return "%d..%d" % (s[0], s[-1])
    return repr(s)


def rule_mask_reader(ck, fi, consts):
    R = "C14.mask"
    for mbit in (0, 0x80):
        for h in (0x82, 0x80, 0x89):
            asm = {BUF_NONE: h != 0x80}
            seen = X.run_frame(fi, consts, h=h, m=mbit | 5, assume=asm)
            tags = set()
            for n, c in X.handle_calls(fi):
                for env, u in X.frame_states(seen, n):
                    b = X.handle_args(c, env, u)[1]
                    if b == "assembled":
                        continue
                    tags.add(b)
            ex = [u for _e, u in X.frame_states(seen, fi.cfg.exit) if not u.aborted]
            if h == 0x80:
                # continuation: what is appended must be the (un)masked payload: buf == extended only accepts payloadish; need exact tag
                tags |= _extend_tags(fi, seen)
            want = "unmasked" if mbit else ("read", 5)
            ck.ob(R, fi, fi.node, tags == {want}, "reader: header 0x%02X with mask bit %d: the payload consumed is %s (got %s)" % (h, bool(mbit), "XOR-ed with the 4-byte key read from this frame" if mbit else "taken as is", sorted(map(repr, tags))), construct="reader h=0x%02X maskbit=%d payload=%s" % (h, bool(mbit), sorted(map(repr, tags))))


def rule_header_reads(ck, fi, consts):
    """Which fixed-size reads follow the two header bytes: extended length (2 or 8) and the 4-byte key iff the mask bit is set,
    also for empty payloads (the key is on the wire regardless of the payload length)."""
    R = "C14.mask"
    for mbit in (0, 0x80):
        for code in (0, 1, 125, 126, 127):
            seen = X.run_frame(fi, dict(consts, **{"self.params.max_message_size": 10 ** 9, X.BUF: None}), h=0x82, m=mbit | code)
            exits = [u for _e, u in X.frame_states(seen, fi.cfg.exit) if not u.aborted]
            want = (2,) + ((2,) if code == 126 else ()) + ((8,) if code == 127 else ()) + ((4,) if mbit else ())
            got = sorted({u.reads[:-1] for u in exits if u.reads}, key=repr)
            shape = all(len(u.reads) == len(want) + 1 for u in exits)
            ck.ob(R, fi, fi.node, bool(exits) and shape and got == [want], "second header byte 0x%02X: the reads before the payload read are %s (2 header bytes, extended length, 4-byte key iff masked - also when the payload is empty), followed by exactly one payload read; got %s" % (mbit | code, list(want), sorted({u.reads for u in exits}, key=repr)),
                  construct="fixed reads m=0x%02X -> %s" % (mbit | code, got))


def _extend_tags(fi, seen):
    out = set()
    for n in fi.cfg.stmt_nodes(lambda n: n.kind == "stmt"):
        for x in q.walk_local(n.ast):
            if isinstance(x, ast.Call) and isinstance(x.func, ast.Attribute) and q.dotted(x.func.value) == X.BUF and x.args:
                for env, u in X.frame_states(seen, n):
                    out.add(X.arg_view(x.args[0], env, u))
    return out


def rule_ordered(ck, fi, hm):
    """The future returned by _handle_message is awaited before _receive_frame returns."""
    R = "C14.ordered"
    cfg = fi.cfg
    calls = X.handle_calls(fi)
    for n, c in calls:
        pm = q.parent_map(n.ast)
        par = pm.get(c)
        if isinstance(par, ast.Await):
            ck.ob(R, fi, c, True, "result of _handle_message awaited directly")
            continue
        if not (isinstance(n.ast, ast.Assign) and n.ast.value is c and len(n.ast.targets) == 1 and isinstance(n.ast.targets[0], ast.Name)):
            ck.ob(R, fi, c, False, "result of _handle_message (the on_message future) is kept and awaited before the next frame is read")
            continue
        name = n.ast.targets[0].id
        start = n.id

        def transfer(node, val, name=name, start=start):
            if node.id == start:
                return True
            if val and node.kind in ("stmt", "test") and any(isinstance(x, ast.Await) and q.dotted(x.value) == name for x in q.walk_local(node.ast)):
                return False
            return val

        def edge(node, kind, val, name=name):
            if val and node.kind == "test" and kind in ("true", "false"):
                t, pol = canon_fact(node.ast, kind == "true")
                if t == "%s is None" % name and pol:
                    return False
            return val

        seen = explore(cfg, False, transfer, lambda t: False, edge_transfer=edge, follow_exc=False)
        pend = any(v for _f, v in seen.get(cfg.exit.id, ()))
        ck.ob(R, fi, c, not pend, "on every normal path the future returned by _handle_message is awaited unless it is None")
    # the dispatcher hands the callback's future back for data messages: on every path that called the on_message
    # callback, the value returned by _handle_message is that call's result (directly, or through result locals)
    consts_ = X.class_consts(ck.repo, W, P13)
    ps = [p for p in hm.params() if p != "self"]
    is_cb = lambda x: q.is_call(x, "self._run_callback") and x.args and q.dotted(x.args[0]) == "self.handler.on_message"
    n_ret = len(hm.cfg.find(is_cb))
    ck.floor(R, n_ret, 2, "on_message dispatch sites")

    def ut(n, u, env):
        called, holders, returned = u
        if n.kind != "stmt" or not isinstance(n.ast, ast.stmt):
            return u
        st_ = n.ast
        cbs = [x for x in X.node_calls_all(n) if is_cb(x)]
        if isinstance(st_, ast.Return):
            v = st_.value
            if cbs and v is cbs[0]:
                return (True, holders, "future")
            if isinstance(v, ast.Name) and v.id in holders:
                return (called, holders, "future")
            return (called or bool(cbs), holders, "other")
        if isinstance(st_, (ast.Assign, ast.AnnAssign)) and getattr(st_, "value", None) is not None:
            tg = [t.id for t in (st_.targets if isinstance(st_, ast.Assign) else [st_.target]) if isinstance(t, ast.Name)]
            if cbs and st_.value is cbs[0]:
                return (True, tuple(sorted(set(holders) | set(tg))), returned)
            if isinstance(st_.value, ast.Name) and st_.value.id in holders:
                return (called, tuple(sorted(set(holders) | set(tg))), returned)
            return (called or bool(cbs), tuple(h_ for h_ in holders if h_ not in tg), returned)
        return (called or bool(cbs), holders, returned)

    for v_ in DATA_OPCODES:
        seen = X.explore_consts(hm.cfg, consts_, init_env={ps[0]: v_}, assume={"self.client_terminated": False, X.FC: False}, uinit=(False, (), None), utransfer=ut, follow_exc=False)
        finals = [u for _e, u in X.states_at(seen, hm.cfg.exit) if u[0]]
        ck.ob(R, hm, hm.node, bool(finals) and all(u[2] == "future" for u in finals), "opcode %d: on every path that invoked on_message, _handle_message returns that call's future to _receive_frame (so that the next frame waits for it)" % v_,
              construct="on_message future returned op=%d: %s" % (v_, sorted({repr(u[2]) for u in finals})))
    return len(calls)


# ---------------------------------------------------------------------------
# dispatcher


def rule_dispatch(ck, hm, consts):
    n_inflate = len(hm.cfg.find(lambda x: isinstance(x, ast.Call) and isinstance(x.func, ast.Attribute) and x.func.attr == "decompress"))
    ck.floor("C14.inflate", n_inflate, 1, "decompress call sites in _handle_message")
    inflate_nodes = [n for n, _x in hm.cfg.find(lambda x: isinstance(x, ast.Call) and isinstance(x.func, ast.Attribute) and x.func.attr == "decompress")]
    bad_ctl = {}
    for v in range(16):
        for comp in (True, False):
            seen = X.run_message(hm, consts, v, assume={X.FC: comp, "self.client_terminated": False})
            if v & 0x8:
                for n in inflate_nodes:
                    if X.reached(seen, n):
                        bad_ctl.setdefault(n.id, []).append(v)
            if v in DATA_OPCODES:
                dl = []
                for _e, u in X.states_at(seen, hm.cfg.exit):
                    for cb, args in u.delivered:
                        if cb == "self.handler.on_message":
                            dl.append((u.inflated, args))
                ck.ob("C14.inflate", hm, hm.node, bool(dl), "opcode %d, compressed=%s: the message is delivered on some path" % (v, comp), construct="deliver op=%d comp=%s reached=%s" % (v, comp, bool(dl)))
                want = ("text",) if v == 1 else ("data",)
                for infl, args in dl:
                    ck.ob("C14.inflate", hm, hm.node, infl == comp, "opcode %d: payload inflated before delivery iff the message is compressed (compressed=%s, inflated=%s)" % (v, comp, infl), construct="deliver op=%d comp=%s inflated=%s" % (v, comp, infl))
                    ck.ob("C14.codec", hm, hm.node, args == want, "opcode %d delivers %s (got %r)" % (v, "the strict UTF-8 decoding of the (inflated) payload" if v == 1 else "the (inflated) payload bytes", args), construct="deliver op=%d arg=%r" % (v, args))
    for n in inflate_nodes:
        vs = sorted(set(bad_ctl.get(n.id, [])))
        ck.ob("C14.ctl-no-inflate", hm, n.ast, not vs, "no control opcode (8..15) reaches the inflation of the payload, whatever the per-message compressed flag holds%s" % ((" - reached for opcodes " + ",".join("0x%X" % v for v in vs)) if vs else ""))


# ---------------------------------------------------------------------------
# send side


def _len_var(fi):
    ps = fi.params()
    cands = []
    for n in q.walk_body(fi.node):
        if isinstance(n, ast.Assign) and len(n.targets) == 1 and isinstance(n.targets[0], ast.Name) and q.is_call(n.value, "len") and len(n.value.args) == 1 and isinstance(n.value.args[0], ast.Name) and n.value.args[0].id in ps:
            cands.append((n, n.targets[0].id, n.value.args[0].id))
    if len(cands) != 1:
        raise AnalysisError("_write_frame: expected exactly one `L = len(<payload parameter>)` (found %d)" % len(cands))
    return cands[0]


WriteState = X.namedtuple("WriteState", "tags parts hdr")


def _write_transfer(payload: str, frame_var: str):
    """Every bytes-valued local is tracked as the *sequence of parts* it is made of: "hdr" (a struct.pack result),
    ("key", n) (os.urandom(n)), ("masked", key name, n), "payload"; `a + b`, `x += b`, `[a, b]` / `(a, b)`,
    `l.append(b)` / `l.extend([..])` and `b"".join(l)` all concatenate.  ``parts`` of the state is the sequence
    bound to the frame variable; None = not tracked."""

    def seq_of(e, u):
        if q.is_call(e, "os.urandom") and len(e.args) == 1 and isinstance(e.args[0], ast.Constant):
            return (("key", e.args[0].value, None),)
        if q.is_call(e, "_websocket_mask") and len(e.args) == 2:
            k = X._tag_get(u.tags, q.dotted(e.args[0]) or "?")
            d = X._tag_get(u.tags, q.dotted(e.args[1]) or "?")
            if isinstance(k, tuple) and len(k) == 1 and k[0][0] == "key" and d == ("payload",):
                return (("masked", q.dotted(e.args[0]), k[0][1]),)
            return (("badmask",),)
        if q.is_call(e, "struct.pack"):
            return ("hdr",)
        if isinstance(e, ast.Constant) and isinstance(e.value, bytes) and e.value == b"":
            return ()
        if isinstance(e, ast.BinOp) and isinstance(e.op, ast.Add):
            l, r = seq_of(e.left, u), seq_of(e.right, u)
            return None if l is None or r is None else l + r
        if isinstance(e, (ast.List, ast.Tuple)):
            out = ()
            for x in e.elts:
                sx = seq_of(x, u)
                if sx is None:
                    return None
                out += sx
            return out
        if isinstance(e, ast.Call) and isinstance(e.func, ast.Attribute) and e.func.attr == "join" and isinstance(e.func.value, ast.Constant) and e.func.value.value == b"" and len(e.args) == 1:
            return seq_of(e.args[0], u)
        if isinstance(e, ast.Call) and q.call_name(e) in ("bytes", "bytearray", "list", "tuple") and len(e.args) == 1:
            return seq_of(e.args[0], u)
        d = q.dotted(e) if isinstance(e, (ast.Name, ast.Attribute)) else None
        if d is not None:
            t = X._tag_get(u.tags, d)
            if isinstance(t, tuple):
                # a key variable used as a part remembers its name (so that key and mask call can be tied together)
                return tuple(("key", x[1], d) if (isinstance(x, tuple) and x[0] == "key" and x[2] is None) else x for x in t)
            return None
        return None

    def bind(u, name, seq):
        if name == frame_var:
            u = u._replace(parts=seq)
        return u._replace(tags=X._tag_set(u.tags, name, seq))

    def utransfer(n, u, env):
        if n.kind != "stmt" or not isinstance(n.ast, ast.stmt):
            return u
        st = n.ast
        for c in X.calls_in_node(n, "struct.pack"):
            if c.args and isinstance(c.args[0], ast.Constant):
                vals = tuple(X.fold_in(a, env, "?") for a in c.args[1:])
                u = u._replace(hdr=u.hdr + ((c.args[0].value, vals),))
        if isinstance(st, ast.Expr) and isinstance(st.value, ast.Call) and isinstance(st.value.func, ast.Attribute) and st.value.func.attr in ("append", "extend") and len(st.value.args) == 1:
            tgt = q.dotted(st.value.func.value)
            cur = X._tag_get(u.tags, tgt or "?")
            add = seq_of(st.value.args[0], u)
            if tgt is not None and X._tag_get(u.tags, tgt) is not None or tgt == frame_var:
                return bind(u, tgt, None if (cur is None or add is None) else cur + add)
            return u
        if isinstance(st, ast.AugAssign):
            tgt = q.dotted(st.target)
            if tgt is None:
                return u
            cur = X._tag_get(u.tags, tgt)
            add = seq_of(st.value, u) if isinstance(st.op, ast.Add) else None
            if cur is not None or tgt == frame_var:
                return bind(u, tgt, None if (cur is None or add is None) else cur + add)
            return u
        if isinstance(st, (ast.Assign, ast.AnnAssign)) and st.value is not None:
            seq = seq_of(st.value, u)
            for tg in X._targets(st):
                u = bind(u, tg, seq)
        else:
            for p in q.assigned_paths(st):
                u = bind(u, p[:-2] if p.endswith("[]") else p, None)
        return u

    return utransfer


def _body_ok(parts, masked: bool):
    """(ok, recognised): the frame is header packs followed by the payload (unmasked) or by a fresh 4-byte key and the
    payload XOR-ed with that same key (masked)."""
    if parts is None:
        return False, False
    pre = [p for p in parts if p == "hdr"]
    rest = [p for p in parts if p != "hdr"]
    if list(parts[: len(pre)]) != pre:
        return False, True  # header packs are not a prefix
    if not masked:
        return rest == ["payload"], True
    if len(rest) == 2 and isinstance(rest[0], tuple) and rest[0][0] == "key" and isinstance(rest[1], tuple) and rest[1][0] == "masked":
        return rest[0][1] == 4 and rest[1][2] == 4 and rest[0][2] == rest[1][1], True
    return False, True


def rule_writer(ck, wf, consts, direct, ext):
    """_write_frame for every length class x mask direction x (fin, opcode) sample."""
    RT, RM, RN, RH = "C14.len-table", "C14.mask", "C14.len-minimal", "C14.header-bits"
    ps = wf.params()
    if len(ps) < 4:
        raise AnalysisError("_write_frame: expected (self, fin, opcode, data, flags)")
    fin_p, op_p, data_p = ps[1], ps[2], ps[3]
    flags_p = ps[4] if len(ps) > 4 else None
    lnode, L, src = _len_var(wf)
    if src != data_p:
        raise AnalysisError("_write_frame: the length variable is not len(%s)" % data_p)
    writes = wf.cfg.find(lambda x: q.is_call(x, "self.stream.write"))
    ck.floor(RT, len(writes), 1, "self.stream.write call sites in _write_frame")
    frame_var = q.dotted(writes[0][1].args[0]) if writes[0][1].args else None
    if not frame_var:
        raise AnalysisError("_write_frame: cannot identify the frame buffer written to the stream")
    # boundary lengths: every integer constant compared with L, +-1, plus the RFC boundaries
    bounds = {0, 1, 125, 126, 127, 0xFFFF, 0x10000, 0x10001, 2 ** 32, 2 ** 63}
    for n in q.walk_body(wf.node):
        if isinstance(n, ast.Compare) and L in q.names_in(n):
            for k in q.literal_ints(n):
                bounds |= {k - 1, k, k + 1}
    bounds = sorted(b for b in bounds if 0 <= b < 2 ** 64)
    lid = lnode and [n for n in wf.cfg.stmt_nodes(lambda n: n.kind == "stmt" and n.ast is lnode)]
    if not lid:
        raise AnalysisError("_write_frame: length assignment not in the CFG")
    lid = lid[0].id
    n_cases = 0
    for mask_out in (False, True):
        for v in bounds:
            seeds = lambda n, v=v: {L: v} if n.id == lid else None
            init_env = {fin_p: True, op_p: 2}
            if flags_p:
                init_env[flags_p] = 0
            seen = X.explore_consts(wf.cfg, consts, seeds=seeds, init_env=init_env, assume={"self.mask_outgoing": mask_out},
                                    uinit=WriteState(((data_p, ("payload",)),), None, ()), utransfer=_write_transfer(data_p, frame_var))
            sts = []
            for n, _c in writes:
                sts += [u for _e, u in X.states_at(seen, n)]
            ck.ob(RT, wf, wf.node, len(sts) >= 1, "payload length %d, mask_outgoing=%s: the frame is written" % (v, mask_out), construct="write reached len=%d mask=%s: %s" % (v, mask_out, bool(sts)))
            wid = {n.id for n, _c in writes}
            cnt = explore(wf.cfg, 0, lambda n, val: min(val + (1 if n.id in wid else 0), 2), lambda t: False, follow_exc=False)
            cs_ = {val for _f, val in cnt.get(wf.cfg.exit.id, ())}
            ck.ob(RT, wf, wf.node, cs_ <= {1} and bool(cs_), "every normal path of _write_frame hands the frame to the stream exactly once (counts %s)" % sorted(cs_), construct="stream.write per path: %s" % sorted(cs_))
            for u in sts:
                n_cases += 1
                # header packs: first is the flags/opcode byte, second the length
                lens = [hp for hp in u.hdr[1:]]
                ok_one = len(u.hdr) == 2
                ck.ob(RT, wf, wf.node, ok_one, "payload length %d: exactly one flags byte and one length field are packed (got %d packs)" % (v, len(u.hdr)), construct="packs len=%d n=%d" % (v, len(u.hdr)))
                if not ok_one:
                    continue
                fmt0, vals0 = u.hdr[0]
                ck.ob(RH, wf, wf.node, fmt0 == "B" and vals0 == (0x80 | 2,), "fin=True, opcode=2, flags=0 packs first byte 0x82 as 'B' (got %r %r)" % (fmt0, vals0), construct="first byte fmt=%r vals=%r" % (fmt0, vals0))
                fmt, vals = u.hdr[1]
                order = fmt[:1] if fmt[:1] in "!<>=@" else ""
                codes = fmt[len(order):]
                if any(x == "?" for x in vals) or len(vals) != len(codes):
                    raise AnalysisError("_write_frame: length pack %r %r does not fold for length %d" % (fmt, vals, v))
                b1 = vals[0]
                ck.ob(RM, wf, wf.node, (b1 & 0x80) == (0x80 if mask_out else 0), "payload length %d: mask bit 0x80 of the second header byte is set iff mask_outgoing (mask_outgoing=%s, byte 0x%02X)" % (v, mask_out, b1), construct="maskbit len=%d mask=%s bit=%d" % (v, mask_out, bool(b1 & 0x80)))
                code7 = b1 & 0x7F
                if codes == "B":
                    ok = code7 == v and v in direct
                    ck.ob(RT, wf, wf.node, ok, "payload length %d is written as a bare 7-bit length only if the reader takes that code as a length (code %d, reader direct set %s)" % (v, code7, _rng(direct)), construct="writer len=%d direct code=%d" % (v, code7))
                else:
                    rf = ext.get(code7)
                    fits = len(codes) == 2 and codes[0] == "B" and codes[1] in "HQIL" and vals[1] == v and v < 2 ** (8 * struct.calcsize("!" + codes[1]))
                    agree = rf is not None and order in ("!", ">") and rf[1:] == codes[1:]
                    ck.ob(RT, wf, wf.node, bool(fits and agree), "payload length %d: extended length written as %r with marker %d fits and is decoded by the reader as %r" % (v, fmt, code7, rf), construct="writer len=%d fmt=%r marker=%d reader=%r" % (v, fmt, code7, rf))
                    minimal = (v > 125) if codes[1:] == "H" else (v > 0xFFFF)
                    ck.ob(RN, wf, wf.node, minimal, "payload length %d uses the minimal length encoding (RFC 6455 5.2; written as %r)" % (v, fmt), construct="minimal len=%d fmt=%r" % (v, fmt))
                # body
                okb, recognised = _body_ok(u.parts, mask_out)
                if not recognised:
                    raise AnalysisError("_write_frame: how the frame buffer written to the stream is assembled is not modelled (expected concatenation / join of struct.pack results, key and payload)")
                if mask_out:
                    ck.ob(RM, wf, wf.node, okb, "mask_outgoing: the frame is the header packs, a fresh 4-byte os.urandom key and the payload XOR-ed with that same key (parts %r)" % (u.parts,), construct="body mask=True parts=%r" % (u.parts,))
                else:
                    ck.ob(RM, wf, wf.node, okb, "not mask_outgoing: the frame is the header packs followed by the payload unchanged, no key (parts %r)" % (u.parts,), construct="body mask=False parts=%r" % (u.parts,))
    # first byte: fin/opcode/flags combination for all opcodes
    for fin in (True, False):
        for op in (0, 1, 2, 8, 9, 10):
            for fl in (0, consts.get("self.RSV1", 0x40)):
                if op & 8 and not fin:
                    continue
                seeds = lambda n: {L: 3} if n.id == lid else None
                env = {fin_p: fin, op_p: op}
                if flags_p:
                    env[flags_p] = fl
                seen = X.explore_consts(wf.cfg, consts, seeds=seeds, init_env=env, assume={"self.mask_outgoing": False},
                                        uinit=WriteState(((data_p, ("payload",)),), None, ()), utransfer=_write_transfer(data_p, frame_var))
                for n, _c in writes:
                    for _e, u in X.states_at(seen, n):
                        want = (0x80 if fin else 0) | op | fl
                        got = u.hdr[0] if u.hdr else None
                        ck.ob(RH, wf, wf.node, got == ("B", (want,)), "fin=%s opcode=%d flags=0x%02X: first header byte is 0x%02X (got %r)" % (fin, op, fl, want, got), construct="first byte fin=%s op=%d flags=%d -> %r" % (fin, op, fl, got))
    return n_cases


def rule_header_bits(ck, consts):
    R = "C14.header-bits"
    cls = ck.repo.cls(W, P13)
    want = {"FIN": 0x80, "RSV1": 0x40, "RSV2": 0x20, "RSV3": 0x10, "RSV_MASK": 0x70, "OPCODE_MASK": 0x0F}
    for k, v in want.items():
        got = consts.get("self." + k)
        ck.ob(R, None, cls, got == v, "%s.%s == 0x%02X (RFC 6455 5.2 bit layout; got %r)" % (P13, k, v, got), construct="%s=%r" % (k, got), file=W)


def rule_write_message(ck, wm, consts):
    """write_message: opcode 1/2 by `binary`; RSV1 iff the payload went through the compressor; final frame."""
    R = "C14.deflate-pairing"
    ps = wm.params()
    bin_p = ps[2] if len(ps) > 2 else None
    if bin_p is None:
        raise AnalysisError("write_message: no binary parameter")
    calls = wm.cfg.find(lambda x: q.is_call(x, "self._write_frame"))
    ck.floor(R, len(calls), 1, "_write_frame call sites in write_message")

    def utransfer(n, u, env):
        comp, tags = u
        if any(isinstance(x, ast.Call) and isinstance(x.func, ast.Attribute) and x.func.attr == "compress" and (q.dotted(x.func.value) or "").startswith("self._compressor") for x in X.node_calls_all(n)):
            comp = True  # the (possibly context-takeover) compressor has consumed the message
        if n.kind == "stmt" and isinstance(n.ast, (ast.Assign, ast.AnnAssign)) and n.ast.value is not None:
            v = n.ast.value
            t = None
            if isinstance(v, ast.Call) and isinstance(v.func, ast.Attribute) and v.func.attr == "compress" and (q.dotted(v.func.value) or "").startswith("self._compressor") and len(v.args) == 1:
                t = "deflated" if X._tag_get(tags, q.dotted(v.args[0]) or "?") in ("msg",) else "bad"
            elif isinstance(v, ast.Call) and q.call_attr(v) in ("utf8", "json_encode") and v.args:
                t = X._tag_get(tags, q.dotted(v.args[0]) or "?")
            elif isinstance(v, (ast.Name, ast.Attribute)):
                t = X._tag_get(tags, q.dotted(v) or "?")
            for tg in X._targets(n.ast):
                tags = X._tag_set(tags, tg, t)
        return (comp, tags)

    for binary in (True, False):
        for has_comp in (True, False):
            seen = X.explore_consts(wm.cfg, consts, init_env={bin_p: binary}, assume={"self._compressor": has_comp},
                                    uinit=(False, ((ps[1], "msg"),)), utransfer=utransfer)
            got = []
            for n, c in calls:
                for env, u in X.states_at(seen, n):
                    fin = X.fold_in(c.args[0], env, "?") if c.args else "?"
                    op = X.fold_in(c.args[1], env, "?") if len(c.args) > 1 else "?"
                    body = X._tag_get(u[1], q.dotted(c.args[2]) or "?") if len(c.args) > 2 else None
                    fl_e = q.kwarg(c, "flags") or (c.args[3] if len(c.args) > 3 else None)
                    fl = X.fold_in(fl_e, env, "?") if fl_e is not None else 0
                    got.append((fin, op, body, fl))
                    if u[0] and body != "deflated":
                        ck.ob(R, wm, c, False, "once the compressor has consumed a message its output is what is sent (otherwise a context-takeover peer inflates against a window that is out of step)",
                              construct="compressed output discarded: frame body %r after compress()" % (body,))
            want = (True, 2 if binary else 1, "deflated" if has_comp else "msg", consts.get("self.RSV1") if has_comp else 0)
            plain = (True, 2 if binary else 1, "msg", 0)
            ck.ob(R, wm, wm.node, bool(got) and want in got and all(g in (want, plain) for g in got),
                  "write_message(binary=%s, compressor %s): one final frame, opcode %d, payload %s, flags %s (got %r)" % (binary, "present" if has_comp else "absent", want[1], "deflated" if has_comp else "as is", "RSV1" if has_comp else "0", got),
                  construct="write_message binary=%s comp=%s -> %r" % (binary, has_comp, sorted(set(map(repr, got)))))


def rule_deflate(ck, consts):
    R = "C14.deflate-pairing"
    comp = ck.func(W, "_PerMessageDeflateCompressor.compress")
    dec = ck.func(W, "_PerMessageDeflateDecompressor.decompress")
    # tail stripped by compress
    strips = []
    for n in q.walk_body(comp.node):
        if isinstance(n, ast.Return) and isinstance(n.value, ast.Subscript) and isinstance(n.value.slice, ast.Slice):
            s = n.value.slice
            if s.lower is None and s.step is None and s.upper is not None:
                try:
                    strips.append((n, -q.fold(s.upper, {})))
                except q.NotFoldable:
                    pass
    ck.floor(R, len(strips), 1, "`return data[:-N]` in compress")
    flushes = [c for c in q.calls(comp.node) if isinstance(c.func, ast.Attribute) and c.func.attr == "flush"]
    ck.floor(R, len(flushes), 1, "flush() calls in compress")
    for c in flushes:
        ck.ob(R, comp, c, len(c.args) == 1 and q.dotted(c.args[0]) in ("zlib.Z_SYNC_FLUSH", "zlib.Z_FULL_FLUSH"), "compress ends every message with a sync/full flush (so the output ends with the empty stored block 00 00 ff ff and the compressor stays usable)")
    # the value returned is compress(data)+flush(...) of the *argument*
    dparam = [p for p in comp.params() if p != "self"][0]
    cc = [c for c in q.calls(comp.node) if isinstance(c.func, ast.Attribute) and c.func.attr == "compress"]
    ck.ob(R, comp, comp.node, len(cc) == 1 and len(cc[0].args) == 1 and q.dotted(cc[0].args[0]) == dparam, "compress feeds exactly its argument to the zlib compressor once", construct="compress feeds argument: %s" % [q.unparse(c) for c in cc])
    # tail appended by decompress
    appended = []
    dcalls = [c for c in q.calls(dec.node) if isinstance(c.func, ast.Attribute) and c.func.attr == "decompress"]
    ck.floor(R, len(dcalls), 1, "zlib decompress calls in decompress")
    for c in dcalls:
        a = c.args[0] if c.args else None
        if isinstance(a, ast.BinOp) and isinstance(a.op, ast.Add) and isinstance(a.right, ast.Constant) and isinstance(a.right.value, bytes):
            appended.append((c, a.right.value, q.dotted(a.left)))
        elif isinstance(a, ast.Name) and a.id in dec.params():
            appended.append((c, b"", a.id))  # positively: the argument is inflated as is, no tail re-appended
        else:
            raise AnalysisError("_PerMessageDeflateDecompressor.decompress: the inflated operand %s is not of the form <argument> + <bytes constant>" % (q.unparse(a) if a is not None else "?"))
    TAIL = b"\x00\x00\xff\xff"
    ddparam = [p for p in dec.params() if p != "self"][0]
    for c, t, src in appended:
        ck.ob(R, dec, c, t == TAIL and src == ddparam, "decompress re-appends the 4 bytes 00 00 ff ff (RFC 7692 7.2.2) to its argument before inflating (got %r)" % (t,))
    for n, k in strips:
        ck.ob(R, comp, n, k == len(TAIL) and all(t is not None and len(t) == k for _c, t, _s in appended), "compress strips exactly the %d trailing bytes that decompress re-appends (strips %r)" % (len(TAIL), k))
    # raw deflate on both sides, same window attribute
    mk_c = ck.func(W, "_PerMessageDeflateCompressor._create_compressor")
    mk_d = ck.func(W, "_PerMessageDeflateDecompressor._create_decompressor")
    for fi, fn, idx, kw in ((mk_c, "zlib.compressobj", 2, "wbits"), (mk_d, "zlib.decompressobj", 0, "wbits")):
        cs = q.find_calls(fi.node, fn)
        ck.floor(R, len(cs), 1, "%s calls" % fn)
        for c in cs:
            a = q.arg(c, idx, kw)
            ok = isinstance(a, ast.UnaryOp) and isinstance(a.op, ast.USub) and q.dotted(a.operand) == "self._max_wbits"
            ck.ob(R, fi, c, ok, "%s uses raw deflate (negative window bits) with the negotiated self._max_wbits" % fn)
    # context takeover: the persistent object is reused, otherwise a fresh one per message (decided per scenario on the CFG)
    for fi, attr, mk, op in ((comp, "self._compressor", "self._create_compressor", "compress"), (dec, "self._decompressor", "self._create_decompressor", "decompress")):
        sites = fi.cfg.find(lambda x, op=op: isinstance(x, ast.Call) and isinstance(x.func, ast.Attribute) and x.func.attr == op)
        ck.floor(R, len(sites), 1, "zlib %s calls in %s" % (op, fi.qualname))

        def origin(e, env, tags, attr=attr, mk=mk):
            """'persist' | 'fresh' | None for the zlib object expression e"""
            v = X.fold_in(e, env, None)
            if v == "PERSISTENT-OBJECT":
                return "persist"
            if q.is_call(e, mk):
                return "fresh"
            if isinstance(e, ast.BoolOp) and isinstance(e.op, ast.Or):
                for x in e.values:
                    o = origin(x, env, tags)
                    fv = X.fold_in(x, env, "?")
                    if o is not None:
                        return o
                    if fv == "?" or fv:
                        return None
                return None
            if isinstance(e, ast.IfExp):
                t = X.fold_in(e.test, env, "?")
                return None if t == "?" else origin(e.body if t else e.orelse, env, tags)
            d = q.dotted(e) if isinstance(e, (ast.Name, ast.Attribute)) else None
            return dict(tags).get(d) if d else None

        def ut(n, u, env):
            tags = dict(u)
            if n.kind == "stmt" and isinstance(n.ast, (ast.Assign, ast.AnnAssign)) and n.ast.value is not None:
                o = origin(n.ast.value, env, u)
                for t in X._targets(n.ast):
                    if o is None:
                        tags.pop(t, None)
                    else:
                        tags[t] = o
            return tuple(sorted(tags.items()))

        for persistent in (True, False):
            cs = dict(consts)
            cs[attr] = "PERSISTENT-OBJECT" if persistent else None
            seen = X.explore_consts(fi.cfg, cs, uinit=(), utransfer=ut)
            got = set()
            for node, c in sites:
                for env, u in X.states_at(seen, node):
                    fenv = dict(cs)
                    fenv.update(env)
                    fenv = {k_: v_ for k_, v_ in fenv.items() if not (isinstance(v_, str) and v_ in (X.UNKNOWN, X.NOTNONE))}
                    got.add(origin(c.func.value, fenv, u))
            retained = {dict(u).get(attr) for _e, u in X.states_at(seen, fi.cfg.exit)}
            if not persistent:
                ck.ob(R, fi, fi.node, not (retained & {"fresh", "persist"}), "%s: without context takeover no zlib object is kept in %s after the call (a kept object would be reused for the next message)" % (fi.qualname, attr),
                      construct="zlib object retained without context takeover: %s" % sorted(map(repr, retained)))
            if None in got or not got:
                raise AnalysisError("%s: which zlib object performs %s() is not resolved (%s)" % (fi.qualname, op, sorted(map(repr, got))))
            want = {"persist"} if persistent else {"fresh"}
            ck.ob(R, fi, fi.node, got == want, "%s: with context takeover %s the %s object %s is used (got %s)" % (fi.qualname, "on" if persistent else "off", "persistent" if persistent else "fresh per-message", attr if persistent else mk + "()", sorted(got)),
                  construct="zlib object persistent=%s -> %s" % (persistent, sorted(got)))
    for cls, attr, mk in (("_PerMessageDeflateCompressor", "self._compressor", "self._create_compressor"), ("_PerMessageDeflateDecompressor", "self._decompressor", "self._create_decompressor")):
        init = ck.func(W, cls + ".__init__")
        if "persistent" not in init.params():
            raise AnalysisError("%s.__init__ has no `persistent` parameter" % cls)

        def ut(n, u, env, attr=attr, mk=mk):
            if n.kind == "stmt" and isinstance(n.ast, (ast.Assign, ast.AnnAssign)) and n.ast.value is not None and attr in q.assigned_paths(n.ast):
                v = n.ast.value
                for _ in range(3):  # conditional expression / `a and b` chosen by a foldable test
                    if isinstance(v, ast.IfExp):
                        t_ = X.fold_in(v.test, env, "?")
                        if t_ == "?":
                            break
                        v = v.body if t_ else v.orelse
                if q.is_call(v, mk):
                    return "live"
                if isinstance(v, ast.Constant) and v.value is None:
                    return "none"
                return "?"
            return u

        for pers in (True, False):
            seen = X.explore_consts(init.cfg, consts, init_env={"persistent": pers}, assume={"max_wbits is None": False}, uinit="unset", utransfer=ut, follow_exc=False)
            finals = {u for _e, u in X.states_at(seen, init.cfg.exit)}
            if "?" in finals or not finals:
                raise AnalysisError("%s.__init__: the value stored in %s is not in a recognised form (%s)" % (cls, attr, sorted(finals)))
            want = {"live"} if pers else {"none"}
            ck.ob(R, init, init.node, finals == want, "%s(persistent=%s) leaves %s %s (got %s)" % (cls, pers, attr, "a live zlib object (context takeover)" if pers else "None (fresh object per message)", sorted(finals)),
                  construct="%s init persistent=%s -> %s" % (cls, pers, sorted(finals)))
    # side selection
    crt = ck.func(W, P13 + "._create_compressors")
    side_p = [p for p in crt.params() if p != "self"][0]
    for side in ("client", "server"):
        other = {"client": "server", "server": "client"}[side]
        seen = X.explore_consts(crt.cfg, consts, init_env={side_p: side})
        got = {}
        for n in crt.cfg.stmt_nodes(lambda n: n.kind == "stmt" and isinstance(n.ast, ast.Assign)):
            for attr, cls in (("self._compressor", "_PerMessageDeflateCompressor"), ("self._decompressor", "_PerMessageDeflateDecompressor")):
                if attr in q.assigned_paths(n.ast) and q.is_call(n.ast.value, cls):
                    inner = [c for c in q.calls(n.ast.value) if q.is_call(c, "self._get_compressor_options")]
                    for env, _u in X.states_at(seen, n):
                        got[attr] = [X.fold_in(c.args[0], env, "?") for c in inner if c.args]
        ck.ob(R, crt, crt.node, got.get("self._compressor") == [side] and got.get("self._decompressor") == [other],
              "_create_compressors(%r): the compressor takes this side's parameters and the decompressor the peer's (%r) (got %r)" % (side, other, got), construct="sides %s -> %r" % (side, sorted(got.items())))
    gco = ck.func(W, P13 + "._get_compressor_options")
    gps = [p for p in gco.params() if p != "self"]
    okp = False
    okw = False
    for n in q.walk_body(gco.node):
        if isinstance(n, ast.Compare) and len(n.ops) == 1 and isinstance(n.ops[0], ast.NotIn) and q.dotted(n.comparators[0]) == gps[1]:
            l = n.left
            if isinstance(l, ast.BinOp) and isinstance(l.op, ast.Add) and q.dotted(l.left) == gps[0] and q.is_const(l.right, "_no_context_takeover"):
                okp = True
        if isinstance(n, ast.Call) and isinstance(n.func, ast.Attribute) and n.func.attr == "get" and q.dotted(n.func.value) == gps[1] and n.args:
            l = n.args[0]
            if isinstance(l, ast.BinOp) and isinstance(l.op, ast.Add) and q.dotted(l.left) == gps[0] and q.is_const(l.right, "_max_window_bits"):
                okw = True
    ck.ob(R, gco, gco.node, okp, "persistent (context takeover) iff '<side>_no_context_takeover' is not among the agreed parameters", construct="persistent rule: %s" % okp)
    ck.ob(R, gco, gco.node, okw, "window bits come from '<side>_max_window_bits' of the agreed parameters", construct="wbits rule: %s" % okw)
    # options["max_wbits"]: the negotiated value when present, the zlib maximum otherwise; returned to the constructors
    gfacts = must_facts(gco.cfg)
    n_w = 0
    for node in gco.cfg.stmt_nodes(lambda n: n.kind == "stmt" and isinstance(n.ast, ast.Assign) and isinstance(n.ast.targets[0], ast.Subscript) and q.is_const(n.ast.targets[0].slice, "max_wbits")):
        n_w += 1
        v = node.ast.value
        src = None
        for (txt, pol) in gfacts[node.id]:
            if txt.endswith(" is None"):
                src = (txt[: -len(" is None")], pol)
        if src is None:
            raise AnalysisError("_get_compressor_options: max_wbits assigned outside an `is None` test")
        name, isnone = src
        sts = q.stores_to(gco.node, name)
        from_param = len(sts) == 1 and any(isinstance(x, ast.Call) and isinstance(x.func, ast.Attribute) and x.func.attr == "get" and q.dotted(x.func.value) == gps[1] for x in ast.walk(sts[0].value))
        if isnone:
            ok = q.dotted(v) == "zlib.MAX_WBITS"
        else:
            ok = q.is_call(v, "int") and len(v.args) == 1 and q.dotted(v.args[0]) == name
        ck.ob(R, gco, node.ast, ok and from_param, "max_wbits is %s" % ("zlib.MAX_WBITS when the parameter is absent or has no value" if isnone else "int(<the agreed <side>_max_window_bits>)"))
    ck.floor(R, n_w, 2, "max_wbits assignments in _get_compressor_options")
    for cls in ("_PerMessageDeflateCompressor", "_PerMessageDeflateDecompressor"):
        init = ck.func(W, cls + ".__init__")
        st_ = q.stores_to(init.node, "self._max_wbits")
        ck.ob(R, init, init.node, len(st_) == 1 and q.dotted(st_[0].value) == "max_wbits", "%s keeps the window bits it was given" % cls, construct="%s stores max_wbits" % cls)


def rule_sides_and_reads(ck):
    R = "C14.deflate-pairing"
    # which endpoint are we?  the server-side handshake code must say "server", the client-side code "client"
    for qn, want in ((P13 + "._accept_connection", "server"), (P13 + "._process_server_headers", "client")):
        fi = ck.func(W, qn)
        cs = q.find_calls(fi.node, "self._create_compressors")
        ck.floor(R, len(cs), 1, "_create_compressors call in %s" % qn)
        for c in cs:
            a = c.args[0] if c.args else q.kwarg(c, "side")
            ck.ob(R, fi, c, a is not None and q.is_const(a, want), "%s builds the compressors as the %r side (own parameters compress, the peer's decompress)" % (qn, want))
    # mask direction: clients mask, servers do not (RFC 6455 5.1) - decided where the protocol objects are built
    for qn, want in (("WebSocketHandler.get_websocket_protocol", False), ("WebSocketClientConnection.get_websocket_protocol", True)):
        fi = ck.func(W, qn)
        cs = q.find_calls(fi.node, P13)
        ck.floor("C14.mask", len(cs), 1, "%s constructions in %s" % (P13, qn))
        for c in cs:
            a = q.arg(c, 1, "mask_outgoing")
            ck.ob("C14.mask", fi, c, a is not None and isinstance(a, ast.Constant) and a.value is want, "%s creates the protocol with mask_outgoing=%s" % (qn, want))
    init = ck.func(W, P13 + ".__init__")
    st = q.stores_to(init.node, "self.mask_outgoing")
    ck.ob("C14.mask", init, init.node, len(st) == 1 and q.dotted(st[0].value) == "mask_outgoing", "mask_outgoing is stored unchanged", construct="mask_outgoing stored")
    # frame reads are exact reads of the requested number of bytes
    rb = ck.func(W, P13 + "._read_bytes")
    np_ = [p for p in rb.params() if p != "self"][0]
    reads = [c for c in q.calls(rb.node) if isinstance(c.func, attr_t) and c.func.attr.startswith("read")]
    ok = len(reads) == 1 and q.is_call(reads[0], "self.stream.read_bytes") and len(reads[0].args) == 1 and q.dotted(reads[0].args[0]) == np_ and not reads[0].keywords
    ck.ob("C14.reassembly", rb, rb.node, ok, "_read_bytes(n) is exactly stream.read_bytes(n) (no partial reads, no other length)", construct="_read_bytes exact: %s" % ok)
    rets = [x for x in q.walk_body(rb.node) if isinstance(x, ast.Return)]
    okr = False
    if len(rets) == 1 and isinstance(rets[0].value, ast.Name):
        stv = q.stores_to(rb.node, rets[0].value.id)
        okr = len(stv) == 1 and isinstance(stv[0].value, ast.Await) and stv[0].value.value is (reads[0] if reads else None)
    elif len(rets) == 1 and isinstance(rets[0].value, ast.Await):
        okr = bool(reads) and rets[0].value.value is reads[0]
    ck.ob("C14.reassembly", rb, rb.node, okr, "_read_bytes returns the bytes read, unchanged", construct="_read_bytes returns the read: %s" % okr)


attr_t = ast.Attribute


# ---------------------------------------------------------------------------


def run(ck):
    ck.repo = NORM.normalize(ck.repo, W, NORM.KEEP_WS)  # aliases, temporaries, 1-tuple unpacks, single-use private helpers (vt/x_wsnorm.py)
    ck.rule("C14.ctl-no-msg-state", "_receive_frame: for every control opcode (and every FIN/RSV combination) no write of _frame_compressed/_fragmented_message_buffer/_fragmented_message_opcode is reachable; _frame_compressed is not rewritten by continuation frames")
    ck.rule("C14.ctl-no-inflate", "_handle_message: for every control opcode the payload is never inflated, whatever the per-message compressed flag holds")
    ck.rule("C14.rsv1-flag", "_receive_frame: with a decompressor negotiated, _frame_compressed equals the RSV1 bit of the first frame of the message whenever that frame is consumed")
    ck.rule("C14.inflate", "_handle_message: a data message is inflated before delivery iff its compressed flag is set")
    ck.rule("C14.codec", "_handle_message: opcode 1 delivers the strict UTF-8 decoding, opcode 2 the bytes")
    ck.rule("C14.reassembly", "_receive_frame: fragments are appended in order, the final continuation dispatches saved opcode + whole buffer and clears it; unfragmented/control frames dispatch their own payload and leave the buffer alone; continuation/empty frames are never refused because a buffer or payload is empty (concrete buffer models in the field's own representation); _read_bytes is an exact read")
    ck.rule("C14.len-table", "length encoder (_write_frame) and decoder (_receive_frame) agree for every boundary length: direct 0..125, 126 -> !H, 127 -> !Q; the frame is handed to the stream exactly once")
    ck.rule("C14.len-minimal", "the writer uses the minimal length encoding")
    ck.rule("C14.mask", "mask bit and payload masking agree: writer masks with a fresh 4-byte key iff mask_outgoing; reader consumes the 4-byte key iff the mask bit is set (also for empty payloads) and unmasks with it; clients are built masking, servers not")
    ck.rule("C14.header-bits", "FIN/RSV/OPCODE bit constants follow RFC 6455 and the writer composes the first byte from fin, opcode, flags")
    ck.rule("C14.deflate-pairing", "permessage-deflate: sync-flush tail stripped/re-appended (4 bytes 00 00 ff ff), raw deflate on both sides, persistent object iff context takeover, own side compresses / peer side decompresses (server code says 'server', client code 'client'), negotiated window bits reach zlib, RSV1 iff compressed, opcode by `binary`")
    ck.rule("C14.ordered", "the future of an asynchronous on_message is returned by _handle_message and awaited by _receive_frame before the next frame")

    consts = X.class_consts(ck.repo, W, P13)
    rf = ck.func(W, P13 + "._receive_frame")
    hm = ck.func(W, P13 + "._handle_message")
    wf = ck.func(W, P13 + "._write_frame")
    wm = ck.func(W, P13 + ".write_message")

    rule_header_bits(ck, consts)
    rule_ctl_state(ck, rf, consts)
    rule_rsv1_flag(ck, rf, consts)
    rule_reassembly(ck, rf, consts)
    direct, ext = rule_len_reader(ck, rf, consts)
    rule_mask_reader(ck, rf, consts)
    rule_header_reads(ck, rf, consts)
    rule_dispatch(ck, hm, consts)
    n = rule_writer(ck, wf, consts, direct, ext)
    ck.floor("C14.len-table", n, 10, "writer cases")
    rule_write_message(ck, wm, consts)
    rule_deflate(ck, consts)
    rule_sides_and_reads(ck)
    rule_ordered(ck, rf, hm)


def _in(qn, edit, rel=W):
    return lambda repo: mutate(repo, rel, qn, edit)


def _src(st):
    return ast.unparse(st)


def _ctl_branch_touches_buffer(root):
    for n in ast.walk(root):
        if isinstance(n, ast.If) and isinstance(n.test, ast.Name) and n.test.id == "opcode_is_control" and any(isinstance(x, ast.If) for x in n.body):
            n.body.append(parse_stmt("self._fragmented_message_buffer = None"))
            return True
    return False


def _flag_after_clear(root):
    for n in ast.walk(root):
        body = getattr(n, "body", None)
        if isinstance(body, list):
            for i in range(len(body) - 1):
                if "self._frame_compressed =" in _src(body[i]) and isinstance(body[i + 1], ast.AugAssign):
                    body[i], body[i + 1] = body[i + 1], body[i]
                    return True
    return False


def _cmp_const(name, old_op, const, new_op=None, new_const=None):
    def pred(n):
        return isinstance(n, ast.Compare) and isinstance(n.left, ast.Name) and n.left.id == name and len(n.ops) == 1 and isinstance(n.ops[0], old_op) and isinstance(n.comparators[0], ast.Constant) and n.comparators[0].value == const

    def new(n):
        return ast.Compare(left=n.left, ops=[(new_op or old_op)()], comparators=[ast.Constant(value=const if new_const is None else new_const)])

    return replace_expr(pred, new)


def _const(old, new):
    return replace_expr(lambda n: isinstance(n, ast.Constant) and type(n.value) is type(old) and n.value == old, lambda n: ast.Constant(value=new))


def _swap_sides(root):
    k = 0
    for n in ast.walk(root):
        if isinstance(n, ast.Call) and q.is_call(n, "self._get_compressor_options") and n.args and isinstance(n.args[0], ast.Name):
            n.args[0] = ast.Name(id={"side": "other_side", "other_side": "side"}[n.args[0].id], ctx=ast.Load())
            k += 1
    return k == 2


def _options_once(root):
    """seeded C14-adv1: options computed once for our side and reused for the decompressor"""
    k = 0
    for n in ast.walk(root):
        if isinstance(n, ast.Call) and q.is_call(n, "self._get_compressor_options") and n.args and isinstance(n.args[0], ast.Name) and n.args[0].id == "other_side":
            n.args[0] = ast.Name(id="side", ctx=ast.Load())
            k += 1
    return k == 1


MUTANTS = [
    ("seeded C14-adv1: decompressor configured with our side's parameters", _in(P13 + "._create_compressors", _options_once), "C14.deflate-pairing"),
    ("client builds its compressors as the server side", _in(P13 + "._process_server_headers", _const("client", "server")), "C14.deflate-pairing"),
    ("server-side protocol masks its frames", _in("WebSocketHandler.get_websocket_protocol", replace_expr(lambda n: q.is_call(n, P13), lambda n: ast.Call(func=n.func, args=[n.args[0], ast.Constant(value=True), n.args[2]], keywords=[]))), "C14.mask"),
    ("buffer truthiness: empty first fragment treated as 'nothing to continue'", _in(P13 + "._receive_frame", replace_expr(lambda n: isinstance(n, ast.Compare) and _src(n) == "self._fragmented_message_buffer is None", lambda n: parse_expr("not self._fragmented_message_buffer"))), "C14.reassembly"),
    ("empty payloads skip the dispatch (fast path)", _in(P13 + "._receive_frame", replace_expr(lambda n: isinstance(n, ast.Name) and n.id == "is_final_frame" and isinstance(n.ctx, ast.Load), lambda n: parse_expr("(is_final_frame and data)"), limit=9)), None),
    ("partial reads of the payload", _in(P13 + "._read_bytes", replace_expr(lambda n: q.is_call(n, "self.stream.read_bytes"), lambda n: parse_expr("self.stream.read_bytes(n, partial=True)"))), "C14.reassembly"),
    ("mask key not consumed for empty masked payloads", _in(P13 + "._receive_frame", replace_stmt(lambda st: isinstance(st, ast.If) and _src(st.test) == "is_masked" and "_read_bytes(4)" in _src(st), lambda st: [ast.If(test=parse_expr("is_masked and payloadlen"), body=st.body, orelse=[])])), "C14.mask"),
    ("negotiated window bits ignored", _in(P13 + "._get_compressor_options", replace_expr(lambda n: q.is_call(n, "int"), lambda n: parse_expr("zlib.MAX_WBITS"))), "C14.deflate-pairing"),
    ("compressed payload computed but the original is sent (with RSV1)", _in(P13 + ".write_message", replace_stmt(lambda st: isinstance(st, ast.Assign) and ".compress(" in _src(st), lambda st: [ast.Expr(value=st.value)])), "C14.deflate-pairing"),
    ("frame handed to the stream twice", _in(P13 + "._write_frame", replace_stmt(lambda st: isinstance(st, ast.Return), lambda st: [parse_stmt("self.stream.write(frame)"), st])), "C14.len-table"),
    ("seeded C14-adv3: compressed output used only when smaller, else the raw message is sent (compressor already consumed it)", _in(P13 + ".write_message", lambda root: _compress_if_smaller(root)), "C14.deflate-pairing"),
    ("seeded C14-adv6: compressor allocated lazily in compress() and kept; `persistent` never consulted", lambda repo: mutate(mutate(repo, W, "_PerMessageDeflateCompressor.__init__", lambda root: _lazy_init(root)), W, "_PerMessageDeflateCompressor.compress", lambda root: _lazy_compress(root)), "C14.deflate-pairing"),
    ("control-frame branch resets the reassembly buffer", _in(P13 + "._receive_frame", _ctl_branch_touches_buffer), "C14.ctl-no-msg-state"),
    ("continuation frames rewrite _frame_compressed (opcode != 0 dropped)", _in(P13 + "._receive_frame", replace_expr(lambda n: isinstance(n, ast.BoolOp) and "opcode != 0" in _src(n) and "_decompressor" in _src(n), lambda n: ast.BoolOp(op=n.op, values=[v for v in n.values if _src(v) != "opcode != 0"]))), "C14.ctl-no-msg-state"),
    ("undo the F11 repair (header side): control frames rewrite _frame_compressed", _in(P13 + "._receive_frame", replace_expr(lambda n: isinstance(n, ast.BoolOp) and "opcode != 0" in _src(n) and "_decompressor" in _src(n), lambda n: parse_expr("self._decompressor is not None and opcode != 0"))), "C14.ctl-no-msg-state"),
    ("undo the F11 repair (dispatch side): control payloads are inflated", _in(P13 + "._handle_message", replace_expr(lambda n: isinstance(n, ast.BoolOp) and "_frame_compressed" in _src(n), lambda n: parse_expr("self._frame_compressed"))), "C14.ctl-no-inflate"),
    ("RSV1 cleared before the compressed flag is computed", _in(P13 + "._receive_frame", _flag_after_clear), "C14.rsv1-flag"),
    ("reader decodes the 16-bit length little-endian", _in(P13 + "._receive_frame", _const("!H", "<H")), "C14.len-table"),
    ("reader reads 4 bytes for length code 127", _in(P13 + "._receive_frame", replace_expr(lambda n: q.is_call(n, "self._read_bytes") and n.args and q.is_const(n.args[0], 8), lambda n: parse_expr("self._read_bytes(4)"))), "C14.len-table"),
    ("writer: 126 written as a bare length", _in(P13 + "._write_frame", _cmp_const("data_len", ast.Lt, 126, ast.LtE)), "C14.len-table"),
    ("writer: 65536 squeezed into 16 bits", _in(P13 + "._write_frame", _cmp_const("data_len", ast.LtE, 0xFFFF, new_const=0x10000)), "C14.len-table"),
    ("writer: 65535 sent with the 64-bit form", _in(P13 + "._write_frame", _cmp_const("data_len", ast.LtE, 0xFFFF, ast.Lt)), "C14.len-minimal"),
    ("reader forgets to unmask", _in(P13 + "._receive_frame", remove_stmts(lambda st: isinstance(st, ast.Assign) and "_websocket_mask(" in _src(st))), "C14.mask"),
    ("writer masks with a different key than it sends", _in(P13 + "._write_frame", replace_expr(lambda n: q.is_call(n, "_websocket_mask"), lambda n: ast.Call(func=n.func, args=[parse_expr("os.urandom(4)"), n.args[1]], keywords=[]))), "C14.mask"),
    ("writer sets the mask bit unconditionally", _in(P13 + "._write_frame", replace_stmt(lambda st: isinstance(st, ast.Assign) and _src(st) == "mask_bit = 0", lambda st: [parse_stmt("mask_bit = 128")])), "C14.mask"),
    ("only text messages are inflated", _in(P13 + "._handle_message", replace_expr(lambda n: isinstance(n, ast.BoolOp) and "_frame_compressed" in _src(n), lambda n: parse_expr("self._frame_compressed and opcode == 1"))), "C14.inflate"),
    ("lenient UTF-8 decoding of text messages", _in(P13 + "._handle_message", replace_expr(lambda n: isinstance(n, ast.Call) and isinstance(n.func, ast.Attribute) and n.func.attr == "decode", lambda n: ast.Call(func=n.func, args=n.args + [ast.Constant(value="replace")], keywords=[]))), "C14.codec"),
    ("final continuation keeps the buffer", _in(P13 + "._receive_frame", remove_stmts(lambda st: _src(st) == "self._fragmented_message_buffer = None")), "C14.reassembly"),
    ("final continuation dispatched with opcode 0", _in(P13 + "._receive_frame", remove_stmts(lambda st: _src(st) == "opcode = self._fragmented_message_opcode")), "C14.reassembly"),
    ("first fragment's payload dropped", _in(P13 + "._receive_frame", replace_expr(lambda n: q.is_call(n, "bytearray"), lambda n: parse_expr("bytearray()"))), "C14.reassembly"),
    ("on_message future not awaited before the next frame", _in(P13 + "._receive_frame", remove_stmts(lambda st: isinstance(st, ast.If) and _src(st.test) == "handled_future is not None")), "C14.ordered"),
    ("binary on_message future not returned", _in(P13 + "._handle_message", replace_stmt(lambda st: isinstance(st, ast.Return) and "on_message, data" in _src(st), lambda st: [ast.Expr(value=st.value)])), "C14.ordered"),
    ("compressed frame sent without RSV1", _in(P13 + ".write_message", remove_stmts(lambda st: isinstance(st, ast.AugAssign) and "RSV1" in _src(st))), "C14.deflate-pairing"),
    ("compressor/decompressor take the wrong side's parameters", _in(P13 + "._create_compressors", _swap_sides), "C14.deflate-pairing"),
    ("decompressor ignores context takeover", _in("_PerMessageDeflateDecompressor.decompress", replace_expr(lambda n: isinstance(n, ast.BoolOp) and isinstance(n.op, ast.Or), lambda n: n.values[1])), "C14.deflate-pairing"),
    ("decompressor appends a 3-byte tail", _in("_PerMessageDeflateDecompressor.decompress", _const(b"\x00\x00\xff\xff", b"\x00\xff\xff")), "C14.deflate-pairing"),
    ("binary messages sent with the text opcode", _in(P13 + ".write_message", _const(2, 1)), "C14.deflate-pairing"),
    ("FIN bit constant wrong", lambda repo: mutate(repo, W, P13, replace_stmt(lambda st: isinstance(st, ast.Assign) and _src(st).startswith("RSV1 ="), lambda st: [parse_stmt("RSV1 = 0x20")])), "C14.header-bits"),
]


def _compress_if_smaller(root):
    for n in ast.walk(root):
        if isinstance(n, ast.If) and _src(n.test) == "self._compressor":
            n.body = ast.parse("compressed = self._compressor.compress(message)\nif len(compressed) <= len(message):\n    message = compressed\n    flags |= self.RSV1").body
            return True
    return False


def _lazy_init(root):
    for i, st in enumerate(root.body):
        if isinstance(st, ast.If) and _src(st.test) == "persistent":
            root.body[i : i + 1] = [parse_stmt("self._persistent = persistent"), parse_stmt("self._compressor = None")]
            return True
    return False


def _lazy_compress(root):
    for i, st in enumerate(root.body):
        if isinstance(st, ast.Assign) and "_create_compressor" in _src(st):
            root.body[i : i + 1] = [parse_stmt("if self._compressor is None:\n    self._compressor = self._create_compressor()"), parse_stmt("compressor = self._compressor")]
            return True
    return False
