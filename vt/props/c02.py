"""C02 — HTTP responses are well-framed.

Decided statically:

* an exhaustive case analysis (partial evaluation of the CFG under every
  valuation of request version x method x status class x Content-Length
  present x disconnect flag) of the server branch of
  ``HTTP1Connection.write_headers``: a response is either bodiless, chunked,
  length-delimited or the connection is closed after it; bodiless responses
  (HEAD, 1xx, 204, 304) are never chunked and have a zero expected length;
  chunking never coexists with Content-Length nor is offered to HTTP/1.0;
* the length guard of ``_format_chunk`` / ``finish`` (decrement, over-/short
  length detection, close before raise, chunk wire format, terminator);
* body bytes reach the stream only through ``_format_chunk``;
* ``RequestHandler.finish``: Content-Length decision agrees with the same
  bodiless set and is computed from the unflushed buffer; ``RequestHandler.flush``:
  headers once, HEAD discards the chunk on both branches.

Not decided: byte equality of the body with what the handler wrote, the
client-side reader's agreement (C08), parser-level unambiguity.
"""
from __future__ import annotations

import ast

from .. import q
from ..cfg import explore, must_facts, canon_fact, holds
from ..rules import call_sites, node_calls, require_before, tainted_names, mentions, event_facts
from ..mutate import mutate, remove_stmts, replace_expr, replace_stmt, parse_stmt, parse_expr
from ..model import AnalysisError
from ..x_sites import method_calls
from ..x_flow import expand_locals
from ..x_peval import STOP, UNK, make_resolver, pure_self_methods, module_constants, class_constants, peval, pfold, prep, partition, predicates_on, try_fold

from ..x_http import norm_func
from ..x_objalias import subst_object_aliases, inline_constants, through_local

# private helpers that the rules model by name (sanitisers / summarised effects) and therefore must stay calls
KEEP_CALLS = {"_format_chunk", "_convert_header_value", "_clear_representation_headers", "_can_keep_alive", "_compressible_type",
              "_on_write_complete", "_finish_request", "_clear_callbacks"}


def F(ck, relpath, qualname):
    """The anchored function with its private same-file helpers inlined (function splitting is followed, depth 3)."""
    fi = ck.func(relpath, qualname)
    try:
        return inline_constants(subst_object_aliases(norm_func(ck.repo, fi, depth=3, no_inline=KEEP_CALLS)))
    except AnalysisError:
        raise
    except Exception as e:  # the normaliser must never turn into a verdict
        raise AnalysisError("cannot normalise %s: %r" % (qualname, e))


def fully_inlined(fi, keep=()):
    """No call of a private method of ``self`` is left in the normalised function (other than the ones the rules
    model by name): only then may the *absence* of an effect be reported as a violation."""
    for c in q.calls(fi.node):
        if isinstance(c.func, ast.Attribute) and q.dotted(c.func.value) in ("self", "cls") and c.func.attr.startswith("_") and not c.func.attr.startswith("__") and c.func.attr not in KEEP_CALLS and c.func.attr not in keep:
            return False
    return True


def absent(fi, what, keep=()):
    """Verdict for 'the required effect was not found': False (a violation) only when the function was fully
    recognised; otherwise the analysis fails closed."""
    if not fully_inlined(fi, keep):
        raise AnalysisError("%s: %s not found, and private helpers remain that could not be inlined" % (fi.qualname, what))
    return False


def OB(ck, env, rule, fi, node, ok, what, construct=None):
    """ck.ob for verdicts derived from a partial evaluation: a failing verdict reached through a test that involves a
    fixed input but could not be decided is not positive evidence — fail closed instead of reporting it."""
    if not ok and env is not None and env.get("@partial"):
        raise AnalysisError("%s: not decidable here - the evaluation went through the test '%s', which involves a fixed input but could not be folded" % (fi.qualname, env["@partial"]))
    return ck.ob(rule, fi, node, ok, what, construct=construct)


TECHNIQUE = "partial evaluation of the CFG over the partitioned (version, method, status, Content-Length, disconnect) space + guard-dominance/typestate on the length guard"
EXPLANATION = (
    "HTTP1Connection.write_headers (server branch) is partially evaluated for every valuation of request version, method, "
    "status class (100..599 partitioned by the predicates the code applies to the status), Content-Length presence and the "
    "incoming disconnect flag; the framing decision at every normal exit is compared with the bodiless reference set "
    "{HEAD, 1xx, 204, 304} of RFC 9110 6.4.1.  _format_chunk/finish are checked with path-sensitive guard facts; "
    "RequestHandler.finish/flush are partially evaluated over (status class, method, headers written)."
)
NOT_DECIDED = (
    "that the body bytes equal the concatenation of the chunks written; that the header block the strict client parses is the one set "
    "(C07 decides the injection part); agreement of the client-side reader with the same bodiless set (C08); transforms other than identity"
)
LEVEL_NOTE = "typing.cast is the identity; HTTPHeaders is modelled as the set of names present; the request's keep-alive header precondition is re-derived from _can_keep_alive"

H1 = "tornado/http1connection.py"
WEB = "tornado/web.py"
CONN = "HTTP1Connection"

ECR = "self._expected_content_remaining"
CHUNKING = "self._chunking_output"
DOF = "self._disconnect_on_finish"
RSL = "self._request_start_line"

STATUS_DOMAIN = range(100, 600)


def bodiless_status(code: int) -> bool:
    """RFC 9110 6.4.1 / 15.2 / 15.3.5 / 15.4.5: 1xx, 204 and 304 never carry content."""
    return 100 <= code < 200 or code in (204, 304)


def bodiless_group(method: str, code: int):
    if method == "HEAD":
        return "HEAD"
    if 100 <= code < 200:
        return "1xx"
    if code in (204, 304):
        return str(code)
    return None


def class_label(cls):
    lo, hi = min(cls), max(cls)
    if len(cls) == 1:
        return str(lo)
    if len(cls) == hi - lo + 1:
        return "%d-%d" % (lo, hi)
    return "%d..%d(%d codes)" % (lo, hi, len(cls))


def callee_literals(repo, relpath, clsname, fi, depth=2):
    """Integer literals (status-code range) in the helpers ``fi`` calls (methods of
    its class / functions of its module), so that the status partition also
    separates values a helper predicate distinguishes."""
    out = set()
    seen = set()
    work = [(fi, 0)]
    while work:
        f, d = work.pop()
        if f.qualname in seen:
            continue
        seen.add(f.qualname)
        if f is not fi:
            out |= {v for v in q.literal_ints(f.node) if 99 <= v <= 600}
        if d >= depth:
            continue
        for c in q.calls(f.node):
            g = None
            if isinstance(c.func, ast.Attribute) and q.dotted(c.func.value) == "self" and repo.has_func(relpath, "%s.%s" % (clsname, c.func.attr)):
                g = repo.func(relpath, "%s.%s" % (clsname, c.func.attr))
            elif isinstance(c.func, ast.Name) and repo.has_func(relpath, c.func.id):
                g = repo.func(relpath, c.func.id)
            if g is not None:
                work.append((g, d + 1))
    return out


def refine_by_literals(classes, lits):
    if not lits:
        return classes
    cuts = sorted(lits)
    out = []
    for c in classes:
        sub = {}
        for x in c:
            key = ("=", x) if x in lits else ("<", sum(1 for v in cuts if v < x))
            sub.setdefault(key, []).append(x)
        out.extend(sub.values())
    return out


# ---------------------------------------------------------------------------
# summaries of self-methods (which self attributes a method may store to)


def self_writes(repo, relpath, cls, method, depth=3, _seen=None):
    """Set of ``self.X`` attribute names method may (re)bind, following calls to
    other methods of the same class; None when it cannot be bounded."""
    _seen = _seen or set()
    if method in _seen:
        return set()
    _seen = _seen | {method}
    if not repo.has_func(relpath, "%s.%s" % (cls, method)):
        return None
    fi = repo.func(relpath, "%s.%s" % (cls, method))
    out = set()
    for n in q.walk_body(fi.node):
        if isinstance(n, (ast.Assign, ast.AugAssign, ast.AnnAssign, ast.Delete)):
            for p in q.assigned_paths(n):
                if p.startswith("self."):
                    out.add(p.split(".")[1].rstrip("[]"))
        elif isinstance(n, ast.Call):
            if q.dotted(n.func) in ("setattr", "delattr"):
                return None
            if isinstance(n.func, ast.Attribute) and q.dotted(n.func.value) == "self":
                if depth <= 0:
                    return None
                sub = self_writes(repo, relpath, cls, n.func.attr, depth - 1, _seen)
                if sub is None:
                    return None
                out |= sub
    return out


# ---------------------------------------------------------------------------
# A. write_headers, server branch


def _keepalive_fact(text: str, self_hdrs="self._request_headers") -> bool:
    try:
        e = ast.parse(text, mode="eval").body
    except SyntaxError:
        return False
    if isinstance(e, ast.Compare) and len(e.ops) == 1 and isinstance(e.ops[0], ast.Eq):
        sides = [e.left, e.comparators[0]]
        consts = [s for s in sides if isinstance(s, ast.Constant) and isinstance(s.value, str) and s.value.lower() == "keep-alive"]
        others = [s for s in sides if not isinstance(s, ast.Constant)]
        if consts and others and self_hdrs in q.paths_in(others[0]):
            return True
    return False


def keepalive_precondition(ck, version="HTTP/1.0") -> bool:
    """For a request of the given (non-1.1) version the connection flag can only be False when the
    request asked for keep-alive: every return of _can_keep_alive reachable with
    version == HTTP/1.0 is ``False`` or ``<Connection header> == 'keep-alive'``,
    and _read_message sets the flag to ``not _can_keep_alive(..)``."""
    try:
        cka = F(ck, H1, CONN + "._can_keep_alive")
        rm = F(ck, H1, CONN + "._read_message")
    except AnalysisError:
        return False
    ps = [p for p in cka.params() if p != "self"]
    if len(ps) < 2:
        return False
    sl = ps[0]
    ok_store = False
    for st in q.stores_to(rm.node, DOF):
        v = getattr(st, "value", None)
        if isinstance(v, ast.UnaryOp) and isinstance(v.op, ast.Not) and q.is_call(v.operand, "self._can_keep_alive"):
            ok_store = True
    if not ok_store:
        return False
    states = peval(cka.cfg, {sl + ".version": version})
    n_ret = 0
    for node in cka.cfg.stmt_nodes(lambda n: n.kind == "stmt" and isinstance(n.ast, ast.Return)):
        if not states.get(node.id):
            continue
        n_ret += 1
        v = node.ast.value
        if isinstance(v, ast.Constant) and v.value is False:
            continue
        if isinstance(v, ast.Compare) and len(v.ops) == 1 and isinstance(v.ops[0], ast.Eq) and isinstance(v.comparators[0], ast.Constant) and v.comparators[0].value == "keep-alive":
            continue
        return False
    return n_ret >= 1


def request_versions(ck, fi):
    """Representatives of the HTTP-version strings a request line can carry: every version literal the framing code
    (write_headers, _can_keep_alive and the helpers they call) compares with, plus versions it never mentions.
    Each representative is checked against the automaton of _ABNF.HTTP_version, so that only versions the parser
    really admits are analysed — and all of them are covered, not just 1.0 and 1.1."""
    from ..rx import Rx, eval_abnf

    lits = set()
    seen = set()
    work = [fi]
    if ck.repo.has_func(H1, CONN + "._can_keep_alive"):
        work.append(ck.repo.func(H1, CONN + "._can_keep_alive"))
    while work:
        f = work.pop()
        if f.qualname in seen:
            continue
        seen.add(f.qualname)
        lits |= {v for v in q.literal_strs(f.node) if v.startswith("HTTP/")}
        for c in q.calls(f.node):
            if isinstance(c.func, ast.Attribute) and q.dotted(c.func.value) == "self" and ck.repo.has_func(H1, "%s.%s" % (CONN, c.func.attr)) and len(seen) < 12:
                work.append(ck.repo.func(H1, "%s.%s" % (CONN, c.func.attr)))
    env = eval_abnf(ck.repo)
    if "HTTP_version" not in env:
        raise AnalysisError("_ABNF.HTTP_version not found")
    lang = Rx.from_pattern(env["HTTP_version"])
    cands = sorted(lits | {"HTTP/1.0", "HTTP/1.1"})
    for extra in ("HTTP/1.2", "HTTP/0.9", "HTTP/2.0"):
        if extra not in cands:
            cands.append(extra)
    out = [v for v in cands if lang.accepts(v)]
    if "HTTP/1.0" not in out or "HTTP/1.1" not in out:
        raise AnalysisError("the request-line grammar no longer admits HTTP/1.0 and HTTP/1.1")
    return out


def check_write_headers(ck):
    fi = F(ck, H1, CONN + ".write_headers")
    ps = fi.params()
    if len(ps) < 4 or ps[0] != "self":
        raise AnalysisError("write_headers signature changed: %s" % ps)
    sl, hd, chunk = ps[1], ps[2], ps[3]
    code_paths = [sl + ".code", sl + "[1]"]
    classes = partition(STATUS_DOMAIN, predicates_on(fi.node, code_paths), code_paths)
    # refine by the reference predicate so that every class is uniformly bodiless or not
    refined = []
    for c in classes:
        for grp in ([x for x in c if bodiless_status(x)], [x for x in c if not bodiless_status(x)]):
            if grp:
                # keep 1xx / 204 / 304 apart for reporting
                sub = {}
                for x in grp:
                    sub.setdefault(bodiless_group("GET", x), []).append(x)
                refined.extend(sub.values())
    classes = refine_by_literals(refined, callee_literals(ck.repo, H1, CONN, fi))
    ck.note("write_headers: status domain 100..599 partitioned into %d classes: %s" % (len(classes), ", ".join(class_label(c) for c in classes)))
    ck.floor("C02.framing", len(classes), 4, "status classes")

    chunk_assigns = fi.cfg.stmt_nodes(lambda n: n.kind == "stmt" and isinstance(n.ast, (ast.Assign, ast.AnnAssign)) and CHUNKING in q.assigned_paths(n.ast))
    ck.floor("C02.framing", len(chunk_assigns), 2, "assignments to _chunking_output in write_headers")
    ecr_assigns = fi.cfg.stmt_nodes(lambda n: n.kind == "stmt" and isinstance(n.ast, (ast.Assign, ast.AnnAssign)) and ECR in q.assigned_paths(n.ast))
    ck.floor("C02.zero-length", len(ecr_assigns), 2, "assignments to _expected_content_remaining in write_headers")

    sw = self_writes(ck.repo, H1, CONN, "_format_chunk")
    tracked_attrs = {"_chunking_output", "_disconnect_on_finish", "_request_start_line", "is_client"}
    if sw is None or (sw & tracked_attrs):
        raise AnalysisError("_format_chunk may rebind %s; the framing analysis of write_headers does not model that" % sorted((sw or set()) & tracked_attrs or ["<unbounded>"]))
    known = {"_format_chunk": None}
    for m in pure_self_methods(ck.repo, H1, CONN):
        known.setdefault(m, None)
    resolver = make_resolver(ck.repo, H1, CONN)

    def hook(n, env):
        if n.kind == "stmt" and isinstance(n.ast, (ast.Assign, ast.AnnAssign)) and ECR in q.assigned_paths(n.ast):
            v = n.ast.value
            if isinstance(v, ast.Constant) and v.value == 0 and v.value is not False:
                env["@ecr"] = "zero"
            elif isinstance(v, ast.Constant) and v.value is None:
                env["@ecr"] = "none"
            elif "Content-Length" in q.literal_strs(v) and hd in q.names_in(v):
                env["@ecr"] = "content-length"
            else:
                env["@ecr"] = "other:" + q.unparse(v)[:40]
        if n.kind == "stmt" and isinstance(n.ast, ast.Assign):
            for t in n.ast.targets:
                if isinstance(t, ast.Subscript) and q.dotted(t.value) == hd and isinstance(t.slice, ast.Constant):
                    val = n.ast.value
                    env["@set:" + str(t.slice.value)] = val.value if isinstance(val, ast.Constant) else "?"
        return None

    consts_wh = module_constants(fi)
    consts_wh.update(class_constants(ck.repo, H1, CONN))
    versions = request_versions(ck, fi)
    ck.note("request versions analysed (every string the request-line grammar admits is equivalent to one of them for the comparisons the code makes): %s" % ", ".join(versions))
    pre = {v: keepalive_precondition(ck, v) for v in versions}
    if any(pre.values()):
        ck.assume("for %s: _disconnect_on_finish False on entry to write_headers implies the request carried Connection: keep-alive (re-derived from _can_keep_alive/_read_message on this tree)" % ", ".join(v for v in versions if pre[v]))
    if not all(pre[v] for v in versions if v != "HTTP/1.1"):
        ck.note("keep-alive precondition could not be re-derived from _can_keep_alive for %s; those valuations are all treated as feasible" % ", ".join(v for v in versions if not pre[v] and v != "HTTP/1.1"))

    # request methods: the ones the code names (it can only distinguish those) plus one it does not name
    named = set()
    for cmp_ in [x for x in q.walk_body(fi.node) if isinstance(x, ast.Compare)]:
        ce = expand_locals(fi, cmp_)
        if (RSL + ".method") in q.paths_in(ce):
            named |= {v for v in q.literal_strs(ce) if v.isupper() and v.isalpha()}
    req_methods = sorted(named | {"HEAD", "GET"})
    n_val = 0
    for version in versions:
        use_pre = pre[version] and version != "HTTP/1.1"
        for method in req_methods:
            for cls in classes:
                code = cls[0]
                for has_cl in (False, True):
                    for dof_in in (False, True):
                        n_val += 1
                        init = dict(consts_wh)
                        init.update({
                            "self.is_client": False,
                            RSL + ".version": version,
                            RSL + ".method": method,
                            sl + ".code": code,
                            sl + "[1]": code,
                            DOF: dof_in,
                            hd: frozenset(["Content-Length"]) if has_cl else frozenset(),
                            CHUNKING: UNK,
                            "@ecr": "unset",
                            "@resolve": resolver,
                        })
                        def on_edge(n, kind, env, version=version, dof_in=dof_in, use_pre=use_pre):
                            if use_pre and kind == "false" and not dof_in and _keepalive_fact(q.unparse(n.ast)):
                                return STOP  # infeasible: a 1.0 request without keep-alive arrives with the flag set
                            return None

                        states = peval(fi.cfg, init, hook=hook, known_self_methods=known, pure_methods=("get_all",), track=lambda t: True, on_edge=on_edge)
                        exits = states.get(fi.cfg.exit.id, [])
                        if not exits:
                            raise AnalysisError("write_headers has no normal exit under %s %s %s" % (version, method, class_label(cls)))
                        _judge_exit_states(ck, fi, exits, version, method, cls, has_cl, dof_in, hd, use_pre)
    ck.floor("C02.framing", n_val, 64, "valuations of write_headers")


def _judge_exit_states(ck, fi, exits, version, method, cls, has_cl, dof_in, hd, use_pre):
    code = cls[0]
    grp = bodiless_group(method, code)
    label = "version=%s method=%s status=%s Content-Length=%s disconnect_in=%s" % (version, method, class_label(cls), "present" if has_cl else "absent", dof_in)
    agg = {}
    for facts, env in exits:
        chunking = env.get(CHUNKING, UNK)
        dof = env.get(DOF, UNK)
        hdrs = env.get(hd, UNK)
        ecr = env.get("@ecr")
        for nm, v in ((CHUNKING, chunking), (DOF, dof), (hd, hdrs)):
            if v is UNK or (nm == hd and not isinstance(v, frozenset)):
                raise AnalysisError("write_headers: value of %s at exit is not determined under %s" % (nm, label))
        agg[(bool(chunking), bool(dof), hdrs, ecr, env.get("@set:Transfer-Encoding"), env.get("@partial"))] = True
    for (chunking, dof, hdrs, ecr, te_val, partial) in sorted(agg, key=repr):
        env = {"@partial": partial}
        cl = "Content-Length" in hdrs
        te = "Transfer-Encoding" in hdrs
        desc = "%s -> chunked=%s Content-Length=%s close=%s expected=%s" % (label, chunking, cl, dof, ecr)
        # R1 framing
        ok = bool(grp) or chunking or cl or dof
        OB(ck, env, "C02.framing", fi, fi.node, ok, "body is delimited (chunked / Content-Length) or bodiless or the connection closes: " + desc,
              construct="undelimited body on a kept connection: version=%s Content-Length=absent disconnect=False" % version)
        # R2 bodiless never chunked
        if grp:
            OB(ck, env, "C02.bodiless-not-chunked", fi, fi.node, not chunking and not te, "bodiless response (%s) carries no Transfer-Encoding: %s" % (grp, desc),
                  construct="chunked bodiless response: %s" % grp)
            OB(ck, env, "C02.zero-length", fi, fi.node, ecr == "zero", "bodiless response (%s) has expected content length 0 so that any body write is rejected: %s" % (grp, desc),
                  construct="zero-length set lacks %s" % grp)
        else:
            if cl:
                OB(ck, env, "C02.length-armed", fi, fi.node, ecr == "content-length", "declared Content-Length arms the length guard: " + desc,
                      construct="Content-Length present but expected=%s" % ecr)
            else:
                OB(ck, env, "C02.length-armed", fi, fi.node, ecr == "none", "without Content-Length no stale expected length remains: " + desc,
                      construct="Content-Length absent but expected=%s" % ecr)
        # R3 chunking consistency
        OB(ck, env, "C02.chunking-consistent", fi, fi.node, not (chunking and cl), "Transfer-Encoding: chunked and Content-Length are never both sent: " + desc,
              construct="chunked together with Content-Length")
        OB(ck, env, "C02.chunking-consistent", fi, fi.node, not (chunking and version != "HTTP/1.1"), "chunked coding only to an HTTP/1.1 peer: " + desc,
              construct="chunked to %s" % version)
        OB(ck, env, "C02.chunking-consistent", fi, fi.node, chunking == te and (not te or te_val == "chunked"), "the Transfer-Encoding: chunked header is emitted exactly when the body will be chunk-coded: " + desc,
              construct="chunking=%s but Transfer-Encoding header=%s" % (chunking, te_val if te else "absent"))




# ---------------------------------------------------------------------------
# B. _format_chunk: length guard and chunk wire format


def _only_ecr(text: str) -> bool:
    try:
        e = ast.parse(text, mode="eval").body
    except SyntaxError:
        return False
    ps = q.paths_in(e)
    return ECR in ps and ps <= {"self", ECR}


def _consistent(facts, value) -> bool:
    """All branch facts that speak about the expected length alone are satisfied by ``value``."""
    for text, pol in facts:
        if not _only_ecr(text):
            continue
        try:
            v = bool(q.fold(ast.parse(text, mode="eval").body, {ECR: value}))
        except Exception:
            continue  # e.g. None < 0: the fact cannot hold for this value
        if v != pol:
            return False
    return True


def _excludes(facts, value) -> bool:
    for text, pol in facts:
        if not _only_ecr(text):
            continue
        try:
            v = bool(q.fold(ast.parse(text, mode="eval").body, {ECR: value}))
        except Exception:
            return True
        if v != pol:
            return True
    return False


def _flatten_add(e):
    if isinstance(e, ast.BinOp) and isinstance(e.op, ast.Add):
        return _flatten_add(e.left) + _flatten_add(e.right)
    return [e]


def _is_stream_close(c):
    return q.is_call(c, "self.stream.close")


CLOSED_CALL = "call:self.stream.closed()"


def check_format_chunk(ck):
    """Exhaustive concrete evaluation of _format_chunk over a small domain of
    (expected remaining, chunk, chunking): whatever the shape of the code
    (aliases, inverted branches, temporaries), the *outcome* must be the
    reference one.  Chunk of 26 bytes distinguishes hex ("1a") from decimal."""
    import re as _re

    fi = F(ck, H1, CONN + "._format_chunk")
    ps = fi.params()
    if len(ps) != 2:
        raise AnalysisError("_format_chunk signature changed: %s" % ps)
    chunk = ps[1]
    cfg = fi.cfg
    resolver = make_resolver(ck.repo, H1, CONN)
    known = {m: None for m in pure_self_methods(ck.repo, H1, CONN)}
    raise_nodes = cfg.stmt_nodes(lambda n: n.kind == "stmt" and isinstance(n.ast, ast.Raise))
    ret_nodes = cfg.stmt_nodes(lambda n: n.kind == "stmt" and isinstance(n.ast, ast.Return))
    consts = module_constants(fi)
    consts.update(class_constants(ck.repo, H1, CONN))
    n_val = 0
    for remaining in (None, 0, 3, 26, 40):
        for data in (b"", b"abc", b"a" * 26):
            for chunking in (False, True):
                n_val += 1

                def hook(n, env):
                    if n.kind in ("stmt", "test") and n.ast is not None and any(_is_stream_close(c) for c in q.calls(n.ast)):
                        env["@closed"] = True
                    return None

                init = dict(consts)
                init.update({ECR: remaining, chunk: data, CHUNKING: chunking, "@closed": False, "@resolve": resolver})
                states = peval(cfg, init, hook=hook, known_self_methods=known, track=lambda t: True)
                label = "remaining=%r len(chunk)=%d chunking=%s" % (remaining, len(data), chunking)
                after = None if remaining is None else remaining - len(data)
                raised = [(r, env) for r in raise_nodes for _f, env in states.get(r.id, [])]
                returned = []
                for r in ret_nodes:
                    for _f, env in states.get(r.id, []):
                        v = try_fold(r.ast.value, env) if r.ast.value is not None else None
                        returned.append((r, env, v))
                if not raised and not returned:
                    raise AnalysisError("_format_chunk: neither return nor raise reached under " + label)
                if after is not None and after < 0:
                    OB(ck, (returned[0][1] if returned else None), "C02.length-guard", fi, fi.node, not returned, "more data than the declared Content-Length is never returned for writing (%s)" % label, construct="over-length data accepted")
                    for r, env in raised:
                        OB(ck, env, "C02.close-before-raise", fi, r.ast, env.get("@closed") is True, "the stream is closed before HTTPOutputError is raised (no further bytes can follow a broken frame; %s)" % label)
                    continue
                OB(ck, (raised[0][1] if raised else None), "C02.length-guard", fi, fi.node, not raised, "data within the declared length (or without a declared length) is accepted (%s)" % label, construct="exact-length write rejected" if after == 0 else "in-bounds write rejected")
                for r, env, v in returned:
                    got = env.get(ECR, UNK)
                    if got is UNK:
                        raise AnalysisError("_format_chunk: remaining length not determined at return under " + label)
                    OB(ck, env, "C02.length-guard", fi, r.ast, got == after and (got is None) == (after is None), "the expected remaining length is decreased by exactly len(chunk) (%s -> %r)" % (label, got),
                          construct="remaining length after write: expected %r" % ("unchanged None" if after is None else "remaining - len(chunk)"))
                    if v is UNK or not isinstance(v, (bytes, type(None))):
                        raise AnalysisError("_format_chunk: returned bytes cannot be evaluated under %s (%s)" % (label, q.unparse(r.ast.value) if r.ast.value is not None else "None"))
                    if chunking and data:
                        ok = isinstance(v, bytes) and _re.fullmatch(rb"0*%x\r\n" % len(data) + _re.escape(data) + rb"\r\n", v, _re.I) is not None
                        OB(ck, env, "C02.chunk-format", fi, r.ast, ok, "while chunking a non-empty chunk is framed as <hex size> CRLF <data> CRLF (%s -> %r)" % (label, v[:12] if isinstance(v, bytes) else v),
                              construct="chunk framing wrong for non-empty data")
                    else:
                        OB(ck, env, "C02.chunk-format", fi, r.ast, v == data, "without chunking, and for an empty chunk (which would be the last-chunk marker), the data is returned unframed (%s -> %r)" % (label, v[:12] if isinstance(v, bytes) else v),
                              construct="data altered although %s" % ("not chunking" if not chunking else "chunk is empty"))
    ck.floor("C02.length-guard", n_val, 30, "valuations of _format_chunk")


# ---------------------------------------------------------------------------
# C. body bytes only through _format_chunk


def fixed_bytes(ck, fi, e):
    """The bytes an expression denotes when it is a fixed protocol string: a literal, or a name / class attribute bound
    to one (``_LAST_CHUNK = b"0\\r\\n\\r\\n"``), possibly through an explaining local.  None if it is not fixed."""
    if e is None:
        return None
    cache = ck.__dict__.setdefault("_c02_consts", {})
    key = (fi.file, fi.qualname.split(".")[0])
    if key not in cache:
        env = module_constants(fi)
        if fi.cls is not None or "." in fi.qualname:
            try:
                env.update(class_constants(ck.repo, fi.file, fi.qualname.split(".")[0]))
            except AnalysisError:
                pass
        cache[key] = env
    v = try_fold(expand_locals(fi, e), cache[key])
    return v if isinstance(v, bytes) else None


def check_stream_writes(ck):
    n_guarded = 0
    for fi0 in ck.repo.direct_methods(H1, CONN):
        if not any(q.is_call(c, "self.stream.write") for c in q.calls(fi0.node)):
            continue
        fi = F(ck, H1, fi0.qualname)
        writes = [c for c in q.calls(fi.node) if q.is_call(c, "self.stream.write")]
        if not writes:
            continue
        params = [p for p in fi.params() if p != "self"]
        body_params = [p for p in params if p == "chunk"]
        tainted = tainted_names(fi, body_params, sanitizers=["_format_chunk"]) if body_params else set()
        for c in writes:
            a = q.arg(c, 0, "data")
            if a is None:
                raise AnalysisError("stream.write without a data argument in %s" % fi.qualname)
            if fixed_bytes(ck, fi, a) is not None:
                continue  # fixed protocol bytes (100-continue, 400, last-chunk) — judged by their own rules
            if fi.name in ("write", "write_headers"):
                raw = body_params and _mentions_outside_sanitizer(a, tainted, "_format_chunk")
                uses_guard = any(q.is_call(x, "self._format_chunk") for x in ast.walk(a)) or any(
                    isinstance(st, (ast.Assign, ast.AugAssign)) and any(q.is_call(x, "self._format_chunk") for x in ast.walk(st.value)) and (q.assigned_paths(st) & q.names_in(a))
                    for st in q.walk_body(fi.node)
                )
                ck.ob("C02.body-through-guard", fi, c, not raw, "body bytes reach stream.write only through _format_chunk (length accounting and chunk framing)")
                ck.ob("C02.body-through-guard", fi, c, uses_guard, "the data written includes _format_chunk(<body>)", construct="stream.write without _format_chunk: " + q.normalize_construct(c, q.local_names(fi.node)))
                n_guarded += 1
            else:
                # positive evidence only: the data handed to the stream comes from the method's own parameters
                if not (set(params) & q.names_in(expand_locals(fi, a))):
                    raise AnalysisError("%s writes %s to the stream: neither fixed bytes nor data of a parameter (unknown idiom)" % (fi.qualname, q.unparse(a)[:50]))
                ck.ob("C02.body-through-guard", fi, c, False, "HTTP1Connection writes variable data to the stream only in write()/write_headers()")
    ck.floor("C02.body-through-guard", n_guarded, 2, "guarded stream.write sites")


def _mentions_outside_sanitizer(e, tainted, sanitizer) -> bool:
    if isinstance(e, ast.Call) and q.call_attr(e) == sanitizer:
        return False
    if isinstance(e, (ast.Name, ast.Attribute)):
        d = q.dotted(e)
        if d is not None:
            return d in tainted
    return any(_mentions_outside_sanitizer(c, tainted, sanitizer) for c in ast.iter_child_nodes(e))


def check_fixed_writes(ck):
    """Fixed protocol bytes written outside the response writer (_read_message):
    an interim 1xx must not follow a response that was already completed, and
    server-only status lines must not be written in client mode.  Otherwise the
    byte stream is no longer 'exactly one response' per request."""
    fi = F(ck, H1, CONN + "._read_message")
    facts = must_facts(fi.cfg)
    n = 0
    for node, c in call_sites(fi, "self.stream.write"):
        a = q.arg(c, 0, "data")
        data = fixed_bytes(ck, fi, a)
        if data is None:
            raise AnalysisError("_read_message writes %s to the stream, which is not a fixed byte string this rule can evaluate" % q.unparse(a)[:50])
        if not data.startswith(b"HTTP/1."):
            ck.ob("C02.fixed-writes", fi, c, False, "fixed bytes written by _read_message are complete status lines")
            continue
        n += 1
        try:
            code = int(data.split(b" ")[1][:3])
        except (IndexError, ValueError):
            raise AnalysisError("cannot read the status code of the fixed response %r" % data)
        f = facts[node.id]
        ck.ob("C02.fixed-writes", fi, c, data.endswith(b"\r\n\r\n") and data.count(b"\r\n\r\n") == 1, "a fixed response is a status line plus an empty header block (%r)" % data)
        ck.ob("C02.fixed-writes", fi, c, holds(f, "self.is_client", False), "status lines are written only in server mode (%d)" % code, construct="fixed %d response not guarded by 'not self.is_client'" % code)
        if 100 <= code < 200:
            ck.ob("C02.fixed-writes", fi, c, holds(f, "self._write_finished", False),
                  "an interim %d response is written only while the final response has not been completed (not self._write_finished)" % code, construct="interim %d response may follow a finished response" % code)
    ck.floor("C02.fixed-writes", n, 2, "fixed status-line writes in _read_message")


# ---------------------------------------------------------------------------
# D. HTTP1Connection.finish


def _is_last_chunk(c, ck=None, fi=None) -> bool:
    from ..rx import Rx

    a = q.arg(c, 0, "data")
    v = fixed_bytes(ck, fi, a) if ck is not None else (a.value if isinstance(a, ast.Constant) and isinstance(a.value, bytes) else None)
    return v is not None and Rx.from_pattern(rb"0+\r\n\r\n").accepts(v)


CLOSED = "self.stream.closed()"


def check_conn_finish(ck):
    """Exhaustive concrete evaluation of HTTP1Connection.finish over
    (expected remaining, stream closed, chunking)."""
    fi = F(ck, H1, CONN + ".finish")
    cfg = fi.cfg
    resolver = make_resolver(ck.repo, H1, CONN)
    known = {m: None for m in pure_self_methods(ck.repo, H1, CONN)}
    writes = [(n, c) for n, c in cfg.find(lambda x: q.is_call(x, "self.stream.write"))]
    for node, c in writes:
        if fixed_bytes(ck, fi, q.arg(c, 0, "data")) is None:
            raise AnalysisError("HTTP1Connection.finish writes %s to the stream, which is not a fixed byte string this rule can evaluate" % q.unparse(q.arg(c, 0, "data"))[:50])
        ck.ob("C02.terminator", fi, c, _is_last_chunk(c, ck, fi), "the only bytes finish() writes are the last-chunk marker 0 CRLF CRLF")
    term_ids = {}
    for node, c in writes:
        term_ids[node.id] = term_ids.get(node.id, 0) + 1
    done_nodes = cfg.stmt_nodes(lambda n: n.kind == "stmt" and isinstance(n.ast, ast.Assign) and "self._write_finished" in q.assigned_paths(n.ast) and isinstance(n.ast.value, ast.Constant) and n.ast.value.value is True)
    raise_nodes = cfg.stmt_nodes(lambda n: n.kind == "stmt" and isinstance(n.ast, ast.Raise))
    done_ids = {n.id for n in done_nodes}
    consts = module_constants(fi)
    consts.update(class_constants(ck.repo, H1, CONN))
    n_val = 0
    for remaining in (None, 0, 4):
        for closed in (False, True):
            for chunking in (False, True):
                n_val += 1
                snaps = []

                def hook(n, env, snaps=snaps):
                    if n.kind in ("stmt", "test") and n.ast is not None and any(_is_stream_close(c) for c in q.calls(n.ast)):
                        env["@closed-by-finish"] = True
                        env[CLOSED_CALL] = True
                    if n.id in term_ids:
                        env["@terms"] = env.get("@terms", 0) + term_ids[n.id]
                    if n.id in done_ids:
                        snaps.append(dict(env))
                    return None

                init = dict(consts)
                init.update({ECR: remaining, CLOSED_CALL: closed, CHUNKING: chunking, "@terms": 0, "@closed-by-finish": False, "@resolve": resolver})
                states = peval(cfg, init, hook=hook, known_self_methods=known, track=lambda t: True)
                label = "remaining=%r stream_closed=%s chunking=%s" % (remaining, closed, chunking)
                raised = [(r, env) for r in raise_nodes for _f, env in states.get(r.id, [])]
                short = remaining not in (None, 0) and not closed
                if not raised and not snaps:
                    raise AnalysisError("HTTP1Connection.finish: neither the completion mark nor a raise is reached under " + label)
                if short:
                    OB(ck, (snaps[0] if snaps else None), "C02.short-body", fi, fi.node, not snaps, "a response with declared bytes missing on an open stream is not marked finished (%s)" % label, construct="finish with bytes missing")
                    for r, env in raised:
                        OB(ck, env, "C02.close-before-raise", fi, r.ast, env.get("@closed-by-finish") is True, "the stream is closed before HTTPOutputError is raised for a short body (%s)" % label)
                        OB(ck, env, "C02.short-body", fi, r.ast, env.get("@terms", 0) == 0, "no last-chunk marker precedes the short-body error (%s)" % label, construct="last-chunk before short-body check")
                    continue
                OB(ck, (raised[0][1] if raised else None), "C02.short-body", fi, fi.node, not raised, "a complete body (or an already closed stream) is not rejected (%s)" % label, construct="complete body rejected")
                for env in snaps:
                    terms = env.get("@terms", 0)
                    want = 1 if (chunking and not closed) else 0
                    OB(ck, env, "C02.terminator", fi, fi.node, terms == want, "the last-chunk marker is written exactly when the body is chunk-coded and the stream open (%s: written %d time(s))" % (label, terms),
                          construct="last-chunk marker count %s: chunking=%s closed=%s" % ("too low" if terms < want else "too high", chunking, closed))
    ck.floor("C02.short-body", n_val, 12, "valuations of HTTP1Connection.finish")
    ck.floor("C02.short-body", len(done_nodes), 1, "'_write_finished = True' in finish")


# ---------------------------------------------------------------------------
# E. RequestHandler.finish

RH = "RequestHandler"
SC = "self._status_code"
HW = "self._headers_written"
HDRS = "self._headers"
WB = "self._write_buffer"
METHOD = "self.request.method"


def _const_arg(c, i, name=None):
    a = q.arg(c, i, name if name is not None else ("name" if i == 0 else None))
    return a.value if isinstance(a, ast.Constant) else None


def _handler_effects(ck):
    """Effects of the RequestHandler helper methods finish()/flush() call, each
    verified against the helper's own body (what it may store to)."""

    def need_writes(method, allowed):
        sw = self_writes(ck.repo, WEB, RH, method)
        if sw is None or not sw <= set(allowed):
            raise AnalysisError("RequestHandler.%s may store to %s; the model of finish()/flush() assumes at most %s" % (method, sorted(sw) if sw is not None else "<unbounded>", sorted(allowed)))

    need_writes("set_header", {"_headers"})
    need_writes("add_header", {"_headers"})
    need_writes("clear_header", {"_headers"})
    need_writes("set_status", {"_status_code", "_reason"})
    need_writes("set_etag_header", {"_headers"})
    need_writes("check_etag_header", set())
    has_crh = ck.repo.has_func(WEB, RH + "._clear_representation_headers")  # may have been inlined into finish()
    if has_crh:
        need_writes("_clear_representation_headers", {"_headers"})
    need_writes("write", {"_write_buffer", "_headers"})
    cleared = set(q.literal_strs(F(ck, WEB, RH + "._clear_representation_headers").node)) if has_crh else set()

    def _name_of(env, c):
        a = q.arg(c, 0, "name")
        v = try_fold(a, env) if a is not None else UNK
        return v if isinstance(v, str) else None

    def set_header(env, c):
        name = _name_of(env, c)
        cur = env.get(HDRS)
        if name is None:
            env[HDRS] = UNK
            return
        if isinstance(cur, frozenset):
            env[HDRS] = cur | {name}
        env["@set:" + name] = True

    def clear_header(env, c):
        name = _name_of(env, c)
        cur = env.get(HDRS)
        if name is None:
            env[HDRS] = UNK
        elif isinstance(cur, frozenset):
            env[HDRS] = cur - {name}

    def set_status(env, c):
        a = q.arg(c, 0, "status_code")
        v = try_fold(a, env) if a is not None else UNK
        env[SC] = v
        env["@framework-status"] = True

    def set_etag(env, c):
        cur = env.get(HDRS)
        if isinstance(cur, frozenset):
            env[HDRS] = cur | {"Etag"}

    def clear_repr(env, c):
        cur = env.get(HDRS)
        if isinstance(cur, frozenset):
            env[HDRS] = cur - cleared

    def write(env, c):
        env[WB] = UNK
        cur = env.get(HDRS)
        if isinstance(cur, frozenset):
            env[HDRS] = cur | {"Content-Type"}

    extra_pure = {m: None for m in pure_self_methods(ck.repo, WEB, RH)}
    return {
        **extra_pure,
        "set_header": set_header, "add_header": set_header, "clear_header": clear_header, "set_status": set_status,
        "set_etag_header": set_etag, "check_etag_header": None, "_clear_representation_headers": clear_repr, "write": write,
    }, cleared


def _buffer_length_expr(fi, e, depth=2) -> bool:
    """``e`` denotes the total byte length of self._write_buffer:
    sum(len(p) for p in self._write_buffer) | len(b"".join(self._write_buffer)) |
    a local assigned exactly once from such an expression."""
    if isinstance(e, ast.Name) and depth > 0:
        defs = [st for st in q.walk_body(fi.node) if isinstance(st, (ast.Assign, ast.AnnAssign)) and e.id in q.assigned_paths(st)]
        if len(defs) == 1 and defs[0].value is not None:
            return _buffer_length_expr(fi, defs[0].value, depth - 1)
        return False
    if q.is_call(e, "sum") and len(e.args) == 1 and isinstance(e.args[0], (ast.GeneratorExp, ast.ListComp)):
        g = e.args[0]
        if len(g.generators) == 1 and not g.generators[0].ifs and q.dotted(g.generators[0].iter) == WB and isinstance(g.generators[0].target, ast.Name):
            v = g.generators[0].target.id
            return q.is_call(g.elt, "len") and len(g.elt.args) == 1 and q.dotted(g.elt.args[0]) == v
        return False
    if q.is_call(e, "len") and len(e.args) == 1:
        j = e.args[0]
        return q.is_call(j, ".join") and isinstance(j.func.value, ast.Constant) and j.func.value.value == b"" and len(j.args) == 1 and q.dotted(j.args[0]) == WB
    return False


def check_handler_finish(ck):
    fi = F(ck, WEB, RH + ".finish")
    ps = fi.params()
    chunk = ps[1] if len(ps) > 1 else None
    effects, cleared = _handler_effects(ck)
    if ck.repo.has_func(WEB, RH + "._clear_representation_headers"):
      ck.ob("C02.finish-bodiless", F(ck, WEB, RH + "._clear_representation_headers"), None, "Content-Length" not in cleared and "Transfer-Encoding" not in cleared,
            "_clear_representation_headers does not remove framing headers", construct="framing header cleared")
    code_paths = [SC]
    classes = []
    for c in partition(STATUS_DOMAIN, predicates_on(fi.node, code_paths), code_paths):
        sub = {}
        for x in c:
            sub.setdefault(bodiless_group("GET", x), []).append(x)
        classes.extend(sub.values())
    classes = refine_by_literals(classes, callee_literals(ck.repo, WEB, RH, fi, depth=1) & {v for v in range(99, 601)})
    ck.note("RequestHandler.finish: status classes " + ", ".join(class_label(c) for c in classes))
    consts_rh = module_constants(fi)
    consts_rh.update(class_constants(ck.repo, WEB, RH))
    flush_calls = call_sites(fi, "self.flush")
    ck.floor("C02.finish-content-length", len(flush_calls), 1, "self.flush calls in RequestHandler.finish")
    flush_ids = {n.id for n, _ in flush_calls}
    results = []

    def hook(n, env):
        if n.kind == "stmt" and isinstance(n.ast, ast.Assert) and WB in q.paths_in(n.ast.test):
            # whatever its wording (not buf / len(buf) == 0 / buf == []): true for the empty buffer, false otherwise
            t = expand_locals(fi, n.ast.test)
            if try_fold(t, {WB: ()}) is True and try_fold(t, {WB: (b"x",)}) is False:
                env["@asserted-empty"] = True
            elif try_fold(t, {WB: ()}) is UNK:
                env["@asserted-empty"] = "?"
        if n.id in flush_ids:
            results.append(dict(env))
        return None

    n_val = 0
    for method in ("GET", "HEAD", "POST"):
        for cls in classes:
            for hw in (False, True):
                for has_cl in (False, True):
                    del results[:]
                    init = dict(consts_rh)
                    init.update({SC: cls[0], METHOD: method, HW: hw, HDRS: frozenset(["Content-Type", "Content-Length"] if has_cl else ["Content-Type"]),
                                 "self._finished": False, WB: UNK, "@resolve": make_resolver(ck.repo, WEB, RH)})
                    if chunk:
                        init[chunk] = None
                    eff = dict(effects)
                    eff["flush"] = None
                    peval(fi.cfg, init, hook=hook, known_self_methods=eff, track=lambda t: True)
                    if not results:
                        raise AnalysisError("RequestHandler.finish never reaches self.flush() for %s %s" % (method, class_label(cls)))
                    n_val += 1
                    label = "method=%s status_in=%s headers_written=%s Content-Length_in=%s" % (method, class_label(cls), hw, has_cl)
                    seen_keys = set()
                    for env in results:
                        code = env.get(SC, UNK)
                        hdrs = env.get(HDRS, UNK)
                        if code is UNK or not isinstance(code, int) or not isinstance(hdrs, frozenset):
                            raise AnalysisError("RequestHandler.finish: status/headers not determined at flush under " + label)
                        added = bool(env.get("@set:Content-Length"))
                        key = (code, "Content-Length" in hdrs, added, env.get(WB) == (), bool(env.get("@asserted-empty")), bool(env.get("@framework-status")))
                        if key in seen_keys:
                            continue
                        seen_keys.add(key)
                        desc = "%s -> status=%d Content-Length=%s (added by finish: %s)" % (label, code, "Content-Length" in hdrs, added)
                        if hw:
                            OB(ck, env, "C02.finish-content-length", fi, fi.node, not added, "after the headers were flushed finish() no longer touches Content-Length: " + desc, construct="Content-Length set after headers were written")
                            continue
                        if bodiless_status(code):
                            OB(ck, env, "C02.finish-bodiless", fi, fi.node, not added, "no Content-Length is computed for a 1xx/204/304 response: " + desc,
                                  construct="Content-Length computed for bodiless status %s" % bodiless_group("GET", code))
                            if env.get("@asserted-empty") == "?":
                                raise AnalysisError("RequestHandler.finish: an assertion about the write buffer cannot be evaluated")
                            empty = env.get(WB) == () or (bool(env.get("@asserted-empty")) and not env.get("@framework-status"))
                            OB(ck, env, "C02.finish-bodiless", fi, fi.node, empty, "the unflushed buffer is empty for a 1xx/204/304 response (asserted for an application-chosen status, cleared when finish() itself substitutes 304): " + desc,
                                  construct="buffer not emptied for bodiless status %s (substituted=%s)" % (bodiless_group("GET", code), bool(env.get("@framework-status"))))
                        else:
                            OB(ck, env, "C02.finish-content-length", fi, fi.node, "Content-Length" in hdrs, "an unflushed response with a body-capable status always carries Content-Length: " + desc,
                                  construct="no Content-Length for unflushed response")
    ck.floor("C02.finish-content-length", n_val, 24, "valuations of RequestHandler.finish")
    n_cl = 0
    for c in q.calls(fi.node):
        if q.is_call(c, "self.set_header") and _const_arg(c, 0) == "Content-Length":
            n_cl += 1
            v = q.arg(c, 1, "value")
            if v is None:
                raise AnalysisError("RequestHandler.finish: Content-Length set without a value argument")
            # evaluate finish() on a concrete buffer: any formulation of "total byte length" (expression, explaining
            # locals, an accumulating loop) gives 5 here
            seen_cl = []

            def cl_hook(n, env, c=c, seen_cl=seen_cl):
                if n.kind == "stmt" and any(x is c for x in ast.walk(n.ast)):
                    buf = env.get(WB, UNK)
                    val = try_fold(q.arg(c, 1, "value"), env)
                    if isinstance(buf, tuple) and val is not UNK:
                        # normalise to "the value for the sample buffer": right iff it equals the byte length of the
                        # buffer as it is at this point
                        seen_cl.append(5 if str(val) == str(sum(len(p_) for p_ in buf)) else ("wrong", val, buf))
                    else:
                        seen_cl.append(UNK)
                return None

            init = dict(consts_rh)
            init.update({SC: 200, METHOD: "GET", HW: False, HDRS: frozenset(["Content-Type"]), "self._finished": False, WB: (b"ab", b"cde"), "@resolve": make_resolver(ck.repo, WEB, RH)})
            if chunk:
                init[chunk] = None
            eff = dict(effects)
            eff["flush"] = None
            peval(fi.cfg, init, hook=cl_hook, known_self_methods=eff, track=lambda t: True)
            vals = {x for x in seen_cl}
            wrong = [x for x in vals if isinstance(x, tuple)]
            if wrong:
                got = wrong[0][1]
            elif not vals or UNK in vals:
                got = try_fold(expand_locals(fi, v), {WB: (b"ab", b"cde")})
            else:
                got = 5
            if got is UNK:
                raise AnalysisError("RequestHandler.finish: the Content-Length value %s cannot be evaluated on a sample buffer" % q.unparse(v)[:60])
            ck.ob("C02.finish-content-length", fi, c, got in (5, "5", b"5"), "the computed Content-Length is the total byte length of the unflushed buffer (what a GET would carry); on the sample buffer (b'ab', b'cde') it evaluates to %r" % (got,))
    ck.floor("C02.finish-content-length", n_cl, 1, "Content-Length computations in RequestHandler.finish")
    # ordering: flush (which emits headers+body) precedes connection.finish()
    cf_ids = {n.id for n, _c in method_calls(fi, "finish", "self.request.connection")}
    n = require_before(ck, "C02.finish-content-length", fi, lambda n: n.id in cf_ids, node_calls("self.flush"), "the buffer is flushed before the connection is told the response is complete")
    ck.floor("C02.finish-content-length", n, 1, "connection.finish() calls")


def check_finish_order(ck):
    """finish(chunk): the final chunk is buffered before anything is computed
    from the buffer (ETag, Content-Length) and before the flush; the connection
    is told the response is complete on every path after the flush."""
    fi = F(ck, WEB, RH + ".finish")
    ps = fi.params()
    if len(ps) < 2:
        raise AnalysisError("RequestHandler.finish lost its chunk parameter")
    chunk = ps[1]
    cfg = fi.cfg
    writes = {n.id for n, c in call_sites(fi, "self.write") if q.arg(c, 0, "chunk") is not None and q.dotted(q.arg(c, 0, "chunk")) == chunk}
    if not writes:
        used = [x for x in q.walk_body(fi.node) if isinstance(x, ast.Name) and x.id == chunk and isinstance(x.ctx, ast.Load)]
        in_tests = [x for t in fi.cfg.stmt_nodes(lambda n: n.kind == "test") for x in ast.walk(t.ast) if isinstance(x, ast.Name) and x.id == chunk]
        if len(used) > len(in_tests):
            raise AnalysisError("RequestHandler.finish uses its chunk in a way other than self.write(chunk): unknown idiom")
        ck.ob("C02.finish-order", fi, fi.node, absent(fi, "self.write(chunk)"), "finish(chunk) hands the chunk to write()", construct="finish(chunk) never buffers the chunk")
    none_fact = "%s is None" % chunk
    users = []
    for n, c in cfg.find(lambda x: isinstance(x, ast.Call)):
        if q.is_call(c, "self.flush", "self.set_etag_header", "self.check_etag_header") or (q.is_call(c, "self.set_header") and _const_arg(c, 0) == "Content-Length"):
            users.append((n, c))
    for n in cfg.stmt_nodes(lambda n: n.kind in ("stmt", "test") and WB in q.paths_in(n.ast) and not any(n.id == u.id for u, _ in users)):
        if n.id not in writes:
            users.append((n, n.ast))

    def transfer(n, val):
        return True if n.id in writes else val

    seen = explore(cfg, False, transfer, lambda t: t == none_fact, follow_exc=False)
    k = 0
    for n, site in users:
        for facts, wrote in sorted(seen.get(n.id, ()), key=repr):
            k += 1
            ck.ob("C02.finish-order", fi, site, wrote or (none_fact, True) in facts, "the chunk passed to finish() is in the buffer before the buffer is hashed, measured or flushed",
                  construct="buffer used before finish()'s chunk was written: " + q.normalize_construct(site, q.local_names(fi.node))[:100])
    ck.floor("C02.finish-order", k, 3, "uses of the write buffer in finish")
    # connection.finish() after the flush on every normal path
    fl = {n.id for n, _ in call_sites(fi, "self.flush")}
    cf = {n.id for n, _ in method_calls(fi, "finish", "self.request.connection")}

    def t2(n, val):
        flushed, done = val
        if n.id in fl:
            flushed = True
        if n.id in cf:
            done = done + 1 if flushed else -99
        return (flushed, min(done, 2))

    seen2 = explore(cfg, (False, 0), t2, lambda t: False, follow_exc=False)
    for _f, (flushed, done) in sorted(seen2.get(cfg.exit.id, ()), key=repr):
        ck.ob("C02.finish-order", fi, fi.node, flushed and done == 1, "every normal path through finish() flushes and then completes the connection exactly once (flushed=%s, connection.finish=%s)" % (flushed, done),
              construct="finish path: flushed=%s connection.finish count=%s" % (flushed, done))


def _resets_buffer(n):
    """The statement leaves self._write_buffer empty (``= []`` — also as one element of a tuple assignment — or ``.clear()``)."""
    if n.kind != "stmt":
        return False
    st = n.ast
    if isinstance(st, (ast.Assign, ast.AnnAssign)) and st.value is not None:
        tgts = st.targets if isinstance(st, ast.Assign) else [st.target]
        for t in tgts:
            if q.dotted(t) == WB and isinstance(st.value, ast.List) and not st.value.elts:
                return True
            if isinstance(t, (ast.Tuple, ast.List)) and isinstance(st.value, (ast.Tuple, ast.List)) and len(t.elts) == len(st.value.elts):
                for x, v in zip(t.elts, st.value.elts):
                    if q.dotted(x) == WB and isinstance(v, ast.List) and not v.elts:
                        return True
    return any(q.is_call(c, WB + ".clear") for c in q.calls(st))


def check_buffer_consumed(ck):
    """flush(): what is sent comes from the write buffer, and the buffer is emptied
    (before the data is handed on) on every path, so a chunk is sent exactly once."""
    fi = F(ck, WEB, RH + ".flush")
    cfg = fi.cfg
    facts = event_facts(fi, {"reset": _resets_buffer}, cond_facts=False)
    derived = tainted_names(fi, [WB])
    n = 0
    for node, c in method_calls(fi, "write_headers", CONNECTION) + method_calls(fi, "write", CONNECTION):
        n += 1
        a = q.arg(c, 2, "chunk") if q.call_attr(c) == "write_headers" else q.arg(c, 0, "chunk")
        ck.ob("C02.buffer-consumed", fi, c, ("@reset", True) in facts[node.id], "the write buffer was emptied on every path before its content is handed to the connection", construct="buffer not emptied before writing: " + q.call_attr(c))
        ck.ob("C02.buffer-consumed", fi, c, a is not None and mentions(a, derived), "the data handed to the connection is what was taken out of the write buffer", construct="written data not taken from the write buffer: " + q.call_attr(c))
    ck.floor("C02.buffer-consumed", n, 2, "connection writes in flush")
    ck.ob("C02.buffer-consumed", fi, fi.node, ("@reset", True) in facts[cfg.exit.id], "on every normal path flush() leaves the write buffer empty", construct="write buffer not emptied on some path")
    # the buffer is read before it is emptied (otherwise the data is lost)
    k = 0
    for node in cfg.stmt_nodes(lambda m: m.kind in ("stmt", "test", "for") and any(isinstance(x, ast.Attribute) and isinstance(x.ctx, ast.Load) and q.dotted(x) == WB for r in ([m.ast] if m.kind != "for" else [m.ast.iter]) for x in q.walk_local(r))):
        k += 1
        ck.ob("C02.buffer-consumed", fi, node.ast if node.kind != "for" else node.ast.iter, ("@reset", True) not in facts[node.id], "the buffer is read before it is emptied")
    ck.ob("C02.buffer-consumed", fi, fi.node, k >= 1 or absent(fi, "a read of the write buffer"), "flush reads the write buffer", construct="flush does not read the write buffer")


def check_error_reset(ck):
    """An error response replaces what the handler had prepared: ``clear()`` must
    drop the unflushed output and reset status/headers on every path, and
    ``send_error`` must call it before it builds the error response (when the
    headers are not out yet).  Otherwise 'its error response' would carry stale
    body bytes / headers of the abandoned response."""
    cl = F(ck, WEB, RH + ".clear")
    cfg = cl.cfg

    def hook(n, env):
        if n.kind == "stmt" and isinstance(n.ast, (ast.Assign, ast.AnnAssign)) and n.ast.value is not None and HDRS in q.assigned_paths(n.ast):
            vals = n.ast.value.elts if isinstance(n.ast.value, ast.Tuple) else [n.ast.value]
            env["@fresh-headers"] = any(isinstance(v, ast.Call) and q.call_attr(v) == "HTTPHeaders" for v in vals)
        return None

    # evaluated on a handler that holds an abandoned response: unflushed bytes, an error-ish status, old headers
    init = module_constants(cl)
    init.update(class_constants(ck.repo, WEB, RH))
    init.update({WB: (b"stale",), SC: 503, "@fresh-headers": False, "@resolve": make_resolver(ck.repo, WEB, RH)})
    known = {m: None for m in pure_self_methods(ck.repo, WEB, RH)}
    known["set_default_headers"] = None  # application hook: documented to set headers only
    states = peval(cfg, init, hook=hook, known_self_methods=known, track=lambda t: True)
    exits = states.get(cfg.exit.id, [])
    if not exits:
        raise AnalysisError("RequestHandler.clear has no normal exit")
    for key in sorted({(repr(env.get(WB, UNK)), repr(env.get(SC, UNK)), env.get("@fresh-headers"), env.get("@partial")) for _f, env in exits}):
        env = next(e for _f, e in exits if (repr(e.get(WB, UNK)), repr(e.get(SC, UNK)), e.get("@fresh-headers"), e.get("@partial")) == key)
        buf, sc = env.get(WB, UNK), env.get(SC, UNK)
        if buf is UNK or sc is UNK:
            raise AnalysisError("RequestHandler.clear: the write buffer / status after clear() cannot be evaluated")
        OB(ck, env, "C02.error-reset", cl, cl.node, buf == (), "clear() empties the write buffer on every path (unflushed output of the abandoned response is discarded)", construct="clear() keeps the write buffer")
        OB(ck, env, "C02.error-reset", cl, cl.node, env.get("@fresh-headers") is True, "clear() replaces the header set on every path", construct="clear() keeps the headers")
        OB(ck, env, "C02.error-reset", cl, cl.node, sc == 200, "clear() resets the status code to 200 on every path", construct="clear() keeps the status")
    se = F(ck, WEB, RH + ".send_error")
    clears = {n.id for n, _c in call_sites(se, "self.clear")}
    builds = se.cfg.stmt_nodes(lambda n: n.kind in ("stmt", "test") and n.ast is not None and any(q.is_call(c, "self.set_status", "self.write_error") for c in q.calls(n.ast)))
    if not builds:
        raise AnalysisError("send_error: set_status/write_error call sites not found")
    f2 = event_facts(se, {"cleared": lambda n: n.id in clears}, cond_facts=False)
    for b in builds:
        ck.ob("C02.error-reset", se, b.ast, ("@cleared", True) in f2[b.id], "send_error discards the prepared response (clear()) before it builds the error response")
    # the handler starts from the same clean state: __init__ goes through clear()
    init = F(ck, WEB, RH + ".__init__")
    ck.ob("C02.error-reset", init, init.node, len(call_sites(init, "self.clear")) >= 1 or bool(q.stores_to(init.node, WB)) or absent(init, "initialisation of the write buffer"), "a new handler starts with an empty write buffer", construct="__init__ does not initialise the response state")


# ---------------------------------------------------------------------------
# F. RequestHandler.flush

CONNECTION = "self.request.connection"


def check_handler_flush(ck):
    fi = F(ck, WEB, RH + ".flush")
    effects, _ = _handler_effects(ck)
    wh_calls = method_calls(fi, "write_headers", CONNECTION)
    w_calls = method_calls(fi, "write", CONNECTION)
    ck.floor("C02.headers-once", len(wh_calls), 1, "connection.write_headers calls in flush")
    ck.floor("C02.head-discard", len(w_calls), 1, "connection.write calls in flush")
    wh_ids = {n.id: c for n, c in wh_calls}
    w_ids = {n.id: c for n, c in w_calls}
    for method in ("GET", "HEAD", "POST"):
        for hw in (False, True):
            obs = []

            def hook(n, env, obs=obs):
                if n.id in wh_ids:
                    c = wh_ids[n.id]
                    env["@wh"] = min(env.get("@wh", 0) + 1, 2)
                    a = q.arg(c, 2, "chunk")
                    obs.append(("wh", c, env.get(HW, UNK), try_fold(a, env) if a is not None else None, env.get("@partial")))
                if n.id in w_ids:
                    c = w_ids[n.id]
                    env["@w"] = min(env.get("@w", 0) + 1, 2)
                    a = q.arg(c, 0, "chunk")
                    obs.append(("w", c, env.get(HW, UNK), try_fold(a, env) if a is not None else None, env.get("@partial")))
                return None

            init = module_constants(fi)
            init.update(class_constants(ck.repo, WEB, RH))
            init.update({METHOD: method, HW: hw, "@wh": 0, "@w": 0, "@resolve": make_resolver(ck.repo, WEB, RH)})
            states = peval(fi.cfg, init, hook=hook, known_self_methods=effects, track=lambda t: True)
            label = "method=%s headers_written=%s" % (method, hw)
            for kind, c, hwv, data, partial in obs:
                env = {"@partial": partial}
                if kind == "wh":
                    OB(ck, env, "C02.headers-once", fi, c, hwv is True and not hw, "write_headers only when no headers were sent, with _headers_written already set (%s)" % label)
                else:
                    OB(ck, env, "C02.headers-once", fi, c, hw, "body-only writes only after the headers were sent (%s)" % label)
                if method == "HEAD":
                    OB(ck, env, "C02.head-discard", fi, c, data == b"", "for HEAD no body bytes are handed to the connection (%s; data=%r)" % (label, data))
            exits = states.get(fi.cfg.exit.id, [])
            if not exits:
                raise AnalysisError("RequestHandler.flush has no normal exit under " + label)
            agg = {(env.get("@wh"), env.get("@w"), env.get("@partial")) for _f, env in exits}
            for wh, w, partial in sorted(agg, key=repr):
                env = {"@partial": partial}
                if not hw:
                    ok = wh == 1 and w == 0
                    OB(ck, env, "C02.headers-once", fi, fi.node, ok, "first flush emits the header block exactly once, body attached (%s: write_headers=%d write=%d)" % (label, wh, w), construct="first flush: write_headers=%d write=%d" % (wh, w))
                else:
                    ok = wh == 0 and (w == 1 if method != "HEAD" else w == 0)
                    OB(ck, env, "C02.headers-once", fi, fi.node, ok, "later flushes write body data only, nothing for HEAD (%s: write_headers=%d write=%d)" % (label, wh, w),
                          construct="later flush method=%s: write_headers=%d write=%d" % ("HEAD" if method == "HEAD" else "non-HEAD", wh, w))


def run(ck):
    ck.rule("C02.framing", "write_headers (server): at every normal exit, for every valuation, the response is bodiless, chunked, carries Content-Length, or _disconnect_on_finish is set")
    ck.rule("C02.bodiless-not-chunked", "responses to HEAD and with status 1xx/204/304 are never chunk-coded")
    ck.rule("C02.zero-length", "for HEAD/1xx/204/304 the expected content length is 0, so that body bytes are rejected by the length guard")
    ck.rule("C02.length-armed", "a declared Content-Length arms _expected_content_remaining; none leaves it None")
    ck.rule("C02.chunking-consistent", "chunked coding excludes Content-Length, is offered only to HTTP/1.1, and coincides with the Transfer-Encoding header")
    ck.rule("C02.length-guard", "_format_chunk: every return of data is preceded by the decrement by len(chunk) and a check rejecting exactly the negative remainders")
    ck.rule("C02.close-before-raise", "_format_chunk/finish close the stream before raising HTTPOutputError")
    ck.rule("C02.chunk-format", "_format_chunk: hex size CRLF data CRLF, only when chunking and only for non-empty data; non-empty data is never left unframed while chunking")
    ck.rule("C02.body-through-guard", "HTTP1Connection hands variable data to stream.write only in write()/write_headers() and the body only through _format_chunk")
    ck.rule("C02.fixed-writes", "_read_message writes fixed status lines only in server mode, and an interim 1xx only while the final response is not yet complete")
    ck.rule("C02.short-body", "HTTP1Connection.finish: a response with declared bytes missing is not marked finished (stream closed, error raised), a complete one is")
    ck.rule("C02.terminator", "HTTP1Connection.finish: the last-chunk marker is written exactly when the body is chunk-coded (and the stream open), and nothing else")
    ck.rule("C02.finish-content-length", "RequestHandler.finish: an unflushed body-capable response gets Content-Length = byte length of the unflushed buffer; flushed before connection.finish()")
    ck.rule("C02.finish-bodiless", "RequestHandler.finish: for 1xx/204/304 no Content-Length is computed and the buffer is empty (cleared when finish substitutes 304)")
    ck.rule("C02.finish-order", "RequestHandler.finish buffers its chunk before the buffer is hashed/measured/flushed, and completes the connection exactly once after the flush")
    ck.rule("C02.buffer-consumed", "RequestHandler.flush removes from the write buffer what it sends")
    ck.rule("C02.error-reset", "clear() drops the unflushed output and resets headers/status on every path; send_error calls it before building the error response")
    ck.rule("C02.headers-once", "RequestHandler.flush: the header block is emitted exactly once, with _headers_written set before; later flushes write body only")
    ck.rule("C02.head-discard", "RequestHandler.flush: for HEAD the chunk is emptied on both branches")
    check_write_headers(ck)
    check_format_chunk(ck)
    check_stream_writes(ck)
    check_fixed_writes(ck)
    check_conn_finish(ck)
    check_handler_finish(ck)
    check_finish_order(ck)
    check_buffer_consumed(ck)
    check_error_reset(ck)
    check_handler_flush(ck)



def _in(rel, qn, edit):
    return lambda repo: mutate(repo, rel, qn, edit)


def _u(n):
    return ast.unparse(n)


def _server_chunking(edit):
    """Apply ``edit`` to the value of the server-branch assignment of _chunking_output."""

    def e(root):
        for st in ast.walk(root):
            if isinstance(st, ast.Assign) and CHUNKING in q.assigned_paths(st) and "HTTP/1.1" in q.literal_strs(st.value):
                holder = ast.Expr(value=st.value)
                ok = edit(holder)
                st.value = holder.value
                return ok
        return False

    return e


def _is_cmp(n, op, text):
    return isinstance(n, ast.Compare) and len(n.ops) == 1 and isinstance(n.ops[0], op) and text in _u(n)


TRUE = lambda n: ast.Constant(value=True)

MUTANTS = [
    ("304 dropped from the zero-length set", _in(H1, CONN + ".write_headers", replace_expr(lambda n: isinstance(n, ast.BoolOp) and isinstance(n.op, ast.Or) and 304 in q.literal_ints(n) and "HEAD" in q.literal_strs(n), lambda n: n.values[0])), "C02.zero-length"),
    ("204 dropped from the zero-length set (F3 re-introduced)", _in(H1, CONN + ".write_headers", lambda root: _zero_set_edit(root, lambda t: replace_expr(lambda n: isinstance(n, ast.Tuple) and 204 in q.literal_ints(n), lambda n: ast.Tuple(elts=[ast.Constant(value=304)], ctx=ast.Load()))(t))), "C02.zero-length"),
    ("1xx dropped from the zero-length set (F3 re-introduced)", _in(H1, CONN + ".write_headers", lambda root: _zero_set_edit(root, lambda t: replace_expr(lambda n: isinstance(n, ast.Compare) and len(n.ops) == 2, lambda n: ast.Constant(value=False))(t))), "C02.zero-length"),
    ("undelimited body keeps the connection (F4 re-introduced)", _in(H1, CONN + ".write_headers", remove_stmts(lambda st: isinstance(st, ast.If) and len(st.body) == 1 and isinstance(st.body[0], ast.Assign) and DOF in q.assigned_paths(st.body[0]))), "C02.framing"),
    ("undelimited-body close decided by 'HTTP/1.0' instead of 'not chunking' (seeded C02-adv4: HTTP/1.2+ left open)", _in(H1, CONN + ".write_headers", lambda root: _close_only_for_10(root)), "C02.framing"),
    ("204/304 no longer excluded from chunking", _in(H1, CONN + ".write_headers", _server_chunking(replace_expr(lambda n: _is_cmp(n, ast.NotIn, "304"), TRUE))), "C02.bodiless-not-chunked"),
    ("HEAD no longer excluded from chunking", _in(H1, CONN + ".write_headers", _server_chunking(replace_expr(lambda n: _is_cmp(n, ast.NotEq, "HEAD"), TRUE))), "C02.bodiless-not-chunked"),
    ("chunking although Content-Length is present", _in(H1, CONN + ".write_headers", _server_chunking(replace_expr(lambda n: _is_cmp(n, ast.NotIn, "Content-Length"), TRUE))), "C02.chunking-consistent"),
    ("chunking offered to HTTP/1.0", _in(H1, CONN + ".write_headers", _server_chunking(replace_expr(lambda n: _is_cmp(n, ast.Eq, "HTTP/1.1"), TRUE))), "C02.chunking-consistent"),
    ("Transfer-Encoding header not emitted", _in(H1, CONN + ".write_headers", remove_stmts(lambda st: isinstance(st, ast.If) and q.dotted(st.test) == CHUNKING)), "C02.chunking-consistent"),
    ("declared Content-Length does not arm the guard", _in(H1, CONN + ".write_headers", replace_expr(lambda n: q.is_call(n, "parse_int"), lambda n: ast.Constant(value=None))), "C02.length-armed"),
    ("over-length check removed from _format_chunk", _in(H1, CONN + "._format_chunk", remove_stmts(lambda st: isinstance(st, ast.If) and "< 0" in _u(st.test))), "C02.length-guard"),
    ("over-length check rejects exact-length writes (< -> <=)", _in(H1, CONN + "._format_chunk", replace_expr(lambda n: _is_cmp(n, ast.Lt, ECR), lambda n: ast.Compare(left=n.left, ops=[ast.LtE()], comparators=n.comparators))), "C02.length-guard"),
    ("decrement by 1 instead of len(chunk)", _in(H1, CONN + "._format_chunk", replace_stmt(lambda st: isinstance(st, ast.AugAssign), lambda st: [parse_stmt(ECR + " -= 1")])), "C02.length-guard"),
    ("stream left open on over-length", _in(H1, CONN + "._format_chunk", remove_stmts(lambda st: "self.stream.close()" in _u(st) and isinstance(st, ast.Expr))), "C02.close-before-raise"),
    ("empty chunk framed while chunking (premature last-chunk)", _in(H1, CONN + "._format_chunk", replace_expr(lambda n: isinstance(n, ast.BoolOp) and CHUNKING in _u(n), lambda n: n.values[0])), "C02.chunk-format"),
    ("decimal chunk size", _in(H1, CONN + "._format_chunk", replace_expr(lambda n: isinstance(n, ast.Constant) and n.value == "%x", lambda n: ast.Constant(value="%d"))), "C02.chunk-format"),
    ("write() bypasses _format_chunk", _in(H1, CONN + ".write", replace_expr(lambda n: q.is_call(n, "self._format_chunk"), lambda n: n.args[0])), "C02.body-through-guard"),
    ("write_headers appends the raw chunk", _in(H1, CONN + ".write_headers", replace_expr(lambda n: q.is_call(n, "self._format_chunk"), lambda n: n.args[0])), "C02.body-through-guard"),
    ("100-continue no longer checks that the response is unfinished (seeded C02-adv1)", _in(H1, CONN + "._read_message", replace_expr(lambda n: isinstance(n, ast.BoolOp) and "100-continue" in _u(n) and "_write_finished" in _u(n), lambda n: n.values[0])), "C02.fixed-writes"),
    ("100-continue also sent in client mode", _in(H1, CONN + "._read_message", lambda root: _expect_out_of_else(root)), "C02.fixed-writes"),
    ("last-chunk marker not written", _in(H1, CONN + ".finish", remove_stmts(lambda st: isinstance(st, ast.If) and q.dotted(st.test) == CHUNKING)), "C02.terminator"),
    ("last-chunk marker written unconditionally", _in(H1, CONN + ".finish", replace_expr(lambda n: isinstance(n, ast.Attribute) and q.dotted(n) == CHUNKING, TRUE)), "C02.terminator"),
    ("short-body check removed from finish", _in(H1, CONN + ".finish", remove_stmts(lambda st: isinstance(st, ast.If) and ECR in _u(st.test))), "C02.short-body"),
    ("short body: raise without closing", _in(H1, CONN + ".finish", remove_stmts(lambda st: isinstance(st, ast.Expr) and _u(st) == "self.stream.close()")), "C02.close-before-raise"),
    ("RequestHandler.finish computes Content-Length for 204", _in(WEB, RH + ".finish", replace_expr(lambda n: isinstance(n, ast.Tuple) and q.literal_ints(n) == [204, 304], lambda n: ast.Tuple(elts=[ast.Constant(value=304)], ctx=ast.Load()))), "C02.finish-bodiless"),
    ("Content-Length = number of buffered parts", _in(WEB, RH + ".finish", replace_expr(lambda n: q.is_call(n, "sum"), lambda n: parse_expr("len(self._write_buffer)"))), "C02.finish-content-length"),
    ("Content-Length only for GET", _in(WEB, RH + ".finish", replace_expr(lambda n: _is_cmp(n, ast.NotIn, "Content-Length"), lambda n: parse_expr("'Content-Length' not in self._headers and self.request.method == 'GET'"))), "C02.finish-content-length"),
    ("ETag-match 304 keeps the buffered body", _in(WEB, RH + ".finish", remove_stmts(lambda st: isinstance(st, ast.Assign) and WB in q.assigned_paths(st))), "C02.finish-bodiless"),
    ("finish(chunk): Content-Length computed before the chunk is buffered", _in(WEB, RH + ".finish", lambda root: _write_after_cl(root)), "C02.finish-order"),
    ("finish: connection.finish() only when something was buffered", _in(WEB, RH + ".finish", replace_stmt(lambda st: isinstance(st, ast.Expr) and _u(st) == "self.request.connection.finish()", lambda st: [ast.If(test=parse_expr("future is not None and chunk is not None"), body=[st], orelse=[])])), "C02.finish-order"),
    ("flush keeps the flushed chunks in the buffer", _in(WEB, RH + ".flush", remove_stmts(lambda st: isinstance(st, ast.Assign) and WB in q.assigned_paths(st))), "C02.buffer-consumed"),
    ("flush empties the buffer before reading it", _in(WEB, RH + ".flush", lambda root: _swap_join_reset(root)), "C02.buffer-consumed"),
    ("write buffer initialised in __init__ instead of clear() (seeded C02-adv3)", lambda repo: mutate(mutate(repo, WEB, RH + ".clear", remove_stmts(lambda st: isinstance(st, (ast.Assign, ast.AnnAssign)) and WB in q.assigned_paths(st))), WEB, RH + ".__init__", replace_stmt(lambda st: _u(st) == "self.clear()", lambda st: [parse_stmt("self._write_buffer = []"), st])), "C02.error-reset"),
    ("send_error keeps the prepared response (no clear())", _in(WEB, RH + ".send_error", remove_stmts(lambda st: _u(st) == "self.clear()")), "C02.error-reset"),
    ("clear() keeps the old headers when a status was set", _in(WEB, RH + ".clear", replace_stmt(lambda st: isinstance(st, ast.Assign) and HDRS in q.assigned_paths(st), lambda st: [ast.If(test=parse_expr("getattr(self, '_status_code', 200) == 200"), body=[st], orelse=[])])), "C02.error-reset"),
    ("flush: HEAD chunk not discarded on first flush", _in(WEB, RH + ".flush", remove_stmts(lambda st: isinstance(st, ast.If) and "HEAD" in _u(st.test) and len(st.body) == 1 and isinstance(st.body[0], ast.Assign))), "C02.head-discard"),
    ("flush: HEAD chunk written on later flushes", _in(WEB, RH + ".flush", replace_expr(lambda n: _is_cmp(n, ast.NotEq, "HEAD"), TRUE)), ("C02.head-discard", "C02.headers-once")),
    ("flush: _headers_written never set", _in(WEB, RH + ".flush", remove_stmts(lambda st: isinstance(st, ast.Assign) and HW in q.assigned_paths(st))), "C02.headers-once"),
    ("flush: HEAD discard moved before the transforms (transform output sent)", _in(WEB, RH + ".flush", lambda root: _move_head_discard(root)), "C02.head-discard"),
]


def _move_head_discard(root):
    for node in ast.walk(root):
        body = getattr(node, "body", None)
        if isinstance(body, list):
            for i, st in enumerate(body):
                if isinstance(st, ast.If) and "HEAD" in _u(st.test) and len(st.body) == 1 and isinstance(st.body[0], ast.Assign):
                    for j in range(i):
                        if isinstance(body[j], ast.For):
                            body.insert(j, body.pop(i))
                            return True
    return False


def _zero_set_edit(root, edit):
    """Apply ``edit`` to the test of the ``if`` that sets the expected length to 0."""
    for st in ast.walk(root):
        if isinstance(st, ast.If) and st.body and isinstance(st.body[0], ast.Assign) and ECR in q.assigned_paths(st.body[0]) and isinstance(st.body[0].value, ast.Constant) and st.body[0].value.value == 0:
            holder = ast.Expr(value=st.test)
            ok = edit(holder)
            st.test = holder.value
            return ok
    return False


def _expect_out_of_else(root):
    """Move the Expect handling out of the server-only else branch."""
    for node in ast.walk(root):
        body = getattr(node, "body", None)
        if isinstance(body, list):
            for i, st in enumerate(body):
                if isinstance(st, ast.If) and q.dotted(st.test) == "self.is_client" and st.orelse and any("100-continue" in _u(x) for x in st.orelse):
                    moved = [x for x in st.orelse if "100-continue" in _u(x)]
                    st.orelse = [x for x in st.orelse if x not in moved] or []
                    body[i + 1:i + 1] = moved
                    return True
    return False


def _write_after_cl(root):
    body = root.body
    for i, st in enumerate(body):
        if isinstance(st, ast.If) and "is not None" in _u(st.test) and any("self.write" in _u(x) for x in st.body):
            for j in range(i + 1, len(body)):
                if isinstance(body[j], ast.If) and "_headers_written" in _u(body[j].test):
                    body.insert(j, body.pop(i))
                    return True
    return False


def _swap_join_reset(root):
    body = root.body
    for i, st in enumerate(body[:-1]):
        if isinstance(st, ast.Assign) and "join(self._write_buffer)" in _u(st) and isinstance(body[i + 1], ast.Assign) and WB in q.assigned_paths(body[i + 1]):
            body[i], body[i + 1] = body[i + 1], body[i]
            return True
    return False


def _close_only_for_10(root):
    for st in ast.walk(root):
        if isinstance(st, ast.If) and len(st.body) == 1 and isinstance(st.body[0], ast.Assign) and DOF in q.assigned_paths(st.body[0]) and isinstance(st.test, ast.BoolOp):
            for i, v in enumerate(st.test.values):
                if isinstance(v, ast.UnaryOp) and isinstance(v.op, ast.Not) and q.dotted(v.operand) == CHUNKING:
                    st.test.values[i] = parse_expr("self._request_start_line.version == 'HTTP/1.0'")
                    return True
    return False
